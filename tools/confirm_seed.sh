#!/bin/sh
# tools/confirm_seed.sh <Cxx> [out-suffix] - re-verify a seeded change in its scratch worktree /tmp/wt/<Cxx>:
#  A demo fails with the change, B demo passes without it, C the existing suite passes with the change (demo removed).
ID=$1; W=/tmp/wt/$ID; O=/tmp/wt/$ID-out
cd $W || exit 2
CMD=$(python3 -c "import json;print(json.load(open('$O/meta.json'))['demo_command'])")
export CARGO_NET_OFFLINE=true
echo "demo command: $CMD"
sh -c "$CMD" > $O/confirm_A.log 2>&1; A=$?
git apply -R $O/patch.diff || { echo "cannot revert patch"; exit 2; }
sh -c "$CMD" > $O/confirm_B.log 2>&1; B=$?
# patch only, demo removed
# (no `git stash` here: the stash is shared by all worktrees of a repository, concurrent runs would hand each other's files back)
git diff > $O/.state.diff; git ls-files --others --exclude-standard > $O/.state.untracked; tar cf $O/.state.tar -T $O/.state.untracked
git checkout -q -- . ; xargs -r rm -f < $O/.state.untracked; git apply $O/patch.diff || { echo "cannot re-apply"; exit 2; }
cargo test --workspace --offline > $O/confirm_C.log 2>&1; C=$?
git checkout -q -- . ; [ -s $O/.state.diff ] && git apply $O/.state.diff; tar xf $O/.state.tar; rm -f $O/.state.diff $O/.state.untracked $O/.state.tar
git apply $O/patch.diff  # leave the worktree as it was found: change applied, demonstration present
echo "$ID: demo_with_change_exit=$A (want !=0) demo_without_change_exit=$B (want 0) suite_with_change_exit=$C (want 0)"
grep -E "^test result" $O/confirm_C.log | head -3
