#!/bin/sh
# tools/confirm_seed.sh <Cxx> [out-suffix] - re-verify a seeded change in its scratch worktree /tmp/wt/<Cxx>:
#  A demo fails with the change, B demo passes without it, C the existing suite passes with the change (demo removed).
ID=$1; W=/tmp/wt/$ID; O=/tmp/wt/$ID-out
cd $W || exit 2
CMD=$(python3 -c "import json;print(json.load(open('$O/meta.json'))['demo_command'])")
export CARGO_NET_OFFLINE=true
echo "demo command: $CMD"
sh -c "$CMD" > $O/confirm_A.log 2>&1; A=$?
git apply -R $O/patch.diff || { echo "cannot revert patch"; exit 2; }
sh -c "$CMD" > $O/confirm_B.log 2>&1; B=$?
# patch only, demo removed
git stash -q --include-untracked 2>/dev/null; git checkout -q -- . ; git apply $O/patch.diff || { echo "cannot re-apply"; exit 2; }
cargo test --workspace --offline > $O/confirm_C.log 2>&1; C=$?
git stash pop -q 2>/dev/null
echo "$ID: demo_with_change_exit=$A (want !=0) demo_without_change_exit=$B (want 0) suite_with_change_exit=$C (want 0)"
grep -E "^test result" $O/confirm_C.log | head -3
