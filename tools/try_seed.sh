#!/bin/sh
# tools/try_seed.sh <patch.diff> [tier] [ids...]  - apply a seeded change to /repo, run the checks, undo it.
# Prints one line per check: id exit code and the first VIOLATION line.
PATCH="$1"; shift
TIER=${1:-quick}; [ $# -gt 0 ] && shift
IDS="$@"
cd "$(dirname "$0")/.." || exit 2
[ -z "$IDS" ] && IDS=$(python3 -c "import json;print(' '.join(c['property_id'] for c in json.load(open('MANIFEST.json'))['checks']))")
if [ -n "$(git -C /repo status --porcelain --untracked-files=no)" ]; then echo "/repo is dirty, refusing"; exit 2; fi
git -C /repo apply "$PATCH" || { echo "patch does not apply"; exit 2; }
# evidence files are rewritten by the runs: keep the committed ones
cp -r evidence /tmp/evidence.keep.$$
for id in $IDS; do
  out=$(timeout -k 5 ${TRY_TIMEOUT:-600} ./check $id $TIER 2>&1); e=$?
  echo "$id exit=$e $(echo "$out" | grep -E '^VIOLATION' | head -1 | cut -c1-120) $(echo "$out" | grep -E '^  detail' | head -1 | cut -c1-260)"
done
git -C /repo checkout -- .
rm -rf evidence; mv /tmp/evidence.keep.$$ evidence
(cd harness && cargo build --release --quiet 2>/dev/null)
