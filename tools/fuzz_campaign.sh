#!/bin/sh
# tools/fuzz_campaign.sh <target> <seconds> [jobs]   - libFuzzer campaign with the property's oracle inside the target.
# Not part of the registered commands; crashes land in fuzz/artifacts/<target>/ and become replay files by hand.
T=$1; SECS=${2:-60}; JOBS=${3:-4}
cd "$(dirname "$0")/../harness" || exit 2
export CARGO_NET_OFFLINE=true VERIF_ROOT=/verif
cargo +nightly fuzz build --fuzz-dir /verif/fuzz $T >/dev/null 2>&1 || { echo "fuzz build failed"; exit 2; }
mkdir -p /verif/fuzz/corpus/$T /verif/fuzz/artifacts/$T
[ -d /verif/fuzz/seeds/$T ] && cp -n /verif/fuzz/seeds/$T/* /verif/fuzz/corpus/$T/ 2>/dev/null
/verif/target/x86_64-unknown-linux-gnu/release/$T /verif/fuzz/corpus/$T -artifact_prefix=/verif/fuzz/artifacts/$T/ \
   -max_total_time=$SECS -jobs=$JOBS -workers=$JOBS -len_control=0 -max_len=512 -seed=${VERIF_SEED:-1} -print_final_stats=1 > /verif/out/fuzz-$T.log 2>&1
grep -hE "stat::number_of_executed_units|stat::new_units_added" /verif/out/fuzz-$T.log fuzz-*.log 2>/dev/null | head -4
ls /verif/fuzz/artifacts/$T | head
rm -f fuzz-*.log
