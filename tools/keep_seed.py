#!/usr/bin/env python3
"""tools/keep_seed.py <Cxx> <name> : after tools/confirm_seed.sh succeeded in /tmp/wt/<Cxx>, run every quick check against the
seeded change (applied to /repo and undone again), store patch, demonstration and meta.json under /verif/seeded/<name>/ and
remove the scratch worktree."""
import json, os, re, shutil, subprocess, sys, time
cid, name = sys.argv[1], sys.argv[2]
W, O, D = f"/tmp/wt/{cid}", f"/tmp/wt/{cid}-out", f"/verif/seeded/{name}"
conf = open(f"{O}/confirm.txt").read() if os.path.exists(f"{O}/confirm.txt") else ""
m = re.search(r"demo_with_change_exit=(\d+).*demo_without_change_exit=(\d+).*suite_with_change_exit=(\d+)", conf)
if not m or m.group(1) == "0" or m.group(2) != "0" or m.group(3) != "0":
    print("NOT CONFIRMED:", conf[-400:]); sys.exit(1)
os.makedirs(D, exist_ok=True)
shutil.copy(f"{O}/patch.diff", f"{D}/patch.diff")
for f in os.listdir(O):
    if f.startswith("demo") :
        shutil.copy(f"{O}/{f}", f"{D}/{f}")
meta = json.load(open(f"{O}/meta.json"))
t0 = time.time()
ids = os.environ.get("KEEP_IDS", "").split()  # restrict the checks run (default: all registered)
out = subprocess.run(["/verif/tools/try_seed.sh", f"{D}/patch.diff", "quick"] + ids, capture_output=True, text=True).stdout
caught, missed, detail = [], [], {}
for line in out.splitlines():
    mm = re.match(r"(C\d+) exit=(\d+)\s*(.*)", line)
    if not mm: continue
    if mm.group(2) == "1":
        caught.append(mm.group(1)); detail[mm.group(1)] = re.sub(r"VIOLATION property=\S+ replay=\S+\s*", "", mm.group(3)).strip()[:240]
    elif mm.group(2) == "0":
        missed.append(mm.group(1))
    else:
        detail[mm.group(1)] = "exit " + mm.group(2) + " " + mm.group(3)[:200]
meta.update({
    "breaks_property": cid,
    "confirmed_by_me": {"demo_fails_with_change": True, "demo_passes_without_change": True, "existing_suite_passes_with_change": True,
                        "how": "tools/confirm_seed.sh in the scratch worktree: demo command with the change, with the change reverted (git apply -R), and cargo test --workspace --offline with the change applied and the demonstration removed"},
    "checks_run": "tools/try_seed.sh <patch> quick " + (" ".join(ids) if ids else "(every registered quick command)") + " with the change applied to /repo, then git checkout -- .",
    "caught_by_quick": caught, "first_violation": detail, "quiet_quick": missed, "wall_s_all_checks": round(time.time() - t0, 1),
})
json.dump(meta, open(f"{D}/meta.json", "w"), indent=1)
print(name, "caught by", caught)
if cid in caught:
    subprocess.run(["git", "-C", "/repo", "worktree", "remove", "--force", W]); shutil.rmtree(O, ignore_errors=True)
else:
    print("NOT caught by its own property's check - worktree kept for analysis")
