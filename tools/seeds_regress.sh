#!/bin/sh
# every kept seeded change must still be caught by the quick check of the property it was written against
# usage: tools/seeds_regress.sh [name-substring]
cd "$(dirname "$0")/.." || exit 2
fail=0
for d in seeded/*/; do
  n=$(basename "$d")
  case "$n" in *"$1"*) ;; *) continue;; esac
  prop=$(python3 -c "import json,sys;m=json.load(open('$d/meta.json'));print((m.get('regress_with') or [m.get('property') or m.get('breaks_property')])[0])")
  out=$(tools/try_seed.sh "$(pwd)/$d/patch.diff" quick "$prop" 2>&1 | grep "^$prop exit=")
  case "$out" in
    "$prop exit=1"*) echo "ok     $n ($prop)";;
    *) echo "MISSED $n ($prop): $out"; fail=1;;
  esac
done
exit $fail
