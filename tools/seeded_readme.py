#!/usr/bin/env python3
"""seeded/README.md from seeded/*/meta.json"""
import json, glob, os
root = os.path.dirname(os.path.dirname(os.path.abspath(__file__)))
rows = []
for p in sorted(glob.glob(os.path.join(root, 'seeded', '*', 'meta.json'))):
    m = json.load(open(p))
    rows.append((os.path.basename(os.path.dirname(p)), m))
out = []
out.append('# Seeded changes\n')
out.append('Each directory holds one change to hyperium/h3 written by a fresh sub-agent that was given only the text of one property and a\n'
           'scratch worktree (nothing from /verif). A change is kept only after it was confirmed in a scratch worktree that it compiles,\n'
           'that the in-tree suite still passes with it, and that its demonstration fails with it and passes without it\n'
           '(`tools/confirm_seed.sh`). `patch.diff` is the library change only; it is applied to /repo with `git apply`, every registered\n'
           'quick command is run (`tools/try_seed.sh`), and /repo is restored with `git checkout -- .` straight afterwards.\n'
           'None of these changes is ever committed to /repo.\n')
out.append('| seeded change | property | what it needs to manifest | quick checks that turn red | first violation reported by the property\'s own check | history |')
out.append('|---|---|---|---|---|---|')
def cell(s, n=420):
    s = ' '.join(str(s).split()).replace('|', '\\|')
    return s if len(s) <= n else s[:n - 3] + '...'
for name, m in rows:
    prop = m.get('property') or m.get('breaks_property')
    needs = m.get('needs_to_manifest') or m.get('what_it_needs_to_manifest') or ''
    caught = ', '.join(m.get('caught_by_quick', [])) or 'none'
    fv = (m.get('first_violation') or {}).get(prop, '')
    out.append(f"| `{name}` | {prop} | {cell(needs)} | {caught} | {cell(fv, 260)} | {cell(m.get('history', 'caught as built'), 600)} |")
n_hist = sum(1 for _, m in rows if 'history' in m)
out.append('')
out.append(f'{len(rows)} changes, one per property; every one is caught by the check of the property it was written against '
           f'({n_hist} of them only after the check was strengthened - see the history column and DESIGN.md 6.6).')
open(os.path.join(root, 'seeded', 'README.md'), 'w').write('\n'.join(out) + '\n')
print(len(rows), 'rows')
