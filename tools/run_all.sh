#!/bin/sh
# tools/run_all.sh [quick|thorough] [ids...]: runs the registered checks, prints one line each
cd "$(dirname "$0")/.." || exit 2
TIER=${1:-quick}; shift
IDS="$@"
[ -z "$IDS" ] && IDS=$(python3 -c "import json;print(' '.join(c['property_id'] for c in json.load(open('MANIFEST.json'))['checks']))")
rc=0
for id in $IDS; do
  out=$(./check $id $TIER 2>&1); e=$?
  echo "$id exit=$e $(echo "$out" | grep -E "^$id $TIER:" | tail -1)"
  echo "$out" | grep -E "^(VIOLATION|INCONCLUSIVE|KNOWN-FINDING)" | cut -c1-220
  [ $e -ne 0 ] && rc=1
done
python3-vt - <<'PY'
import json, jsonschema, glob
s=json.load(open('/root/.vp/EVIDENCE.schema.json'))
for f in sorted(glob.glob('/verif/evidence/*.json')):
    try:
        jsonschema.validate(json.load(open(f)), s)
    except Exception as e:
        print("EVIDENCE INVALID", f, str(e)[:200])
jsonschema.validate(json.load(open('/verif/MANIFEST.json')), json.load(open('/root/.vp/MANIFEST.schema.json')))
print("schemas ok")
PY
exit $rc
