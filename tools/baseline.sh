#!/bin/sh
# Runs the repository's own test suite with the verif-hooks feature OFF and summarises the result.
cd /repo && CARGO_NET_OFFLINE=true cargo test --workspace --no-fail-fast --offline 2>&1 | tee /tmp/baseline.log | grep -E "^test result|FAILED|failed|panicked" | head -40
