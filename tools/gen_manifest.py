#!/usr/bin/env python3
"""Regenerates /verif/MANIFEST.json from the table below (single source of truth for the interface)."""
import json, os, sys

ROOT = os.path.dirname(os.path.dirname(os.path.abspath(__file__)))

# id -> (engine, technique, level text, level note, design ref)
CHECKS = {
 "C16": ("codec",
         "property-based testing (proptest over a choice tape) + exhaustive enumeration of the small encodings; oracle = independent RFC 9000 varint codec (cross-checked against octets) and 128-bit arithmetic model of stream ids",
         "Differential/round-trip check of VarInt, StreamId, PushId against a reference written from RFC 9000: exhaustive over all 1-/2-byte strings (3-byte in thorough), all values < 2^16 (2^22), every form boundary +-2 in every form and truncation, stream-id kinds x boundary indices x increments; millions of random 64-bit values / strings beyond. Exploration: no counterexample in the enumerated and sampled space.",
         "trusted: reference varint (src/reference/varint.rs, self-tested against RFC 9000 A.1 vectors and octets), Display of StreamId as the only view of initiator/direction",
         "DESIGN.md section 3 C16"),
 "C15": ("codec",
         "property-based testing + exhaustive enumeration; oracles = round trip, and a differential against an independent strict RFC 7541 Huffman decoder / exact 128-bit prefixed-integer decoder",
         "h3's Huffman/string/prefixed-integer codecs (reached through the cfg-guarded re-export) are compared with a reference built from the RFC 7541 code table (vendored from octets, cross-checked against octets' decoder): exhaustive over all Huffman payloads of 0..2 bytes (0..3 thorough), all strings of 0..2 bytes x prefix sizes, integers at every power-of-two and prefix boundary x sizes 1..8, all continuation patterns over {00,01,7f,80,ff}^k; random valid encodings with every padding length 0..15 and padding pattern, EOS splices, random 64-bit integers. Both directions are asserted (accepts exactly). One known finding (padding of >= 8 one-bits accepted) is excluded by an exact predicate and counted.",
         "trusted: reference Huffman trie + table (src/reference/huffman*.rs), reference prefix-int arithmetic in u128; interpretation that 2^62..u64::MAX may be refused but never wrapped",
         "DESIGN.md section 3 C15"),
 "C18": ("codec",
         "property-based testing + exhaustive enumeration; oracle = reference wire format varint(S/4)||P, round trip, and reference acceptance rule for decode",
         "Datagram::new/encode/decode compared with the reference wire format for all quarter ids < 2^16 (2^20 thorough), every varint form boundary, payloads 0..1500, nine consumption patterns of the encoded Buf (copy, byte steps, mixed steps, vectored, jumps); decode over all strings <= 2 bytes (3 thorough), every truncation of every form, quarter ids around 2^60; rejected inputs must carry H3_DATAGRAM_ERROR.",
         "trusted: reference varint; error code observed through LocalError::from(InternalConnectionError)",
         "DESIGN.md section 3 C18"),
 "C11": ("codec",
         "property-based testing + exhaustive enumeration; oracle = differential against an independent RFC 9204 (capacity 0) decoder/encoder with its own static table and strict Huffman codec",
         "encode_stateless output is decoded by the reference to the input list (and size == sum(n+v+32)); for every byte string h3 accepts the reference must accept with the same list, and valid-by-construction encodings in every legal spelling (indexed / name reference / literal, H and N bits, redundant integer forms, any delta base) must be accepted. Exhaustive over all strings <= 3 bytes after the 00 00 prefix, all <= 2-byte prefixes, all 99 static entries in every spelling; random field lists (all byte values, lengths 0..300), grammar-directed mutants and random strings beyond. One known finding (Huffman padding >= 8 one-bits) excluded by an exact predicate and counted.",
         "trusted: src/reference/qpack.rs (static table typed from RFC 9204 Appendix A), src/reference/huffman.rs",
         "DESIGN.md section 3 C11"),
 "C02": ("codec",
         "property-based testing + exhaustive enumeration over strings x chunkings x end-of-stream; oracle = differential against a reference RFC 9114 7.1 segmenter, metamorphic over chunkings (every chunking must give the reference's event list)",
         "Frame::decode on contiguous strings and FrameStream::{poll_next,poll_data} over a scripted RecvStream are compared with the reference segmentation of the whole string: same frames, same DATA bytes, unknown frames skipped in full, layout errors and frames cut by end of stream in the H3_FRAME_ERROR class, never Pending when the stream has ended, for every chunking (all 2^(n-1) for short strings), with and without end of stream and with Pending interleaved. Exhaustive over all strings <= 2 bytes (3 thorough), all 1-frame strings over 14 types x varint forms x payload alphabets x declared-length deltas x every cut, 2-frame strings; random long strings (DATA up to 64 KiB) beyond.",
         "trusted: src/reference/frames.rs; type 0x41 (WebTransport pseudo frame) excluded and counted; mapping to connection error codes at the API is checked in the simnet based properties",
         "DESIGN.md section 3 C02"),
 "C01": ("simnet",
         "property-based testing over generated messages x application shapes x transport schedules (stateful: real h3 client and server over a deterministic simulated QUIC transport whose every choice comes from the tape); oracle = round trip at the API",
         "The real h3 client and server exchange 1..3 generated request/response pairs (methods, absolute/authority-form targets, CONNECT+:protocol, header multisets with duplicates and obs-text, bodies 0..64 KiB in 0..12 pieces incl. empty pieces, optional/empty trailers) over a simulated transport that fragments, delays, interleaves and back-pressures under tape control (eager / tiny / random styles, send credit 0..unlimited, stream credit), with whole or split streams and three server response orders. Everything the statement lists is compared at the receiving application; any error, early end, non-clean close or pending task at quiescence is a violation.",
         "trusted: the simulated transport is a legal QUIC stack (Quinn 0.11 semantics), the hand-written executor polls a task only after its waker fired; http crate's own types are the comparison domain",
         "DESIGN.md section 3 C01, 2.4, 2.5"),
 "C03": ("simnet",
         "exhaustive enumeration of frame sequences + property-based testing of longer ones, against a reference automaton of RFC 9114 4.1 (model-based), over generated schedules",
         "A scripted raw peer sends every sequence of length <= 4 (<= 5 thorough) over the 11-symbol frame alphabet x {FIN, RESET, left open} x 3 schedule styles to a real h3 server and, mirrored, to a real h3 client running the documented call pattern; the observed call results, body bytes, close code at the transport and driver result must equal the reference automaton (H3_FRAME_UNEXPECTED for every forbidden sequence, H3_REQUEST_INCOMPLETE without close for FIN before HEADERS on a server, prefix + RemoteTerminate for RESET, prefix + pending for open). Random sequences up to length 12 with random reset codes and schedules beyond.",
         "trusted: reference automaton in src/props/c03.rs (model), reference frame/QPACK serializer, simulated transport",
         "DESIGN.md section 3 C03"),
 "C14": ("simnet",
         "property-based testing over API programs x configurations x write-acceptance patterns; oracle = reference RFC 9114 parser over the complete per-stream byte logs + metamorphic relation (same frames as under accept-everything)",
         "Both roles run generated API programs (1..3 exchanges, send_data incl. empty and 64 KiB buffers, trailers, finish, repeated server shutdown(n), client shutdown, handles dropped between calls, builder option classes, grease on/off) over a transport that accepts writes a few bytes at a time; every byte each h3 end wrote on every stream is parsed by the reference: legal stream types, SETTINGS first and once with legal ids, only allowed frames per stream kind, complete frames whose declared length matches, reserved ids of the 0x1f*N+0x21 form, GOAWAY ids legal for the role and never greater than in an earlier GOAWAY of the same endpoint (RFC 9114 5.2); the semantic frame content must equal that of the accept-everything run.",
         "trusted: src/simnet/wire.rs + src/reference/frames.rs; write futures are never cancelled mid-frame (outside the documented patterns)",
         "DESIGN.md section 3 C14"),
 "C04": ("simnet",
         "exhaustive enumeration (odometer over a bounded scenario generator) + property-based testing of larger peer behaviours, against a reference control/uni-stream machine (model-based), over generated schedules and credit starvation",
         "A scripted raw peer opens unidirectional streams of every kind (control with every <= 2-frame sequence over the 10-symbol control alphabet after/without SETTINGS, FIN/RESET/open; duplicate control/encoder/decoder; push; WebTransport-uni with multi-byte ids; grease; unknown; ended before/inside the type varint; all four varint forms) in tape-chosen arrival order and chunking, against a real h3 server and client whose own outgoing streams are starved of stream and send credit; the close code at the transport, the driver result, settings() and the GOAWAY effect (server accept()==None / client send_request => RemoteClosing, and not otherwise) must match the reference machine; RESET endings are judged against every prefix the endpoint may have seen.",
         "trusted: reference machine in src/props/c04.rs; push streams / CANCEL_PUSH are outside the statement (any outcome); simulated transport",
         "DESIGN.md section 3 C04"),
 "C10": ("simnet",
         "enumeration of (kind x limit x size-around-the-limit x SETTINGS timing) + property-based testing of random limits/sizes; oracle = reference size function sum(n+v+32) over the reference-decoded wire sections and the rule accept iff size <= limit",
         "Eight kinds (request/response x headers/trailers x receive/send) against real h3 ends over simnet with a raw peer: sections built to an exact reference size sweep L-2..L+2 around 15 limits (0, 1, 41..43, 100, 167, 204, 205, 300, 1000, 65535, 2^32, 2^62-1, none) wherever a valid message of that size exists. Receive: accepted iff s <= L, refusal is HeaderTooBig, never a close, the next message is still served, a server answers 431 iff 42 <= the client's advertised limit. Send: the call succeeds iff s <= the limit in effect (peer's value once the driver processed SETTINGS, unlimited before), and the HEADERS frame under test is on the wire iff it was allowed, with exactly the reference size.",
         "trusted: reference QPACK decoder and size function; valid requests below 167 bytes / responses below 42 do not exist in this generator, small boundaries are swept with trailers",
         "DESIGN.md section 3 C10"),
 "C12": ("simnet",
         "property-based testing with a labelled-mutation catalogue (metamorphic: valid base + mutation with known effect) judged by a three-valued reference validator; exhaustive over single mutations x positions; send side by reference decoding of every HEADERS frame h3 writes",
         "Field lists (8 valid base messages + up to 3 of 44 catalogue mutations at every position, and random lists over adversarial name/value alphabets) are judged by a validator that implements exactly the statement's clauses (MustAccept / MustReject / Unspecified) and compared with h3 at the unit level (Header::try_from + into_request_parts/into_response_parts/into_fields) and at the API (reference-encoded sections in several QPACK spellings injected by a raw peer into a real server/client: delivered, or StreamError H3_MESSAGE_ERROR on that stream, never a close, next message still delivered). Send side: for generated http::Request/Response/trailer maps every HEADERS frame on the wire is reference-decoded: pseudo fields first, each once, values as supplied, none in trailers.",
         "trusted: src/reference/fields.rs (clauses the statement is silent about are Unspecified), reference QPACK codec",
         "DESIGN.md section 3 C12"),
 "C13": ("simnet",
         "exhaustive enumeration of every builder configuration and of short SETTINGS payloads + property-based testing of longer ones; oracle = reference SETTINGS parser on h3's control stream and reference acceptance/interpretation of received payloads",
         "All 1936 server and 88 client builder configurations are built over simnet: no panic, one well-formed SETTINGS frame first on the control stream, no duplicate / HTTP/2-reserved id, effective values equal to the configured ones (varint maximum or a failed build for values >= 2^62), other ids of the reserved form. Received payloads (all <= 2-entry payloads over 12 ids x 5 values x 2 varint forms with every truncation, 3 entries in thorough, random longer ones with duplicates, permutations and truncations; both roles): duplicate known / HTTP/2-reserved id => H3_SETTINGS_ERROR at transport and driver, truncated => a connection error, otherwise no error and the applied settings (booleans via settings(), MAX_FIELD_SECTION_SIZE via the send limit of a probe message) equal the reference interpretation; no SETTINGS => defaults.",
         "trusted: src/reference/settings.rs, src/simnet/wire.rs; boolean settings with values other than 0/1 and repeated unknown ids are outside the statement",
         "DESIGN.md section 3 C13"),
 "C06": ("simnet",
         "fault injection at every step index of template scenarios + grammar-directed byte mutation + arbitrary bytes (property-based, tape-driven), validity oracle: no panic, nothing pending at quiescence after the peer ended the stream or the connection",
         "Adversarial raw-peer scripts against both roles under the documented application patterns: five well-formed templates (request with body/trailers/grease, concurrent requests, control traffic with GOAWAY, QPACK/push/unknown/grease uni streams, WebTransport-ish streams) with one of {FIN, RESET, STOP_SENDING, connection close, idle timeout} x codes injected at EVERY step index and every truncation of every write (exhaustive tier), plus random multi-fault, byte-mutated (flip/insert/delete/truncate/varint tweaks) and arbitrary-bytes scripts; every script ends with a connection close / timeout or with all request-stream directions finished. Each poll is wrapped in catch_unwind (h3 built with overflow checks and debug assertions); at quiescence every h3 future must have completed (connection-level waits excepted after the streams-only epilogue); a spurious poll separates lost wake-ups from genuine waits.",
         "trusted: quiescence of the closed simulated system decides 'forever'; applications follow the documented call patterns; unlimited send credit in this check",
         "DESIGN.md section 3 C06, 2.5"),
 "C07": ("simnet",
         "enumeration of (fault kind x victim subset) + property-based testing over generated request sets, merged operation orders and schedules; oracle = per-request round trip for healthy requests + stream-level error table for faulty ones + 'no close, no driver error' invariant",
         "2..4 concurrent requests on one connection against a real h3 server and, mirrored, a real h3 client; any subset suffers one of RESET(code) at a byte offset, STOP_SENDING(code) at a moment, a validly encoded malformed message, an oversized section, FIN before HEADERS, an abandoned stream; operations of all streams are merged in tape order. Healthy requests must see exactly their own body and end of message and h3 must write exactly HEADERS + DATA(own echo) + FIN on their stream; faulty ones report, if anything, RemoteTerminate{peer code} / H3_MESSAGE_ERROR / HeaderTooBig / H3_REQUEST_INCOMPLETE; zero close calls, no driver error, every announced request accepted. Both ends h3 (e2e family): the client cancels a proper subset of its requests, or the victims are malformed only as a whole (no :authority and an empty Host: sent by h3's client, refused by the server with H3_MESSAGE_ERROR at stream level on both ends; Host and :authority disagree: refused by the client itself as an error of that request only, the well-formed request k follows on the same handle).",
         "trusted: reference frame parser for the written side, simulated transport",
         "DESIGN.md section 3 C07"),
 "C08": ("simnet",
         "exhaustive enumeration of short histories (odometer) + property-based testing of long ones; oracle = invariants over the GOAWAY / accept / reject history read from the wire (reference parser) and the transport event log",
         "Server: all histories of <= 5 operations over {request arrives (HEADERS at once or late), shutdown(0..3), a request completes, settle} under two schedules, random histories up to 20 operations: GOAWAY ids never increase and are client-initiated bidi ids; for every GOAWAY id g no stream >= g is ever returned by accept(); every stream taken from the transport is returned by accept() or STOP_SENDING'd and RESET with H3_REQUEST_REJECTED (both, never neither); while accepting, every arrived stream below the last id is served. Client: all sequences of <= 3 (4) received GOAWAY ids over 10 ids each followed by a send_request attempt: RemoteClosing and no new stream after a processed GOAWAY; increasing or non-request ids => H3_ID_ERROR at transport and driver.",
         "trusted: streams are announced in id order (QUIC); transport event log of the simulator",
         "DESIGN.md section 3 C08"),
 "C09": ("simnet",
         "exhaustive enumeration of request-ending histories + property-based testing; oracle = quiescence invariant accept()==None iff all handed-out requests ended (ground truth counted by the handlers)",
         "All histories of <= 3 requests x 12 (ending, immediate/late) options x GOAWAY position under two schedules (and against a server that sends grease while the peer grants exactly three unidirectional streams, frozen), random ones up to 4 requests: endings {normal, resolver dropped, FIN before HEADERS, RESET before/after HEADERS, malformed headers, split halves dropped separately, never}. With the peer's GOAWAY processed and every handed-out request ended the accept loop must have observed Ok(None) at quiescence; otherwise it must not; at the instant accept() returns None no handed-out request may be alive.",
         "trusted: quiescence decides 'forever'; handlers bump the ended counter in the same poll as dropping their last handle",
         "DESIGN.md section 3 C09"),
 "C19": ("simnet",
         "exhaustive enumeration of every header/payload cut offset + property-based testing; oracle = session-id equality at three places and payload round trip, reference varints for the wire header",
         "A real h3 server with h3-webtransport over simnet, raw client: the CONNECT request is the (j+1)-th real request (j in {0,1,2,15,16,17}, random up to 40); peer-opened bidi (0x41) and uni (0x54, all varint forms) streams arrive in two steps cut at every offset of header+payload, with/without FIN; server-opened bidi/uni streams, one datagram each way, poll_data or AsyncRead with small buffers, the documented single-task select loop. session_id() == CONNECT stream id; server-opened streams start with type + that id + exactly the payload; attached SessionId == id on the wire; bytes read == bytes after the header; a complete header is surfaced without further bytes; with the extension disabled no uni stream is surfaced; never a connection error.",
         "trusted: reference varint; the application uses the documented single-task select pattern with persistent futures",
         "DESIGN.md section 3 C19"),
 "C20": ("qpack-stateful",
         "model-based property-based testing (stateful): generated workloads and delivery schedules drive h3's Encoder/Decoder next to an independent RFC 9204 dynamic-table decoder and reference bookkeeping",
         "Workloads of 1..40 field sections over a small name/value alphabet (forcing duplicates, name references, evictions), capacities {0, one entry, 100, 256, 64..400, 4096}, blocked limits {0,1,2,100}, and tape-chosen schedules over {encode, deliver 1..n encoder-stream bytes, try to decode a pending section, acknowledge, deliver decoder-stream bytes, cancel a stream}. (1) h3's Decoder returns the original list once its dependencies were delivered and MissingRefs (never another list or error) before; no call of a legal exchange fails; (2) the independent reference decoder, fed the same bytes at emission, decodes every section to the original list; (3) the reference-tracked table never exceeds capacity and no instruction evicts an entry referenced by a section whose acknowledgement has not reached the encoder. One known finding (encoder evicts unacknowledged insertions and outruns the Required-Insert-Count window) is excluded by an exact predicate and counted.",
         "trusted: src/reference/qpack_dyn.rs (self-tested against RFC 9204 Appendix B); legal exchange = acks only for sections with non-zero Required Insert Count, per stream in order, no traffic on a cancelled stream",
         "DESIGN.md section 3 C20"),
 "C05": ("interleave",
         "systematic schedule enumeration (depth-first over hook-point choices, harness-owned interleaving of real OS threads) + property-based sampling of larger races; oracle = invariant over the history: one error, same everywhere, driver never parked",
         "Scenarios prepared single-threaded over simnet (role; driver polled before or never; 1..3 request handles each about to raise a different connection error; the last SendRequest drop; a transport ApplicationClose; an error the driver detects itself). In the race each task performs ONE poll on its own OS thread; a baton scheduler decides at every hook point (before connection_error.get / get_or_init / waker.register / waker.wake) who runs next. All interleavings are enumerated for one racing handle (quick) and two (thorough); three are sampled. E = the error whose store step ran first: the driver returned E or was woken and then returns E (parked with the error set = violation); exactly one close with E's code for h3-detected errors, none for transport errors; five further driver polls return E; no handle ever reports a different connection error, in the race or in later calls.",
         "trusted: AtomicWaker and OnceLock are atomic at the hook granularity; weak-memory reorderings are not modelled (DESIGN.md section 4); later calls follow the documented pattern (a failed receive call is only repeated)",
         "DESIGN.md section 3 C05, 2.7"),
 "C17": ("quinn-loop",
         "property-based testing over generated frame sequences, flow-control windows and injected faults against REAL Quinn endpoints on UDP loopback + enumeration of the id-state and error tables; oracle = byte equality at a raw Quinn peer, id constancy, error-class table",
         "h3_quinn over real quinn 0.11 connections (fresh connection per case, endpoints reused per worker, current-thread tokio runtime): 1..6 WriteBufs (DATA/HEADERS/GOAWAY/grease/stream-type-prefixed, payloads 0..256 KiB) and raw poll_send under stream/connection receive windows and send windows from 1 byte to 16 MiB; a raw Quinn peer reads to the end and must see exactly the handed-over bytes once, complete, in order; a second send_data before poll_ready completed must be refused and contribute nothing; the last write may be polled once only before the stream is finished (a dropped send future), also through the send half of a bidirectional stream split at that moment. send_id/recv_id (and the split halves) in 8 states x opened/accepted side: always the QUIC stream id, never a panic. Error table: peer close => ApplicationClose{code} on accept/read/write, idle timeout => Timeout, reset => StreamTerminated{code} on read, stop => StreamTerminated{code} on write, for several codes incl. 2^62-1.",
         "trusted: quinn, tokio and the kernel own the schedule (sampled, not controlled); 20 s wall-clock watchdog per case maps to exit 2, never to a violation",
         "DESIGN.md section 3 C17"),
}

NOT_YET = "check not built yet in this session (see DESIGN.md section 5 for the construction order); no claim is made"

def main():
    props = [json.loads(l) for l in open(os.path.join(ROOT, "properties.jsonl"))]
    checks = []
    na = []
    for p in props:
        pid = p["id"]
        if pid in CHECKS:
            eng, tech, text, note, ref = CHECKS[pid]
            checks.append({
                "property_id": pid,
                "quick_cmd": f"./check {pid} quick",
                "thorough_cmd": f"./check {pid} thorough",
                "evidence_file": f"/verif/evidence/{pid}.json",
                "replay_cmd_template": f"./check {pid} --replay {{path}}",
                "engine": eng,
                "level_claimed": {"category": "exploration", "text": text, "design_ref": ref},
                "level_note": note,
                "technique": tech,
            })
        else:
            na.append({"property_id": pid, "reason": NOT_YET})
    hooks_commits = []
    try:
        import subprocess
        out = subprocess.run(["git", "-C", "/repo", "log", "--format=%H %s"], capture_output=True, text=True).stdout
        for line in out.splitlines():
            h, s = line.split(" ", 1)
            if s.startswith("verif-hooks:"):
                hooks_commits.append(h)
    except Exception:
        pass
    m = {
        "version": 1,
        "setup_cmd": "cd /verif/harness && CARGO_NET_OFFLINE=true cargo build --release --offline",
        "hooks": {
            "guard": "cargo feature `verif-hooks` on crate h3 (default off)",
            "enable": "harness/Cargo.toml depends on /repo/h3 with features [i-implement-a-third-party-backend-and-opt-into-breaking-changes, verif-hooks]",
            "baseline_off_cmd": "cd /repo && cargo test --workspace --no-fail-fast --offline",
            "source_commits": list(reversed(hooks_commits)),
            "add_only": True,
        },
        "engines": [
            {"name": "codec", "path": "harness/src/props (E1)", "serves_properties": ["C02", "C11", "C12", "C15", "C16", "C18"], "kind_free_text": "pure codec functions called directly; proptest over choice tapes, exhaustive loops, libFuzzer targets with the oracle inside"},
            {"name": "quinn-loop", "path": "harness/src/props/c17.rs (E4)", "serves_properties": ["C17"], "kind_free_text": "h3_quinn over real quinn endpoints on UDP loopback inside a current-thread tokio runtime"},
            {"name": "interleave", "path": "harness/src/interleave (E3)", "serves_properties": ["C05"], "kind_free_text": "baton scheduler over OS threads parked at cfg-guarded hook points inside h3: the harness owns the order of the shared-state operations of the connection error path"},
            {"name": "qpack-stateful", "path": "harness/src/props/c20.rs + harness/src/reference/qpack_dyn.rs (E5)", "serves_properties": ["C20"], "kind_free_text": "h3's stateful QPACK Encoder/Decoder (hook re-export) driven by generated workloads and delivery schedules next to a reference decoder"},
            {"name": "simnet", "path": "harness/src/simnet (E2)", "serves_properties": ["C01", "C03", "C04", "C06", "C07", "C08", "C09", "C10", "C12", "C13", "C14", "C19"], "kind_free_text": "real h3 client/server over a deterministic in-memory QUIC transport with a tape-driven scheduler and executor"},
        ],
        "checks": checks,
        "not_applicable": na,
        "notes": "All checks are property-based testing / fuzzing (generated inputs, histories, schedules, faults against explicit oracles). exit 0 held / 1 VIOLATION / 2 inconclusive. See DESIGN.md. Hooks: the three source_commits only add cfg-guarded code; one later fix commit (8cc14da, D31: register the waker before the check) had to move the guarded yield point 'waker.register' together with the line it stands in front of - with the feature off that line does not exist.",
    }
    json.dump(m, open(os.path.join(ROOT, "MANIFEST.json"), "w"), indent=1)
    print("wrote MANIFEST.json with", len(checks), "checks,", len(na), "not_applicable")

if __name__ == "__main__":
    main()
