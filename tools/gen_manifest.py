#!/usr/bin/env python3
"""Regenerates /verif/MANIFEST.json from the table below (single source of truth for the interface)."""
import json, os, sys

ROOT = os.path.dirname(os.path.dirname(os.path.abspath(__file__)))

# id -> (engine, technique, level text, level note, design ref)
CHECKS = {
 "C16": ("codec",
         "property-based testing (proptest over a choice tape) + exhaustive enumeration of the small encodings; oracle = independent RFC 9000 varint codec (cross-checked against octets) and 128-bit arithmetic model of stream ids",
         "Differential/round-trip check of VarInt, StreamId, PushId against a reference written from RFC 9000: exhaustive over all 1-/2-byte strings (3-byte in thorough), all values < 2^16 (2^22), every form boundary +-2 in every form and truncation, stream-id kinds x boundary indices x increments; millions of random 64-bit values / strings beyond. Exploration: no counterexample in the enumerated and sampled space.",
         "trusted: reference varint (src/reference/varint.rs, self-tested against RFC 9000 A.1 vectors and octets), Display of StreamId as the only view of initiator/direction",
         "DESIGN.md section 3 C16"),
}

NOT_YET = "check not built yet in this session (see DESIGN.md section 5 for the construction order); no claim is made"

def main():
    props = [json.loads(l) for l in open(os.path.join(ROOT, "properties.jsonl"))]
    checks = []
    na = []
    for p in props:
        pid = p["id"]
        if pid in CHECKS:
            eng, tech, text, note, ref = CHECKS[pid]
            checks.append({
                "property_id": pid,
                "quick_cmd": f"./check {pid} quick",
                "thorough_cmd": f"./check {pid} thorough",
                "evidence_file": f"/verif/evidence/{pid}.json",
                "replay_cmd_template": f"./check {pid} --replay {{path}}",
                "engine": eng,
                "level_claimed": {"category": "exploration", "text": text, "design_ref": ref},
                "level_note": note,
                "technique": tech,
            })
        else:
            na.append({"property_id": pid, "reason": NOT_YET})
    hooks_commits = []
    try:
        import subprocess
        out = subprocess.run(["git", "-C", "/repo", "log", "--format=%H %s"], capture_output=True, text=True).stdout
        for line in out.splitlines():
            h, s = line.split(" ", 1)
            if s.startswith("verif-hooks:"):
                hooks_commits.append(h)
    except Exception:
        pass
    m = {
        "version": 1,
        "setup_cmd": "cd /verif/harness && CARGO_NET_OFFLINE=true cargo build --release --offline",
        "hooks": {
            "guard": "cargo feature `verif-hooks` on crate h3 (default off)",
            "enable": "harness/Cargo.toml depends on /repo/h3 with features [i-implement-a-third-party-backend-and-opt-into-breaking-changes, verif-hooks]",
            "baseline_off_cmd": "cd /repo && cargo test --workspace --no-fail-fast --offline",
            "source_commits": list(reversed(hooks_commits)),
            "add_only": True,
        },
        "engines": [
            {"name": "codec", "path": "harness/src/props (E1)", "serves_properties": ["C02", "C11", "C12", "C15", "C16", "C18"], "kind_free_text": "pure codec functions called directly; proptest over choice tapes, exhaustive loops, libFuzzer targets with the oracle inside"},
            {"name": "simnet", "path": "harness/src/simnet (E2)", "serves_properties": ["C01", "C03", "C04", "C06", "C07", "C08", "C09", "C10", "C12", "C13", "C14", "C19"], "kind_free_text": "real h3 client/server over a deterministic in-memory QUIC transport with a tape-driven scheduler and executor"},
        ],
        "checks": checks,
        "not_applicable": na,
        "notes": "All checks are property-based testing / fuzzing (generated inputs, histories, schedules, faults against explicit oracles). exit 0 held / 1 VIOLATION / 2 inconclusive. See DESIGN.md.",
    }
    json.dump(m, open(os.path.join(ROOT, "MANIFEST.json"), "w"), indent=1)
    print("wrote MANIFEST.json with", len(checks), "checks,", len(na), "not_applicable")

if __name__ == "__main__":
    main()
