//! Application-side building blocks shared by the simnet based properties: error normalisation,
//! message model, observation records, and the documented call patterns of client and server
//! (examples/{client,server}.rs, rustdoc of client::SendRequest / server::Connection).

use std::collections::BTreeMap;

use bytes::{Buf, Bytes};
use h3::error::{ConnectionError, LocalError, StreamError};
use h3::quic::ConnectionErrorIncoming;
use http::{HeaderMap, HeaderName, HeaderValue};
use serde_json::{json, Value};

use super::exec::{shared, Shared, Spawner};
use super::{SimBidi, SimConn, SimOpener, SimRecv, SimSend};

pub type ServerConn = h3::server::Connection<SimConn, Bytes>;
pub type ClientConn = h3::client::Connection<SimConn, Bytes>;
pub type SendReq = h3::client::SendRequest<SimOpener, Bytes>;
pub type ServerStream = h3::server::RequestStream<SimBidi, Bytes>;
pub type ServerSendHalf = h3::server::RequestStream<SimSend, Bytes>;
pub type ServerRecvHalf = h3::server::RequestStream<SimRecv, Bytes>;
pub type ClientStream = h3::client::RequestStream<SimBidi, Bytes>;
pub type ClientSendHalf = h3::client::RequestStream<SimSend, Bytes>;
pub type ClientRecvHalf = h3::client::RequestStream<SimRecv, Bytes>;
pub type Resolver = h3::server::RequestResolver<SimConn, Bytes>;

#[derive(Debug, Clone, PartialEq, Eq)]
pub enum ConnInfo {
    Local { code: u64 },
    LocalClosing,
    RemoteApp { code: u64 },
    RemoteTimeout,
    RemoteInternal,
    RemoteUndefined,
    Timeout,
}

#[derive(Debug, Clone, PartialEq, Eq)]
pub enum ErrInfo {
    Stream { code: u64 },
    RemoteTerminate { code: u64 },
    HeaderTooBig { actual: u64, max: u64 },
    RemoteClosing,
    Undefined,
    Conn(ConnInfo),
}

pub fn conn_info(e: &ConnectionError) -> ConnInfo {
    match e {
        ConnectionError::Local { error } => match error {
            LocalError::Application { code, .. } => ConnInfo::Local { code: code.value() },
            _ => ConnInfo::LocalClosing,
        },
        ConnectionError::Remote(r) => match r {
            ConnectionErrorIncoming::ApplicationClose { error_code } => ConnInfo::RemoteApp { code: *error_code },
            ConnectionErrorIncoming::Timeout => ConnInfo::RemoteTimeout,
            ConnectionErrorIncoming::InternalError(_) => ConnInfo::RemoteInternal,
            ConnectionErrorIncoming::Undefined(_) => ConnInfo::RemoteUndefined,
        },
        ConnectionError::Timeout => ConnInfo::Timeout,
        _ => ConnInfo::RemoteUndefined,
    }
}

pub fn err_info(e: &StreamError) -> ErrInfo {
    match e {
        StreamError::StreamError { code, .. } => ErrInfo::Stream { code: code.value() },
        StreamError::RemoteTerminate { code } => ErrInfo::RemoteTerminate { code: code.value() },
        StreamError::ConnectionError(c) => ErrInfo::Conn(conn_info(c)),
        StreamError::HeaderTooBig { actual_size, max_size } => ErrInfo::HeaderTooBig { actual: *actual_size, max: *max_size },
        StreamError::RemoteClosing => ErrInfo::RemoteClosing,
        StreamError::Undefined(_) => ErrInfo::Undefined,
        _ => ErrInfo::Undefined,
    }
}

impl ErrInfo {
    pub fn is_conn(&self) -> bool {
        matches!(self, ErrInfo::Conn(_))
    }
    pub fn show(&self) -> String {
        format!("{self:?}")
    }
}

pub mod code {
    pub const NO_ERROR: u64 = 0x100;
    pub const GENERAL_PROTOCOL_ERROR: u64 = 0x101;
    pub const INTERNAL_ERROR: u64 = 0x102;
    pub const STREAM_CREATION_ERROR: u64 = 0x103;
    pub const CLOSED_CRITICAL_STREAM: u64 = 0x104;
    pub const FRAME_UNEXPECTED: u64 = 0x105;
    pub const FRAME_ERROR: u64 = 0x106;
    pub const EXCESSIVE_LOAD: u64 = 0x107;
    pub const ID_ERROR: u64 = 0x108;
    pub const SETTINGS_ERROR: u64 = 0x109;
    pub const MISSING_SETTINGS: u64 = 0x10a;
    pub const REQUEST_REJECTED: u64 = 0x10b;
    pub const REQUEST_CANCELLED: u64 = 0x10c;
    pub const REQUEST_INCOMPLETE: u64 = 0x10d;
    pub const MESSAGE_ERROR: u64 = 0x10e;
    pub const CONNECT_ERROR: u64 = 0x10f;
    pub const QPACK_DECOMPRESSION_FAILED: u64 = 0x200;
    pub const DATAGRAM_ERROR: u64 = 0x33;
}

// ------------------------------------------------------------------------------------------------
// message model

pub type FieldList = Vec<(String, Vec<u8>)>;

#[derive(Debug, Clone, Default)]
pub struct Message {
    pub fields: FieldList,
    /// body as the pieces handed to send_data (may contain empty pieces)
    pub pieces: Vec<Vec<u8>>,
    pub trailers: Option<FieldList>,
}

impl Message {
    pub fn body(&self) -> Vec<u8> {
        self.pieces.concat()
    }
}

pub fn header_map(fields: &FieldList) -> HeaderMap {
    let mut m = HeaderMap::new();
    for (n, v) in fields {
        m.append(HeaderName::from_bytes(n.as_bytes()).expect("generator produced a valid name"), HeaderValue::from_bytes(v).expect("generator produced a valid value"));
    }
    m
}

/// per-name value lists in order
pub fn by_name(m: &HeaderMap) -> BTreeMap<String, Vec<Vec<u8>>> {
    let mut out: BTreeMap<String, Vec<Vec<u8>>> = BTreeMap::new();
    for (n, v) in m.iter() {
        out.entry(n.as_str().to_string()).or_default().push(v.as_bytes().to_vec());
    }
    out
}

pub fn by_name_list(f: &FieldList) -> BTreeMap<String, Vec<Vec<u8>>> {
    let mut out: BTreeMap<String, Vec<Vec<u8>>> = BTreeMap::new();
    for (n, v) in f {
        out.entry(n.clone()).or_default().push(v.clone());
    }
    out
}

// ------------------------------------------------------------------------------------------------
// observations

#[derive(Debug, Clone, Default)]
pub struct RecvObs {
    /// request line / status as seen by the receiving application
    pub method: Option<String>,
    pub scheme: Option<String>,
    pub authority: Option<String>,
    pub path: Option<String>,
    pub query: Option<String>,
    pub status: Option<u16>,
    pub protocol: Option<String>,
    pub headers: Option<BTreeMap<String, Vec<Vec<u8>>>>,
    pub body: Vec<u8>,
    /// number of DATA chunks handed out
    pub data_chunks: u32,
    pub saw_end_of_body: bool,
    /// Some(None) = recv_trailers returned Ok(None)
    pub trailers: Option<Option<BTreeMap<String, Vec<Vec<u8>>>>>,
    /// first error: (call, error)
    pub error: Option<(String, ErrInfo)>,
    pub finished: bool,
}

#[derive(Debug, Clone, Default)]
pub struct SendObs {
    pub error: Option<(String, ErrInfo)>,
    pub calls_ok: Vec<String>,
    pub finished: bool,
}

#[derive(Debug, Clone, Default)]
pub struct ExchangeObs {
    pub stream_id: Option<u64>,
    pub recv: RecvObs,
    pub send: SendObs,
}

pub fn obs_json(o: &ExchangeObs) -> Value {
    json!({
        "stream": o.stream_id,
        "recv": {
            "method": o.recv.method, "scheme": o.recv.scheme, "authority": o.recv.authority, "path": o.recv.path, "query": o.recv.query,
            "status": o.recv.status, "protocol": o.recv.protocol, "body_len": o.recv.body.len(), "eob": o.recv.saw_end_of_body,
            "trailers": o.recv.trailers.as_ref().map(|t| t.as_ref().map(|m| m.len())),
            "error": o.recv.error.as_ref().map(|(c, e)| format!("{c}: {e:?}")), "finished": o.recv.finished,
        },
        "send": {"error": o.send.error.as_ref().map(|(c, e)| format!("{c}: {e:?}")), "ok": o.send.calls_ok, "finished": o.send.finished},
    })
}

pub fn record_request(o: &mut RecvObs, req: &http::Request<()>) {
    o.method = Some(req.method().as_str().to_string());
    o.scheme = req.uri().scheme_str().map(|s| s.to_string());
    o.authority = req.uri().authority().map(|a| a.as_str().to_string());
    o.path = Some(req.uri().path().to_string());
    o.query = req.uri().query().map(|q| q.to_string());
    o.protocol = req.extensions().get::<h3::ext::Protocol>().map(|p| p.as_str().to_string());
    o.headers = Some(by_name(req.headers()));
}

pub fn record_response(o: &mut RecvObs, resp: &http::Response<()>) {
    o.status = Some(resp.status().as_u16());
    o.headers = Some(by_name(resp.headers()));
}

// ------------------------------------------------------------------------------------------------
// the documented receive pattern: read until None, then trailers; stop at the first error

pub async fn server_recv_rest(s: &mut ServerStream, o: &Shared<ExchangeObs>) -> bool {
    loop {
        match s.recv_data().await {
            Ok(Some(mut b)) => {
                let mut g = o.borrow_mut();
                g.recv.data_chunks += 1;
                while b.has_remaining() {
                    let c = b.chunk().to_vec();
                    b.advance(c.len());
                    g.recv.body.extend_from_slice(&c);
                }
            }
            Ok(None) => {
                o.borrow_mut().recv.saw_end_of_body = true;
                break;
            }
            Err(e) => {
                o.borrow_mut().recv.error = Some(("recv_data".into(), err_info(&e)));
                return false;
            }
        }
    }
    match s.recv_trailers().await {
        Ok(t) => {
            let mut g = o.borrow_mut();
            g.recv.trailers = Some(t.map(|m| by_name(&m)));
            g.recv.finished = true;
            true
        }
        Err(e) => {
            o.borrow_mut().recv.error = Some(("recv_trailers".into(), err_info(&e)));
            false
        }
    }
}

macro_rules! recv_rest_impl {
    ($name:ident, $ty:ty) => {
        pub async fn $name(s: &mut $ty, o: &Shared<ExchangeObs>) -> bool {
            loop {
                match s.recv_data().await {
                    Ok(Some(mut b)) => {
                        let mut g = o.borrow_mut();
                        g.recv.data_chunks += 1;
                        while b.has_remaining() {
                            let c = b.chunk().to_vec();
                            b.advance(c.len());
                            g.recv.body.extend_from_slice(&c);
                        }
                    }
                    Ok(None) => {
                        o.borrow_mut().recv.saw_end_of_body = true;
                        break;
                    }
                    Err(e) => {
                        o.borrow_mut().recv.error = Some(("recv_data".into(), err_info(&e)));
                        return false;
                    }
                }
            }
            match s.recv_trailers().await {
                Ok(t) => {
                    let mut g = o.borrow_mut();
                    g.recv.trailers = Some(t.map(|m| by_name(&m)));
                    g.recv.finished = true;
                    true
                }
                Err(e) => {
                    o.borrow_mut().recv.error = Some(("recv_trailers".into(), err_info(&e)));
                    false
                }
            }
        }
    };
}

recv_rest_impl!(server_half_recv_rest, ServerRecvHalf);
recv_rest_impl!(client_recv_rest, ClientStream);
recv_rest_impl!(client_half_recv_rest, ClientRecvHalf);

/// only the body (until None) / only the trailers: for applications that split the stream between the two
macro_rules! recv_body_impl {
    ($name:ident, $ty:ty) => {
        pub async fn $name(s: &mut $ty, o: &Shared<ExchangeObs>) -> bool {
            loop {
                match s.recv_data().await {
                    Ok(Some(mut b)) => {
                        let mut g = o.borrow_mut();
                        g.recv.data_chunks += 1;
                        while b.has_remaining() {
                            let c = b.chunk().to_vec();
                            b.advance(c.len());
                            g.recv.body.extend_from_slice(&c);
                        }
                    }
                    Ok(None) => {
                        o.borrow_mut().recv.saw_end_of_body = true;
                        return true;
                    }
                    Err(e) => {
                        o.borrow_mut().recv.error = Some(("recv_data".into(), err_info(&e)));
                        return false;
                    }
                }
            }
        }
    };
}

macro_rules! recv_trailers_impl {
    ($name:ident, $ty:ty) => {
        pub async fn $name(s: &mut $ty, o: &Shared<ExchangeObs>) -> bool {
            match s.recv_trailers().await {
                Ok(t) => {
                    let mut g = o.borrow_mut();
                    g.recv.trailers = Some(t.map(|m| by_name(&m)));
                    g.recv.finished = true;
                    true
                }
                Err(e) => {
                    o.borrow_mut().recv.error = Some(("recv_trailers".into(), err_info(&e)));
                    false
                }
            }
        }
    };
}

recv_body_impl!(server_recv_body, ServerStream);
recv_body_impl!(client_recv_body, ClientStream);
recv_trailers_impl!(server_half_recv_trailers, ServerRecvHalf);
recv_trailers_impl!(client_half_recv_trailers, ClientRecvHalf);

macro_rules! send_rest_impl {
    ($name:ident, $ty:ty) => {
        /// send_data for every piece, optional trailers, finish
        pub async fn $name(s: &mut $ty, msg: &Message, o: &Shared<ExchangeObs>) -> bool {
            for (i, p) in msg.pieces.iter().enumerate() {
                match s.send_data(Bytes::from(p.clone())).await {
                    Ok(()) => o.borrow_mut().send.calls_ok.push(format!("send_data[{i}]")),
                    Err(e) => {
                        o.borrow_mut().send.error = Some((format!("send_data[{i}]"), err_info(&e)));
                        return false;
                    }
                }
            }
            if let Some(t) = &msg.trailers {
                match s.send_trailers(header_map(t)).await {
                    Ok(()) => o.borrow_mut().send.calls_ok.push("send_trailers".into()),
                    Err(e) => {
                        o.borrow_mut().send.error = Some(("send_trailers".into(), err_info(&e)));
                        return false;
                    }
                }
            }
            match s.finish().await {
                Ok(()) => {
                    let mut g = o.borrow_mut();
                    g.send.calls_ok.push("finish".into());
                    g.send.finished = true;
                    true
                }
                Err(e) => {
                    o.borrow_mut().send.error = Some(("finish".into(), err_info(&e)));
                    false
                }
            }
        }
    };
}

send_rest_impl!(server_send_rest, ServerStream);
send_rest_impl!(server_half_send_rest, ServerSendHalf);
send_rest_impl!(client_send_rest, ClientStream);
send_rest_impl!(client_half_send_rest, ClientSendHalf);

// ------------------------------------------------------------------------------------------------
// driver results

#[derive(Debug, Clone, Default)]
pub struct DriverObs {
    /// accept() results in order: Some(id) / None / error
    pub accepts: Vec<Result<Option<u64>, ConnInfo>>,
    /// client: poll_close result
    pub closed: Option<ConnInfo>,
    pub build_error: Option<ConnInfo>,
    pub built: bool,
}

pub fn new_obs() -> Shared<ExchangeObs> {
    shared(ExchangeObs::default())
}

/// Client driver task: polls the connection until it ends.
pub async fn client_driver(mut conn: ClientConn, d: Shared<DriverObs>) {
    let e = std::future::poll_fn(|cx| conn.poll_close(cx)).await;
    d.borrow_mut().closed = Some(conn_info(&e));
}

pub fn hexs(b: &[u8]) -> String {
    crate::runner::hex(b)
}

pub fn _unused(_: &Spawner) {}
