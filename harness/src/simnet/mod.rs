//! Deterministic in-memory QUIC transport implementing the `h3::quic` traits (and the
//! `h3_datagram` extension traits). Nothing happens spontaneously: every state change is a
//! network `Move` chosen by the scheduler, or a direct action of the raw peer / the h3 end.
//!
//! Behaviour follows Quinn 0.11 where QUIC stacks differ (see DESIGN.md 2.4).

pub mod app;
pub mod exec;
pub mod peer;
pub mod wire;

use std::collections::{BTreeMap, VecDeque};
use std::sync::{Arc, Mutex, MutexGuard};
use std::task::{Context, Poll, Waker};

use bytes::{Buf, Bytes};
use h3::error::Code;
use h3::quic::{self, ConnectionErrorIncoming, StreamErrorIncoming, StreamId, WriteBuf};

#[derive(Copy, Clone, Debug, PartialEq, Eq, PartialOrd, Ord, Hash)]
pub enum Side {
    Client = 0,
    Server = 1,
}

impl Side {
    pub fn other(self) -> Side {
        match self {
            Side::Client => Side::Server,
            Side::Server => Side::Client,
        }
    }
    pub fn idx(self) -> usize {
        self as usize
    }
}

#[derive(Copy, Clone, Debug, PartialEq, Eq, PartialOrd, Ord, Hash)]
pub enum Dir {
    Bidi = 0,
    Uni = 1,
}

pub fn stream_id(initiator: Side, dir: Dir, index: u64) -> u64 {
    index << 2 | (dir as u64) << 1 | initiator as u64
}
pub fn initiator_of(id: u64) -> Side {
    if id & 1 == 0 {
        Side::Client
    } else {
        Side::Server
    }
}
pub fn dir_of(id: u64) -> Dir {
    if id & 2 == 0 {
        Dir::Bidi
    } else {
        Dir::Uni
    }
}

pub const UNLIMITED: u64 = u64::MAX;

#[derive(Debug)]
pub struct SimError(pub &'static str);
impl std::fmt::Display for SimError {
    fn fmt(&self, f: &mut std::fmt::Formatter<'_>) -> std::fmt::Result {
        write!(f, "sim: {}", self.0)
    }
}
impl std::error::Error for SimError {}

/// One direction of one stream.
#[derive(Default)]
pub struct Pipe {
    /// complete log of bytes the writer handed to the transport
    pub written: Vec<u8>,
    /// how many of them have been delivered to the reader's queue
    pub delivered: usize,
    pub rx: VecDeque<Bytes>,
    pub read_total: usize,
    pub fin_issued: bool,
    pub fin_delivered: bool,
    /// reads of this pipe fail with ConnectionErrorIncoming::InternalError(msg) (an error inside the transport glue)
    pub inject_internal: Option<String>,
    pub reset: Option<u64>,
    pub reset_delivered: bool,
    pub reset_reported: bool,
    pub stop: Option<u64>,
    pub stop_delivered: bool,
    /// data writes by the h3 end that were refused with StreamTerminated because of the peer's STOP_SENDING
    pub stop_refusals: u32,
    /// bytes the writer may still hand over
    pub credit: u64,
    pub writer_blocked: bool,
    pub reader_waker: Option<Waker>,
    pub writer_waker: Option<Waker>,
    /// the reader is the raw peer: nothing is queued, the log is the observation
    pub sink: bool,
    pub reader_dropped: bool,
    pub writer_dropped: bool,
    /// sizes of the chunks delivered (classification)
    pub chunk_sizes: Vec<u32>,
    /// sizes accepted from the writer per poll_ready/poll_send call (classification)
    pub accept_sizes: Vec<u32>,
    /// number of times the writer was told Pending
    pub write_pendings: u32,
    /// explicit finish()/reset() by the writer handle vs. implicit on drop
    pub fin_by_drop: bool,
    /// end of stream seen by reader (None returned)
    pub eos_reported: bool,
}

impl Pipe {
    pub fn undelivered(&self) -> usize {
        self.written.len() - self.delivered
    }
    fn wake_reader(&mut self) {
        if let Some(w) = self.reader_waker.take() {
            w.wake();
        }
    }
    fn wake_writer(&mut self) {
        if let Some(w) = self.writer_waker.take() {
            w.wake();
        }
    }
}

#[derive(Debug, Clone, PartialEq, Eq)]
pub struct CloseRecord {
    pub code: u64,
    pub reason: Vec<u8>,
    pub step: u64,
}

#[derive(Default)]
pub struct EndState {
    pub next_index: [u64; 2],
    /// how many more streams this end may open, per direction
    pub stream_credit: [u64; 2],
    pub open_blocked: [bool; 2],
    /// the peer never grants this end more streams than it started with (a legal peer: RFC 9114 6.2 only asks for three
    /// unidirectional streams); no GrantStream move is ever enabled
    pub grants_frozen: bool,
    /// streams waiting to be accepted are handed out newest first (the h3::quic traits do not promise stream-id order;
    /// quinn happens to keep it, transports that surface a stream on its first data do not)
    pub accept_newest_first: bool,
    pub open_wakers: [Vec<Waker>; 2],
    /// streams announced by the peer and not yet accepted, in id order
    pub accept_q: [VecDeque<u64>; 2],
    /// next peer stream index that has not been announced yet
    pub next_announce: [u64; 2],
    pub accept_wakers: [Option<Waker>; 2],
    /// this end is driven by the harness directly
    pub raw: bool,
    /// `close` calls made by this end (h3: OpenStreams::close)
    pub close_calls: Vec<CloseRecord>,
    /// the peer's close has arrived here
    pub peer_close: Option<u64>,
    pub timed_out: bool,
    pub datagram_rx: VecDeque<Bytes>,
    pub datagram_waker: Option<Waker>,
    pub datagrams_sent: Vec<Vec<u8>>,
    pub datagram_inflight: VecDeque<Bytes>,
    pub datagrams_enabled: bool,
    pub max_datagram: usize,
}

impl EndState {
    pub fn locally_closed(&self) -> bool {
        !self.close_calls.is_empty()
    }
    pub fn dead(&self) -> bool {
        self.locally_closed() || self.peer_close.is_some() || self.timed_out
    }
    fn conn_error(&self) -> Option<ConnectionErrorIncoming> {
        if self.locally_closed() {
            Some(ConnectionErrorIncoming::Undefined(Arc::new(SimError("connection closed locally"))))
        } else if let Some(code) = self.peer_close {
            Some(ConnectionErrorIncoming::ApplicationClose { error_code: code })
        } else if self.timed_out {
            Some(ConnectionErrorIncoming::Timeout)
        } else {
            None
        }
    }
}

#[derive(Debug, Clone, PartialEq, Eq)]
pub enum NetEvent {
    /// h3 (or raw) end called stop_sending on a stream it reads
    Stop { side: Side, stream: u64, code: u64 },
    Reset { side: Side, stream: u64, code: u64 },
    Close { side: Side, code: u64 },
    Finish { side: Side, stream: u64 },
    Open { side: Side, stream: u64 },
    Accept { side: Side, stream: u64 },
}

pub struct NetInner {
    /// (stream id, writer side) -> pipe
    pub pipes: BTreeMap<(u64, Side), Pipe>,
    pub ends: [EndState; 2],
    pub events: Vec<(u64, NetEvent)>,
    pub step: u64,
    /// transport calls made since the executor last started to poll a task (livelock detector)
    pub calls_this_poll: u64,
    /// quinn reports a peer's reset exactly once: the read after it sees the end of the stream (`all_data_read`)
    pub reset_once: bool,
    /// default send credit for pipes whose writer is `side`
    pub default_credit: [u64; 2],
    /// a close issued by `side` not yet delivered to the other end
    pub close_inflight: [Option<u64>; 2],
    /// internal consistency violations of the sim itself (reported as harness fault)
    pub faults: Vec<String>,
}

#[derive(Clone)]
pub struct Net(pub Arc<Mutex<NetInner>>);

#[derive(Clone, Debug, PartialEq, Eq)]
pub enum Move {
    /// deliver undelivered bytes of a pipe (size chosen by the scheduler)
    Deliver { stream: u64, writer: Side },
    DeliverFin { stream: u64, writer: Side },
    DeliverReset { stream: u64, writer: Side },
    /// STOP_SENDING issued by the reader reaches the writer
    DeliverStop { stream: u64, writer: Side },
    GrantSend { stream: u64, writer: Side },
    GrantStream { side: Side, dir: Dir },
    DeliverClose { to: Side },
    DeliverDatagram { to: Side },
}

impl Net {
    pub fn new() -> Net {
        let mut ends: [EndState; 2] = Default::default();
        for e in ends.iter_mut() {
            e.stream_credit = [UNLIMITED, UNLIMITED];
            e.max_datagram = 1200;
        }
        Net(Arc::new(Mutex::new(NetInner {
            pipes: BTreeMap::new(),
            ends,
            events: Vec::new(),
            step: 0,
            default_credit: [UNLIMITED, UNLIMITED],
            close_inflight: [None, None],
            faults: Vec::new(),
            calls_this_poll: 0,
            reset_once: false,
        })))
    }

    pub fn lock(&self) -> MutexGuard<'_, NetInner> {
        self.0.lock().unwrap_or_else(|e| e.into_inner())
    }

    /// the executor is about to poll a task
    pub fn begin_task_poll(&self) {
        self.lock().calls_this_poll = 0;
    }

    /// Every transport entry point counts itself. A single poll of an h3 future that calls the transport a million times
    /// without returning is spinning (every call here returns at once): the panic ends that poll and is reported as a
    /// finding of the polled task ("LIVELOCK"), not as a fault of the harness.
    pub fn tick(&self, what: &str) {
        let n = {
            let mut g = self.lock();
            g.calls_this_poll += 1;
            g.calls_this_poll
        };
        if n > 1_000_000 {
            self.lock().calls_this_poll = 0;
            panic!("LIVELOCK: one poll called the transport more than 1000000 times without returning (last call: {what})");
        }
    }

    pub fn conn(&self, side: Side) -> SimConn {
        SimConn { net: self.clone(), side }
    }

    // ---------------------------------------------------------------------------------------
    // raw peer API (the end `side` is driven by the harness)

    pub fn set_raw(&self, side: Side) {
        self.lock().ends[side.idx()].raw = true;
    }

    /// open the next stream of `dir` initiated by `side`; ignores stream credit (the raw peer owns its own limits)
    pub fn raw_open(&self, side: Side, dir: Dir) -> u64 {
        let mut g = self.lock();
        g.open_stream(side, dir)
    }

    pub fn raw_write(&self, side: Side, stream: u64, data: &[u8]) {
        let mut g = self.lock();
        if let Some(p) = g.pipes.get_mut(&(stream, side)) {
            if p.fin_issued || p.reset.is_some() {
                return;
            }
            p.written.extend_from_slice(data);
        }
    }

    pub fn raw_fin(&self, side: Side, stream: u64) {
        let mut g = self.lock();
        if let Some(p) = g.pipes.get_mut(&(stream, side)) {
            if p.reset.is_none() {
                p.fin_issued = true;
            }
        }
    }

    pub fn raw_reset(&self, side: Side, stream: u64, code: u64) {
        let mut g = self.lock();
        g.do_reset(side, stream, code);
    }

    pub fn raw_stop(&self, side: Side, stream: u64, code: u64) {
        let mut g = self.lock();
        g.do_stop(side, stream, code);
    }

    pub fn raw_close(&self, side: Side, code: u64) {
        let mut g = self.lock();
        g.do_close(side, code, b"");
    }

    pub fn raw_datagram(&self, side: Side, data: &[u8]) {
        let mut g = self.lock();
        g.ends[side.idx()].datagrams_sent.push(data.to_vec());
        g.ends[side.other().idx()].datagram_inflight.push_back(Bytes::copy_from_slice(data));
    }

    /// idle timeout observed by `side`
    pub fn timeout(&self, side: Side) {
        let mut g = self.lock();
        g.ends[side.idx()].timed_out = true;
        g.wake_everything(side);
    }

    /// bytes `writer` has written on `stream` so far
    pub fn written(&self, stream: u64, writer: Side) -> Vec<u8> {
        self.lock().pipes.get(&(stream, writer)).map(|p| p.written.clone()).unwrap_or_default()
    }

    pub fn close_calls(&self, side: Side) -> Vec<CloseRecord> {
        self.lock().ends[side.idx()].close_calls.clone()
    }

    pub fn streams_written_by(&self, writer: Side) -> Vec<u64> {
        self.lock().pipes.keys().filter(|(_, w)| *w == writer).map(|(s, _)| *s).collect()
    }

    // ---------------------------------------------------------------------------------------
    // scheduler interface

    pub fn enabled_moves(&self, out: &mut Vec<Move>) {
        let g = self.lock();
        for ((stream, writer), p) in g.pipes.iter() {
            let reader = writer.other();
            let rend = &g.ends[reader.idx()];
            if !p.sink && !rend.dead() {
                // Delivery to an end that is dead is pointless (quinn drops everything once closed)
                if p.reset.is_some() && !p.reset_delivered {
                    out.push(Move::DeliverReset { stream: *stream, writer: *writer });
                }
                if p.reset.is_none() || !p.reset_delivered {
                    if p.undelivered() > 0 && p.reset.is_none() {
                        out.push(Move::Deliver { stream: *stream, writer: *writer });
                    } else if p.fin_issued && !p.fin_delivered && p.reset.is_none() && p.undelivered() == 0 {
                        out.push(Move::DeliverFin { stream: *stream, writer: *writer });
                    }
                }
            }
            let wend = &g.ends[writer.idx()];
            if p.stop.is_some() && !p.stop_delivered && !wend.raw && !wend.dead() {
                out.push(Move::DeliverStop { stream: *stream, writer: *writer });
            }
            if p.writer_blocked && p.credit == 0 && !wend.dead() {
                out.push(Move::GrantSend { stream: *stream, writer: *writer });
            }
        }
        for side in [Side::Client, Side::Server] {
            let e = &g.ends[side.idx()];
            for dir in [Dir::Bidi, Dir::Uni] {
                if e.open_blocked[dir as usize] && e.stream_credit[dir as usize] == 0 && !e.dead() && !e.grants_frozen {
                    out.push(Move::GrantStream { side, dir });
                }
            }
            if g.close_inflight[side.other().idx()].is_some() && e.peer_close.is_none() && !e.raw {
                out.push(Move::DeliverClose { to: side });
            }
            if !e.datagram_inflight.is_empty() && !e.dead() && !e.raw {
                out.push(Move::DeliverDatagram { to: side });
            }
        }
    }

    /// number of bytes a Deliver move could deliver
    pub fn deliverable(&self, stream: u64, writer: Side) -> usize {
        self.lock().pipes.get(&(stream, writer)).map(|p| p.undelivered()).unwrap_or(0)
    }

    /// perform a move; `n` is the size for Deliver / GrantSend
    pub fn perform(&self, m: &Move, n: u64) {
        let mut g = self.lock();
        g.step += 1;
        match m {
            Move::Deliver { stream, writer } => {
                g.announce(*stream, *writer);
                let p = g.pipes.get_mut(&(*stream, *writer)).unwrap();
                let n = (n as usize).clamp(1, p.undelivered());
                if p.reader_dropped {
                    // data for a dropped receiver is discarded
                    p.delivered += n;
                } else {
                    let chunk = Bytes::copy_from_slice(&p.written[p.delivered..p.delivered + n]);
                    p.delivered += n;
                    p.chunk_sizes.push(n as u32);
                    p.rx.push_back(chunk);
                    p.wake_reader();
                }
            }
            Move::DeliverFin { stream, writer } => {
                g.announce(*stream, *writer);
                let p = g.pipes.get_mut(&(*stream, *writer)).unwrap();
                p.fin_delivered = true;
                p.wake_reader();
            }
            Move::DeliverReset { stream, writer } => {
                g.announce(*stream, *writer);
                let p = g.pipes.get_mut(&(*stream, *writer)).unwrap();
                p.reset_delivered = true;
                // like quinn: a reset discards data that was not read yet
                p.rx.clear();
                p.delivered = p.written.len();
                p.wake_reader();
            }
            Move::DeliverStop { stream, writer } => {
                let p = g.pipes.get_mut(&(*stream, *writer)).unwrap();
                p.stop_delivered = true;
                p.wake_writer();
            }
            Move::GrantSend { stream, writer } => {
                let p = g.pipes.get_mut(&(*stream, *writer)).unwrap();
                p.credit = p.credit.saturating_add(n.max(1));
                p.wake_writer();
            }
            Move::GrantStream { side, dir } => {
                let e = &mut g.ends[side.idx()];
                e.stream_credit[*dir as usize] = e.stream_credit[*dir as usize].saturating_add(n.max(1));
                for w in e.open_wakers[*dir as usize].drain(..) {
                    w.wake();
                }
            }
            Move::DeliverClose { to } => {
                let code = g.close_inflight[to.other().idx()].unwrap();
                g.ends[to.idx()].peer_close = Some(code);
                g.wake_everything(*to);
            }
            Move::DeliverDatagram { to } => {
                let e = &mut g.ends[to.idx()];
                if let Some(d) = e.datagram_inflight.pop_front() {
                    e.datagram_rx.push_back(d);
                    if let Some(w) = e.datagram_waker.take() {
                        w.wake();
                    }
                }
            }
        }
    }
}

impl NetInner {
    fn open_stream(&mut self, side: Side, dir: Dir) -> u64 {
        let e = &mut self.ends[side.idx()];
        let idx = e.next_index[dir as usize];
        e.next_index[dir as usize] += 1;
        let id = stream_id(side, dir, idx);
        let raw_peer = self.ends[side.other().idx()].raw;
        let raw_self = self.ends[side.idx()].raw;
        let mut out = Pipe { credit: self.default_credit[side.idx()], sink: raw_peer, ..Default::default() };
        if raw_self {
            out.credit = UNLIMITED;
        }
        self.pipes.insert((id, side), out);
        if dir == Dir::Bidi {
            let mut back = Pipe { credit: self.default_credit[side.other().idx()], sink: raw_self, ..Default::default() };
            if raw_peer {
                back.credit = UNLIMITED;
            }
            self.pipes.insert((id, side.other()), back);
        }
        let step = self.step;
        self.events.push((step, NetEvent::Open { side, stream: id }));
        id
    }

    /// the peer of `writer` learns about `stream` (and, as QUIC implies, about all lower numbered
    /// streams of the same kind)
    fn announce(&mut self, stream: u64, writer: Side) {
        let init = initiator_of(stream);
        if init != writer {
            // data flowing back on a stream the reader opened itself: nothing to announce
            return;
        }
        let dir = dir_of(stream);
        let reader = writer.other();
        let idx = stream >> 2;
        let e = &mut self.ends[reader.idx()];
        while e.next_announce[dir as usize] <= idx {
            let id = stream_id(init, dir, e.next_announce[dir as usize]);
            e.next_announce[dir as usize] += 1;
            e.accept_q[dir as usize].push_back(id);
        }
        if let Some(w) = e.accept_wakers[dir as usize].take() {
            w.wake();
        }
    }

    fn do_reset(&mut self, side: Side, stream: u64, code: u64) {
        let step = self.step;
        if let Some(p) = self.pipes.get_mut(&(stream, side)) {
            if p.reset.is_some() || (p.fin_issued && p.fin_delivered) {
                return;
            }
            p.reset = Some(code);
            self.events.push((step, NetEvent::Reset { side, stream, code }));
        }
    }

    fn do_stop(&mut self, side: Side, stream: u64, code: u64) {
        let step = self.step;
        // `side` is the reader of the pipe written by the other side
        if let Some(p) = self.pipes.get_mut(&(stream, side.other())) {
            if p.stop.is_some() {
                return;
            }
            p.stop = Some(code);
            self.events.push((step, NetEvent::Stop { side, stream, code }));
        }
    }

    fn do_close(&mut self, side: Side, code: u64, reason: &[u8]) {
        let step = self.step;
        let e = &mut self.ends[side.idx()];
        let first = e.close_calls.is_empty();
        e.close_calls.push(CloseRecord { code, reason: reason.to_vec(), step });
        self.events.push((step, NetEvent::Close { side, code }));
        if first && e.peer_close.is_none() {
            self.close_inflight[side.idx()] = Some(code);
        }
        self.wake_everything(side);
    }

    fn wake_everything(&mut self, side: Side) {
        for ((_, writer), p) in self.pipes.iter_mut() {
            if *writer == side {
                p.wake_writer();
            } else {
                p.wake_reader();
            }
        }
        let e = &mut self.ends[side.idx()];
        for d in 0..2 {
            if let Some(w) = e.accept_wakers[d].take() {
                w.wake();
            }
            for w in e.open_wakers[d].drain(..) {
                w.wake();
            }
        }
        if let Some(w) = e.datagram_waker.take() {
            w.wake();
        }
    }
}

// ------------------------------------------------------------------------------------------------
// h3-facing handles

pub struct SimConn {
    pub net: Net,
    pub side: Side,
}

#[derive(Clone)]
pub struct SimOpener {
    pub net: Net,
    pub side: Side,
}

pub struct SimSend {
    net: Net,
    side: Side,
    id: u64,
    writing: Option<WriteBuf<Bytes>>,
}

pub struct SimRecv {
    net: Net,
    side: Side,
    id: u64,
}

pub struct SimBidi {
    send: SimSend,
    recv: SimRecv,
}

fn conn_err_stream(e: ConnectionErrorIncoming) -> StreamErrorIncoming {
    StreamErrorIncoming::ConnectionErrorIncoming { connection_error: e }
}

fn poll_open(net: &Net, side: Side, dir: Dir, cx: &mut Context<'_>) -> Poll<Result<u64, StreamErrorIncoming>> {
    net.tick("poll_open");
    let mut g = net.lock();
    if let Some(e) = g.ends[side.idx()].conn_error() {
        return Poll::Ready(Err(conn_err_stream(e)));
    }
    let e = &mut g.ends[side.idx()];
    if e.stream_credit[dir as usize] == 0 {
        e.open_blocked[dir as usize] = true;
        e.open_wakers[dir as usize].push(cx.waker().clone());
        return Poll::Pending;
    }
    if e.stream_credit[dir as usize] != UNLIMITED {
        e.stream_credit[dir as usize] -= 1;
    }
    e.open_blocked[dir as usize] = false;
    Poll::Ready(Ok(g.open_stream(side, dir)))
}

fn poll_accept(net: &Net, side: Side, dir: Dir, cx: &mut Context<'_>) -> Poll<Result<u64, ConnectionErrorIncoming>> {
    net.tick("poll_accept");
    let mut g = net.lock();
    // streams that were announced before the connection died stay acceptable (quinn does the same)
    let newest = g.ends[side.idx()].accept_newest_first;
    let q = &mut g.ends[side.idx()].accept_q[dir as usize];
    if let Some(id) = if newest { q.pop_back() } else { q.pop_front() } {
        let step = g.step;
        g.events.push((step, NetEvent::Accept { side, stream: id }));
        return Poll::Ready(Ok(id));
    }
    if let Some(e) = g.ends[side.idx()].conn_error() {
        return Poll::Ready(Err(e));
    }
    g.ends[side.idx()].accept_wakers[dir as usize] = Some(cx.waker().clone());
    Poll::Pending
}

impl quic::OpenStreams<Bytes> for SimConn {
    type BidiStream = SimBidi;
    type SendStream = SimSend;
    fn poll_open_bidi(&mut self, cx: &mut Context<'_>) -> Poll<Result<SimBidi, StreamErrorIncoming>> {
        poll_open(&self.net, self.side, Dir::Bidi, cx).map(|r| r.map(|id| SimBidi::new(&self.net, self.side, id)))
    }
    fn poll_open_send(&mut self, cx: &mut Context<'_>) -> Poll<Result<SimSend, StreamErrorIncoming>> {
        poll_open(&self.net, self.side, Dir::Uni, cx).map(|r| r.map(|id| SimSend::new(&self.net, self.side, id)))
    }
    fn close(&mut self, code: Code, reason: &[u8]) {
        self.net.lock().do_close(self.side, code.value(), reason);
    }
}

impl quic::OpenStreams<Bytes> for SimOpener {
    type BidiStream = SimBidi;
    type SendStream = SimSend;
    fn poll_open_bidi(&mut self, cx: &mut Context<'_>) -> Poll<Result<SimBidi, StreamErrorIncoming>> {
        poll_open(&self.net, self.side, Dir::Bidi, cx).map(|r| r.map(|id| SimBidi::new(&self.net, self.side, id)))
    }
    fn poll_open_send(&mut self, cx: &mut Context<'_>) -> Poll<Result<SimSend, StreamErrorIncoming>> {
        poll_open(&self.net, self.side, Dir::Uni, cx).map(|r| r.map(|id| SimSend::new(&self.net, self.side, id)))
    }
    fn close(&mut self, code: Code, reason: &[u8]) {
        self.net.lock().do_close(self.side, code.value(), reason);
    }
}

impl quic::Connection<Bytes> for SimConn {
    type RecvStream = SimRecv;
    type OpenStreams = SimOpener;
    fn poll_accept_recv(&mut self, cx: &mut Context<'_>) -> Poll<Result<SimRecv, ConnectionErrorIncoming>> {
        poll_accept(&self.net, self.side, Dir::Uni, cx).map(|r| r.map(|id| SimRecv::new(&self.net, self.side, id)))
    }
    fn poll_accept_bidi(&mut self, cx: &mut Context<'_>) -> Poll<Result<SimBidi, ConnectionErrorIncoming>> {
        poll_accept(&self.net, self.side, Dir::Bidi, cx).map(|r| r.map(|id| SimBidi::new(&self.net, self.side, id)))
    }
    fn opener(&self) -> SimOpener {
        SimOpener { net: self.net.clone(), side: self.side }
    }
}

impl SimBidi {
    fn new(net: &Net, side: Side, id: u64) -> Self {
        SimBidi { send: SimSend::new(net, side, id), recv: SimRecv::new(net, side, id) }
    }
}

impl SimSend {
    fn new(net: &Net, side: Side, id: u64) -> Self {
        SimSend { net: net.clone(), side, id, writing: None }
    }

    /// common write path: move up to credit bytes out of `buf`
    fn write_some<D: Buf>(&mut self, cx: &mut Context<'_>, buf: &mut D) -> Poll<Result<usize, StreamErrorIncoming>> {
        self.net.tick("write");
        let mut g = self.net.lock();
        if let Some(e) = g.ends[self.side.idx()].conn_error() {
            return Poll::Ready(Err(conn_err_stream(e)));
        }
        let p = g.pipes.get_mut(&(self.id, self.side)).expect("pipe");
        if p.stop_delivered {
            p.stop_refusals += 1;
            return Poll::Ready(Err(StreamErrorIncoming::StreamTerminated { error_code: p.stop.unwrap() }));
        }
        if p.fin_issued || p.reset.is_some() {
            return Poll::Ready(Err(StreamErrorIncoming::Unknown(Box::new(SimError("write on a finished or reset stream")))));
        }
        if !buf.has_remaining() {
            return Poll::Ready(Ok(0));
        }
        if p.credit == 0 {
            p.writer_blocked = true;
            p.write_pendings += 1;
            p.writer_waker = Some(cx.waker().clone());
            return Poll::Pending;
        }
        p.writer_blocked = false;
        // like quinn's poll_write: take a prefix of the first chunk only
        let chunk = buf.chunk();
        let n = (chunk.len() as u64).min(p.credit) as usize;
        if n == 0 {
            g.faults.push("Buf::chunk() empty although has_remaining()".into());
            return Poll::Ready(Err(StreamErrorIncoming::Unknown(Box::new(SimError("empty chunk")))));
        }
        p.written.extend_from_slice(&chunk[..n]);
        p.accept_sizes.push(n as u32);
        if p.credit != UNLIMITED {
            p.credit -= n as u64;
        }
        buf.advance(n);
        Poll::Ready(Ok(n))
    }
}

impl quic::SendStream<Bytes> for SimSend {
    fn poll_ready(&mut self, cx: &mut Context<'_>) -> Poll<Result<(), StreamErrorIncoming>> {
        if let Some(mut data) = self.writing.take() {
            while data.has_remaining() {
                match self.write_some(cx, &mut data) {
                    Poll::Ready(Ok(_)) => {}
                    Poll::Ready(Err(e)) => {
                        // like h3-quinn (since the D21 repair): the buffer of a failed write is dropped
                        return Poll::Ready(Err(e));
                    }
                    Poll::Pending => {
                        self.writing = Some(data);
                        return Poll::Pending;
                    }
                }
            }
        }
        Poll::Ready(Ok(()))
    }

    fn send_data<T: Into<WriteBuf<Bytes>>>(&mut self, data: T) -> Result<(), StreamErrorIncoming> {
        if self.writing.is_some() {
            return Err(conn_err_stream(ConnectionErrorIncoming::InternalError("send_data called while send stream is not ready".to_string())));
        }
        self.writing = Some(data.into());
        Ok(())
    }

    fn poll_finish(&mut self, _cx: &mut Context<'_>) -> Poll<Result<(), StreamErrorIncoming>> {
        self.net.tick("poll_finish");
        let mut g = self.net.lock();
        if let Some(e) = g.ends[self.side.idx()].conn_error() {
            // quinn: finish() on a lost connection is ClosedStream/ConnectionLost
            let _ = e;
            return Poll::Ready(Err(StreamErrorIncoming::Unknown(Box::new(SimError("finish: connection lost")))));
        }
        let step = g.step;
        let p = g.pipes.get_mut(&(self.id, self.side)).expect("pipe");
        if p.stop_delivered {
            // quinn 0.11 SendStream::finish: "Err(FinishError::Stopped(_)) => Ok(())" - harmless, no FIN goes out
            return Poll::Ready(Ok(()));
        }
        if p.fin_issued || p.reset.is_some() {
            return Poll::Ready(Err(StreamErrorIncoming::Unknown(Box::new(SimError("finish: closed stream")))));
        }
        p.fin_issued = true;
        g.events.push((step, NetEvent::Finish { side: self.side, stream: self.id }));
        Poll::Ready(Ok(()))
    }

    fn reset(&mut self, reset_code: u64) {
        self.net.lock().do_reset(self.side, self.id, reset_code);
    }

    fn send_id(&self) -> StreamId {
        StreamId::try_from(self.id).unwrap()
    }
}

impl quic::SendStreamUnframed<Bytes> for SimSend {
    fn poll_send<D: Buf>(&mut self, cx: &mut Context<'_>, buf: &mut D) -> Poll<Result<usize, StreamErrorIncoming>> {
        if self.writing.is_some() {
            panic!("poll_send called while send stream is not ready");
        }
        self.write_some(cx, buf)
    }
}

impl Drop for SimSend {
    fn drop(&mut self) {
        // quinn: dropping a SendStream finishes it (or resets it with the stop code when stopped)
        let mut g = self.net.lock();
        if g.ends[self.side.idx()].dead() {
            return;
        }
        if let Some(p) = g.pipes.get_mut(&(self.id, self.side)) {
            p.writer_dropped = true;
            if !p.fin_issued && p.reset.is_none() {
                if p.stop_delivered {
                    p.reset = p.stop;
                } else {
                    p.fin_issued = true;
                    p.fin_by_drop = true;
                }
            }
        }
    }
}

impl SimRecv {
    fn new(net: &Net, side: Side, id: u64) -> Self {
        SimRecv { net: net.clone(), side, id }
    }
}

impl quic::RecvStream for SimRecv {
    type Buf = Bytes;

    fn poll_data(&mut self, cx: &mut Context<'_>) -> Poll<Result<Option<Bytes>, StreamErrorIncoming>> {
        self.net.tick("poll_data");
        let mut g = self.net.lock();
        let cerr = g.ends[self.side.idx()].conn_error();
        let once = g.reset_once;
        let p = g.pipes.get_mut(&(self.id, self.side.other())).expect("pipe");
        if let Some(m) = &p.inject_internal {
            return Poll::Ready(Err(StreamErrorIncoming::ConnectionErrorIncoming { connection_error: ConnectionErrorIncoming::InternalError(m.clone()) }));
        }
        if p.stop.is_some() {
            // quinn: reading a stream we stopped is ClosedStream
            return Poll::Ready(Err(StreamErrorIncoming::Unknown(Box::new(SimError("read after stop_sending")))));
        }
        if p.reset_delivered {
            if p.reset_reported && once {
                return Poll::Ready(Ok(None));
            }
            p.reset_reported = true;
            return Poll::Ready(Err(StreamErrorIncoming::StreamTerminated { error_code: p.reset.unwrap() }));
        }
        if let Some(c) = p.rx.pop_front() {
            p.read_total += c.len();
            if c.is_empty() {
                g.faults.push("sim produced an empty chunk".into());
            }
            return Poll::Ready(Ok(Some(c)));
        }
        if p.fin_delivered {
            p.eos_reported = true;
            return Poll::Ready(Ok(None));
        }
        if let Some(e) = cerr {
            return Poll::Ready(Err(conn_err_stream(e)));
        }
        p.reader_waker = Some(cx.waker().clone());
        Poll::Pending
    }

    fn stop_sending(&mut self, error_code: u64) {
        self.net.lock().do_stop(self.side, self.id, error_code);
    }

    fn recv_id(&self) -> StreamId {
        StreamId::try_from(self.id).unwrap()
    }
}

impl Drop for SimRecv {
    fn drop(&mut self) {
        let mut g = self.net.lock();
        if g.ends[self.side.idx()].dead() {
            return;
        }
        let mut stop = false;
        if let Some(p) = g.pipes.get_mut(&(self.id, self.side.other())) {
            p.reader_dropped = true;
            p.reader_waker = None;
            // quinn: dropping a RecvStream with unread data / before the end sends STOP_SENDING(0)
            if !p.eos_reported && !p.reset_reported && p.stop.is_none() {
                stop = true;
            }
            p.rx.clear();
        }
        if stop {
            g.do_stop(self.side, self.id, 0);
        }
    }
}

impl quic::RecvStream for SimBidi {
    type Buf = Bytes;
    fn poll_data(&mut self, cx: &mut Context<'_>) -> Poll<Result<Option<Bytes>, StreamErrorIncoming>> {
        self.recv.poll_data(cx)
    }
    fn stop_sending(&mut self, error_code: u64) {
        self.recv.stop_sending(error_code)
    }
    fn recv_id(&self) -> StreamId {
        self.recv.recv_id()
    }
}

impl quic::SendStream<Bytes> for SimBidi {
    fn poll_ready(&mut self, cx: &mut Context<'_>) -> Poll<Result<(), StreamErrorIncoming>> {
        self.send.poll_ready(cx)
    }
    fn send_data<T: Into<WriteBuf<Bytes>>>(&mut self, data: T) -> Result<(), StreamErrorIncoming> {
        self.send.send_data(data)
    }
    fn poll_finish(&mut self, cx: &mut Context<'_>) -> Poll<Result<(), StreamErrorIncoming>> {
        self.send.poll_finish(cx)
    }
    fn reset(&mut self, reset_code: u64) {
        self.send.reset(reset_code)
    }
    fn send_id(&self) -> StreamId {
        self.send.send_id()
    }
}

impl quic::SendStreamUnframed<Bytes> for SimBidi {
    fn poll_send<D: Buf>(&mut self, cx: &mut Context<'_>, buf: &mut D) -> Poll<Result<usize, StreamErrorIncoming>> {
        self.send.poll_send(cx, buf)
    }
}

impl quic::BidiStream<Bytes> for SimBidi {
    type SendStream = SimSend;
    type RecvStream = SimRecv;
    fn split(self) -> (SimSend, SimRecv) {
        (self.send, self.recv)
    }
}

impl quic::Is0rtt for SimBidi {
    fn is_0rtt(&self) -> bool {
        false
    }
}
impl quic::Is0rtt for SimRecv {
    fn is_0rtt(&self) -> bool {
        false
    }
}

// ------------------------------------------------------------------------------------------------
// datagrams

pub struct SimDatagramSend {
    net: Net,
    side: Side,
}
pub struct SimDatagramRecv {
    net: Net,
    side: Side,
}

impl h3_datagram::quic_traits::DatagramConnectionExt<Bytes> for SimConn {
    type SendDatagramHandler = SimDatagramSend;
    type RecvDatagramHandler = SimDatagramRecv;
    fn send_datagram_handler(&self) -> SimDatagramSend {
        SimDatagramSend { net: self.net.clone(), side: self.side }
    }
    fn recv_datagram_handler(&self) -> SimDatagramRecv {
        SimDatagramRecv { net: self.net.clone(), side: self.side }
    }
}

impl h3_datagram::quic_traits::SendDatagram<Bytes> for SimDatagramSend {
    fn send_datagram<T: Into<h3_datagram::datagram::EncodedDatagram<Bytes>>>(&mut self, data: T) -> Result<(), h3_datagram::quic_traits::SendDatagramErrorIncoming> {
        use h3_datagram::quic_traits::SendDatagramErrorIncoming as E;
        let mut g = self.net.lock();
        if let Some(e) = g.ends[self.side.idx()].conn_error() {
            return Err(E::ConnectionError(e));
        }
        let mut d: h3_datagram::datagram::EncodedDatagram<Bytes> = data.into();
        let max = g.ends[self.side.idx()].max_datagram;
        if d.remaining() > max {
            return Err(E::TooLarge);
        }
        let b = d.copy_to_bytes(d.remaining());
        g.ends[self.side.idx()].datagrams_sent.push(b.to_vec());
        g.ends[self.side.other().idx()].datagram_inflight.push_back(b);
        Ok(())
    }
}

impl h3_datagram::quic_traits::RecvDatagram for SimDatagramRecv {
    type Buffer = Bytes;
    fn poll_incoming_datagram(&mut self, cx: &mut Context<'_>) -> Poll<Result<Bytes, ConnectionErrorIncoming>> {
        let mut g = self.net.lock();
        let e = &mut g.ends[self.side.idx()];
        if let Some(d) = e.datagram_rx.pop_front() {
            return Poll::Ready(Ok(d));
        }
        if let Some(err) = e.conn_error() {
            return Poll::Ready(Err(err));
        }
        e.datagram_waker = Some(cx.waker().clone());
        Poll::Pending
    }
}
