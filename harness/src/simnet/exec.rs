//! Hand-written single-threaded executor + tape-driven scheduler.
//!
//! A task is polled only after its waker fired (first poll excepted). The run loop lists the
//! enabled moves - "poll task i" for every woken task, every possible network action, the next
//! step of the peer script - lets the tape pick one, performs it, and stops at quiescence.

use std::cell::RefCell;
use std::future::Future;
use std::pin::Pin;
use std::rc::Rc;
use std::sync::atomic::{AtomicBool, Ordering};
use std::sync::Arc;
use std::task::{Context, Poll, Wake, Waker};

use super::{Move, Net};
use crate::tape::Tape;

pub type LocalFuture = Pin<Box<dyn Future<Output = ()>>>;

struct WakeFlag(AtomicBool);
impl Wake for WakeFlag {
    fn wake(self: Arc<Self>) {
        self.0.store(true, Ordering::SeqCst);
    }
    fn wake_by_ref(self: &Arc<Self>) {
        self.0.store(true, Ordering::SeqCst);
    }
}

pub struct Task {
    pub name: String,
    fut: Option<LocalFuture>,
    flag: Arc<WakeFlag>,
    waker: Waker,
    pub done: bool,
    pub panicked: Option<String>,
    pub polls: u32,
}

#[derive(Clone, Default)]
pub struct Spawner(Rc<RefCell<Vec<(String, LocalFuture)>>>);

impl Spawner {
    pub fn spawn(&self, name: impl Into<String>, f: impl Future<Output = ()> + 'static) {
        self.0.borrow_mut().push((name.into(), Box::pin(f)));
    }
}

#[derive(Copy, Clone, Debug, PartialEq, Eq)]
pub enum Style {
    /// tasks first, then whole deliveries, then the peer: an instantaneous, in-order network
    Eager,
    /// random choice of moves, deliveries of tiny sizes at the start and end of what is available
    Tiny,
    /// random choice of moves and sizes
    Random,
}

/// What the scripted peer (or any other external actor of the scenario) does. Steps are executed
/// in order, each as one schedulable move.
pub trait Actor {
    /// is there a next step and may it run now? `quiet` = nothing else is enabled
    fn ready(&mut self, quiet: bool) -> bool;
    fn step(&mut self, net: &Net, spawner: &Spawner);
}

pub struct NoActor;
impl Actor for NoActor {
    fn ready(&mut self, _quiet: bool) -> bool {
        false
    }
    fn step(&mut self, _net: &Net, _spawner: &Spawner) {}
}

#[derive(Debug, Clone, Copy, PartialEq, Eq)]
pub enum RunEnd {
    Quiescent,
    StepBound,
}

pub struct Exec {
    pub tasks: Vec<Task>,
    pub spawner: Spawner,
    pub steps: u64,
    rotor: usize,
    /// trace of performed moves (only kept when `trace` is on; for replay output)
    pub trace: Option<Vec<String>>,
}

enum Choice {
    Poll(usize),
    Net(Move),
    Actor,
}

impl Exec {
    pub fn new() -> Self {
        static TRACE: std::sync::OnceLock<bool> = std::sync::OnceLock::new();
        let on = *TRACE.get_or_init(|| std::env::var("VERIF_TRACE").is_ok());
        Exec { tasks: Vec::new(), spawner: Spawner::default(), steps: 0, rotor: 0, trace: if on { Some(Vec::new()) } else { None } }
    }

    pub fn spawn(&mut self, name: impl Into<String>, f: impl Future<Output = ()> + 'static) {
        self.spawner.spawn(name, f);
    }

    fn adopt(&mut self) {
        let new: Vec<(String, LocalFuture)> = self.spawner.0.borrow_mut().drain(..).collect();
        for (name, fut) in new {
            let flag = Arc::new(WakeFlag(AtomicBool::new(true)));
            let waker = Waker::from(flag.clone());
            self.tasks.push(Task { name, fut: Some(fut), flag, waker, done: false, panicked: None, polls: 0 });
        }
    }

    pub fn trace_tail(&self, n: usize) -> String {
        match &self.trace {
            Some(t) => t[t.len().saturating_sub(n)..].join(" | "),
            None => String::new(),
        }
    }

    pub fn task_done(&self, name: &str) -> Option<bool> {
        self.tasks.iter().find(|t| t.name == name).map(|t| t.done)
    }

    pub fn pending_tasks(&self) -> Vec<String> {
        self.tasks.iter().filter(|t| !t.done).map(|t| t.name.clone()).collect()
    }

    pub fn panics(&self) -> Vec<(String, String)> {
        self.tasks.iter().filter_map(|t| t.panicked.clone().map(|p| (t.name.clone(), p))).collect()
    }

    fn poll_task(&mut self, i: usize) {
        let t = &mut self.tasks[i];
        t.flag.0.store(false, Ordering::SeqCst);
        t.polls += 1;
        let waker = t.waker.clone();
        let mut fut = t.fut.take().expect("future present");
        let r = crate::runner::catch(move || {
            let mut cx = Context::from_waker(&waker);
            let p = fut.as_mut().poll(&mut cx);
            (fut, p)
        });
        let t = &mut self.tasks[i];
        match r {
            Ok((fut, Poll::Pending)) => t.fut = Some(fut),
            Ok((_fut, Poll::Ready(()))) => t.done = true,
            Err(msg) => {
                t.done = true;
                t.panicked = Some(msg);
            }
        }
    }

    /// force one poll of every unfinished task (used to tell a lost wake-up from a genuine wait)
    pub fn spurious_poll_all(&mut self) {
        self.adopt();
        for i in 0..self.tasks.len() {
            if !self.tasks[i].done {
                self.poll_task(i);
            }
        }
    }

    pub fn any_woken(&self) -> bool {
        self.tasks.iter().any(|t| !t.done && t.flag.0.load(Ordering::SeqCst))
    }

    /// Run to quiescence (or the step bound).
    pub fn run(&mut self, net: &Net, actor: &mut dyn Actor, tape: &mut Tape, style: Style, max_steps: u64) -> RunEnd {
        let mut moves: Vec<Move> = Vec::new();
        loop {
            self.adopt();
            if self.steps >= max_steps {
                return RunEnd::StepBound;
            }
            moves.clear();
            net.enabled_moves(&mut moves);
            let woken: Vec<usize> = self.tasks.iter().enumerate().filter(|(_, t)| !t.done && t.flag.0.load(Ordering::SeqCst)).map(|(i, _)| i).collect();
            let quiet = moves.is_empty() && woken.is_empty();
            let actor_ready = actor.ready(quiet);
            let total = woken.len() + moves.len() + actor_ready as usize;
            if total == 0 {
                return RunEnd::Quiescent;
            }
            let choice = match style {
                Style::Eager => {
                    if let Some(i) = woken.first() {
                        Choice::Poll(*i)
                    } else if let Some(m) = moves.first() {
                        Choice::Net(m.clone())
                    } else {
                        Choice::Actor
                    }
                }
                Style::Tiny | Style::Random => {
                    let k = tape.sched(total, &mut self.rotor);
                    if k < woken.len() {
                        Choice::Poll(woken[k])
                    } else if k < woken.len() + moves.len() {
                        Choice::Net(moves[k - woken.len()].clone())
                    } else {
                        Choice::Actor
                    }
                }
            };
            self.steps += 1;
            match choice {
                Choice::Poll(i) => {
                    if let Some(tr) = self.trace.as_mut() {
                        tr.push(format!("poll {}", self.tasks[i].name));
                    }
                    net.begin_task_poll();
                    self.poll_task(i);
                }
                Choice::Net(m) => {
                    let n = match &m {
                        Move::Deliver { stream, writer } => {
                            let avail = net.deliverable(*stream, *writer) as u64;
                            match style {
                                Style::Eager => avail,
                                Style::Tiny => {
                                    let delivered = net.lock().pipes.get(&(*stream, *writer)).map(|p| p.delivered).unwrap_or(0);
                                    if delivered < 160 || avail <= 12 {
                                        2 - tape.pick(2) as u64
                                    } else {
                                        avail - 6
                                    }
                                }
                                // 0 (= exhausted tape) is the simplest choice: everything that is available
                                Style::Random => match tape.pick(8) {
                                    0 | 1 | 2 => avail,
                                    3 => 1,
                                    4 => 2,
                                    5 => 1 + tape.pick(8) as u64,
                                    6 => 1 + tape.pick(if avail > 4000 { 1500 } else { 64 }) as u64,
                                    _ => (avail / 2).max(1),
                                },
                            }
                        }
                        Move::GrantSend { .. } => match style {
                            Style::Eager => 1 << 20,
                            Style::Tiny => {
                                let written = match &m {
                                    Move::GrantSend { stream, writer } => net.lock().pipes.get(&(*stream, *writer)).map(|p| p.written.len()).unwrap_or(0),
                                    _ => 0,
                                };
                                if written < 256 {
                                    3 - tape.pick(3) as u64
                                } else {
                                    1 << 20
                                }
                            }
                            Style::Random => match tape.pick(6) {
                                0 | 1 => 1 << 20,
                                2 => 1,
                                3 => 2,
                                4 => 1 + tape.pick(16) as u64,
                                _ => 1 + tape.pick(4096) as u64,
                            },
                        },
                        _ => 1,
                    };
                    if let Some(tr) = self.trace.as_mut() {
                        tr.push(format!("{m:?} n={n}"));
                    }
                    net.perform(&m, n);
                }
                Choice::Actor => {
                    if let Some(tr) = self.trace.as_mut() {
                        tr.push("actor step".to_string());
                    }
                    let sp = self.spawner.clone();
                    actor.step(net, &sp);
                }
            }
        }
    }
}

/// A cell shared between the harness and the tasks it spawns.
pub type Shared<T> = Rc<RefCell<T>>;

pub fn shared<T>(v: T) -> Shared<T> {
    Rc::new(RefCell::new(v))
}

/// A flag a task can wait on; set by an actor step (e.g. "call shutdown now").
#[derive(Clone, Default)]
pub struct Signal(Rc<RefCell<(u64, Vec<Waker>)>>);

impl Signal {
    pub fn new() -> Self {
        Self::default()
    }
    pub fn raise(&self) {
        let mut g = self.0.borrow_mut();
        g.0 += 1;
        for w in g.1.drain(..) {
            w.wake();
        }
    }
    pub fn count(&self) -> u64 {
        self.0.borrow().0
    }
    /// resolves once the counter exceeds `seen`
    pub fn wait(&self, seen: u64) -> impl Future<Output = u64> + '_ {
        std::future::poll_fn(move |cx| {
            let mut g = self.0.borrow_mut();
            if g.0 > seen {
                Poll::Ready(g.0)
            } else {
                g.1.push(cx.waker().clone());
                Poll::Pending
            }
        })
    }
    pub fn poll_changed(&self, seen: u64, cx: &mut Context<'_>) -> Poll<u64> {
        let mut g = self.0.borrow_mut();
        if g.0 > seen {
            Poll::Ready(g.0)
        } else {
            g.1.push(cx.waker().clone());
            Poll::Pending
        }
    }
}


/// gives the scheduler one chance to run something else (the transport, the peer) before the task goes on
pub fn yield_once() -> impl Future<Output = ()> {
    let mut done = false;
    std::future::poll_fn(move |cx| {
        if done {
            Poll::Ready(())
        } else {
            done = true;
            cx.waker().wake_by_ref();
            Poll::Pending
        }
    })
}
