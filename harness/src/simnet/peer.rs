//! Scripted raw peer: the harness drives one end of the connection directly.

use std::collections::{HashMap, VecDeque};

use super::exec::{Actor, Signal, Spawner};
use super::{Dir, Net, Side};
use crate::reference::frames as rf;
use crate::reference::qpack as rq;
use crate::reference::varint as rv;

#[derive(Debug, Clone)]
pub enum PeerOp {
    OpenUni(usize),
    OpenBidi(usize),
    /// refer to a stream the h3 end opened: (key, stream id)
    Adopt(usize, u64),
    /// like Adopt, but waits until the h3 end has opened that stream (needs `RawPeer::net`)
    AdoptOpen(usize, u64),
    Write(usize, Vec<u8>),
    Fin(usize),
    Reset(usize, u64),
    /// STOP_SENDING for the direction h3 writes on that stream
    Stop(usize, u64),
    Close(u64),
    Timeout,
    Datagram(Vec<u8>),
    /// wait until nothing else is enabled
    Barrier,
    /// MAX_STREAMS: the h3 end may open that many more bidirectional streams
    GrantBidi(u64),
    /// raise application signal k
    Signal(usize),
    /// run a closure-free hook identified by number (interpreted by the property)
    Hook(usize),
}

pub struct RawPeer {
    pub side: Side,
    pub ops: VecDeque<PeerOp>,
    pub streams: HashMap<usize, u64>,
    pub signals: Vec<Signal>,
    pub executed: usize,
    pub hooks_run: Vec<usize>,
    pub net: Option<super::Net>,
}

impl RawPeer {
    pub fn new(side: Side, ops: Vec<PeerOp>) -> Self {
        RawPeer { side, ops: ops.into(), streams: HashMap::new(), signals: Vec::new(), executed: 0, hooks_run: Vec::new(), net: None }
    }
    pub fn stream(&self, key: usize) -> Option<u64> {
        self.streams.get(&key).copied()
    }
}

impl Actor for RawPeer {
    fn ready(&mut self, quiet: bool) -> bool {
        match self.ops.front() {
            None => false,
            Some(PeerOp::Barrier) => quiet,
            Some(PeerOp::AdoptOpen(_, id)) => self.net.as_ref().map(|n| n.lock().pipes.contains_key(&(*id, self.side))).unwrap_or(true),
            Some(_) => true,
        }
    }

    fn step(&mut self, net: &Net, _sp: &Spawner) {
        let Some(op) = self.ops.pop_front() else { return };
        self.executed += 1;
        let side = self.side;
        match op {
            PeerOp::OpenUni(k) => {
                let id = net.raw_open(side, Dir::Uni);
                self.streams.insert(k, id);
            }
            PeerOp::OpenBidi(k) => {
                let id = net.raw_open(side, Dir::Bidi);
                self.streams.insert(k, id);
            }
            PeerOp::Adopt(k, id) | PeerOp::AdoptOpen(k, id) => {
                self.streams.insert(k, id);
            }
            PeerOp::Write(k, b) => {
                if let Some(id) = self.streams.get(&k) {
                    net.raw_write(side, *id, &b);
                }
            }
            PeerOp::Fin(k) => {
                if let Some(id) = self.streams.get(&k) {
                    net.raw_fin(side, *id);
                }
            }
            PeerOp::Reset(k, code) => {
                if let Some(id) = self.streams.get(&k) {
                    net.raw_reset(side, *id, code);
                }
            }
            PeerOp::Stop(k, code) => {
                if let Some(id) = self.streams.get(&k) {
                    net.raw_stop(side, *id, code);
                }
            }
            PeerOp::Close(code) => net.raw_close(side, code),
            PeerOp::Timeout => net.timeout(side.other()),
            PeerOp::Datagram(b) => net.raw_datagram(side, &b),
            PeerOp::Barrier => {}
            PeerOp::GrantBidi(n) => {
                let mut g = net.lock();
                let e = &mut g.ends[side.other().idx()];
                e.stream_credit[0] = e.stream_credit[0].saturating_add(n);
                for w in e.open_wakers[0].drain(..) {
                    w.wake();
                }
            }
            PeerOp::Signal(k) => {
                if let Some(s) = self.signals.get(k) {
                    s.raise();
                }
            }
            PeerOp::Hook(k) => self.hooks_run.push(k),
        }
    }
}

/// control stream preamble of a well behaved peer: type 0x00 + SETTINGS(entries)
pub fn control_preamble(entries: &[(u64, u64)]) -> Vec<u8> {
    let mut b = vec![0x00];
    b.extend(rf::settings_frame(entries));
    b
}

pub fn headers_frame(fields: &[(&str, &str)]) -> Vec<u8> {
    let f: Vec<rq::Field> = fields.iter().map(|(n, v)| (n.as_bytes().to_vec(), v.as_bytes().to_vec())).collect();
    rf::frame(rf::T_HEADERS, &rq::encode_section_simple(&f))
}

pub fn headers_frame_bytes(fields: &[rq::Field]) -> Vec<u8> {
    rf::frame(rf::T_HEADERS, &rq::encode_section_simple(fields))
}

pub fn simple_request_headers() -> Vec<u8> {
    headers_frame(&[(":method", "GET"), (":scheme", "https"), (":authority", "example.com"), (":path", "/")])
}

pub fn post_request_headers() -> Vec<u8> {
    headers_frame(&[(":method", "POST"), (":scheme", "https"), (":authority", "example.com"), (":path", "/upload")])
}

pub fn simple_response_headers(status: &str) -> Vec<u8> {
    headers_frame(&[(":status", status)])
}

pub fn trailers_frame() -> Vec<u8> {
    headers_frame(&[("x-trailer", "1")])
}

pub fn data_frame(payload: &[u8]) -> Vec<u8> {
    rf::frame(rf::T_DATA, payload)
}

pub fn goaway_frame(id: u64) -> Vec<u8> {
    rf::varint_frame(rf::T_GOAWAY, id)
}

pub fn varint(v: u64) -> Vec<u8> {
    rv::encode(v).unwrap()
}
