//! Reference RFC 9114 parser over the complete byte log of every stream an h3 end wrote (C14, C13).

use crate::reference::frames::{self as rf, End, Ev};
use crate::reference::settings as rs;
use crate::reference::varint as rv;

use super::{dir_of, initiator_of, Dir, NetInner, Side};

#[derive(Debug, Clone, Default)]
pub struct WireSummary {
    /// SETTINGS entries seen on the control stream (in order)
    pub settings: Option<Vec<(u64, u64)>>,
    pub goaways: Vec<u64>,
    pub control_stream: Option<u64>,
    pub uni_types: Vec<(u64, u64)>,
    /// per request stream: list of (frame type, payload) for HEADERS / DATA, grease frames dropped
    pub request_streams: Vec<(u64, Vec<(u64, Vec<u8>)>)>,
    pub grease_frames: u32,
    pub grease_settings: u32,
    pub frames_total: u32,
}

pub const ST_CONTROL: u64 = 0x00;
pub const ST_PUSH: u64 = 0x01;
pub const ST_ENCODER: u64 = 0x02;
pub const ST_DECODER: u64 = 0x03;
pub const ST_WT_UNI: u64 = 0x54;

/// Check everything `side` wrote. `complete` = all API calls on all streams have returned (quiescence)
/// so that no frame may be left unfinished, except on streams whose write was interrupted by the peer
/// (STOP_SENDING delivered) or by the end of the connection.
pub fn check_written(g: &NetInner, side: Side, role_is_server: bool, ordered_messages: bool) -> Result<WireSummary, String> {
    let mut sum = WireSummary::default();
    let conn_dead = g.ends[side.idx()].dead();
    for ((stream, writer), p) in g.pipes.iter() {
        if *writer != side {
            continue;
        }
        let b = &p.written;
        let interrupted = p.stop_delivered || p.reset.is_some() || (conn_dead && !p.fin_issued);
        if dir_of(*stream) == Dir::Uni {
            if initiator_of(*stream) != side {
                return Err(format!("wrote on a unidirectional stream {stream} it did not open"));
            }
            if b.is_empty() {
                // stream opened, nothing written yet (e.g. blocked on credit): nothing to judge
                continue;
            }
            let rv::Dec::Ok(ty, n) = rv::decode(b) else {
                if interrupted || p.writer_blocked {
                    continue;
                }
                return Err(format!("uni stream {stream}: incomplete stream type {}", crate::runner::hex(b)));
            };
            sum.uni_types.push((*stream, ty));
            let rest = &b[n..];
            match ty {
                ST_CONTROL => {
                    if sum.control_stream.is_some() {
                        return Err("two control streams opened".into());
                    }
                    sum.control_stream = Some(*stream);
                    if p.fin_issued && !p.fin_by_drop {
                        return Err("control stream finished".into());
                    }
                    let seg = rf::segment(rest);
                    match &seg.end {
                        End::Boundary => {}
                        End::Inside if interrupted || p.writer_blocked => {}
                        End::Inside => return Err(format!("control stream ends inside a frame: {}", crate::runner::hex(&rest[rest.len().saturating_sub(24)..]))),
                        End::Error { classes, at } => return Err(format!("control stream: invalid frame at {at}: {classes:?}")),
                    }
                    for (i, ev) in seg.events.iter().enumerate() {
                        sum.frames_total += 1;
                        match ev {
                            Ev::Settings(s) => {
                                if i != 0 {
                                    return Err("SETTINGS is not the first frame of the control stream (or sent twice)".into());
                                }
                                check_settings(s, &mut sum)?;
                                sum.settings = Some(s.clone());
                            }
                            _ if i == 0 => return Err(format!("control stream does not start with SETTINGS but with {ev:?}")),
                            Ev::Goaway(id) => {
                                if role_is_server && id % 4 != 0 {
                                    return Err(format!("server sent GOAWAY({id}) which is not a client-initiated bidirectional stream id"));
                                }
                                // RFC 9114 5.2: "the identifier in each frame MUST NOT be greater than the identifier in any previous frame"
                                if let Some(prev) = sum.goaways.last() {
                                    if id > prev {
                                        return Err(format!("GOAWAY({id}) sent after GOAWAY({prev}): the identifiers an endpoint sends must never increase"));
                                    }
                                }
                                sum.goaways.push(*id);
                            }
                            Ev::MaxPushId(_) if !role_is_server => {}
                            Ev::CancelPush(_) => {}
                            Ev::Skipped(t, _) => {
                                if !rf::is_grease(*t) {
                                    return Err(format!("control stream carries a frame of unknown non-reserved type {t:#x}"));
                                }
                                sum.grease_frames += 1;
                            }
                            other => return Err(format!("frame not allowed on the control stream: {other:?}")),
                        }
                    }
                    if seg.events.is_empty() && !(interrupted || p.writer_blocked) && !rest.is_empty() {
                        return Err("control stream has bytes but no complete SETTINGS frame".into());
                    }
                }
                ST_ENCODER | ST_DECODER => {
                    // h3 uses the static table only: no instructions are expected; any bytes would be
                    // QPACK instructions, which this parser does not judge
                }
                ST_WT_UNI => {
                    if !matches!(rv::decode(rest), rv::Dec::Ok(..)) && !(interrupted || p.writer_blocked) {
                        return Err("WebTransport uni stream without a complete session id".into());
                    }
                }
                ST_PUSH if role_is_server => {}
                t if rf::is_grease(t) => {}
                t => return Err(format!("uni stream {stream} opened with illegal stream type {t:#x}")),
            }
        } else {
            // bidirectional: request stream
            if initiator_of(*stream) != Side::Client {
                if !b.is_empty() {
                    return Err(format!("bytes written on server-initiated bidirectional stream {stream}"));
                }
                continue;
            }
            let seg = rf::segment(b);
            if seg.has_wt {
                // WebTransport bidi stream (0x41 + session id + raw bytes): out of C14's frame grammar
                continue;
            }
            match &seg.end {
                End::Boundary => {}
                End::Inside if interrupted || p.writer_blocked => {}
                End::Inside => return Err(format!("request stream {stream} ends inside a frame (declared length does not match the bytes that follow): tail {}", crate::runner::hex(&b[b.len().saturating_sub(24)..]))),
                End::Error { classes, at } => return Err(format!("request stream {stream}: invalid frame at {at}: {classes:?}")),
            }
            let mut frames = Vec::new();
            // 0 = nothing yet, 1 = headers sent, 2 = trailers sent
            let mut state = 0;
            for ev in &seg.events {
                sum.frames_total += 1;
                match ev {
                    Ev::Headers(h) => {
                        if ordered_messages {
                            if state == 2 {
                                return Err(format!("request stream {stream}: third HEADERS frame"));
                            }
                            state += 1;
                        }
                        frames.push((rf::T_HEADERS, h.clone()));
                    }
                    Ev::Data(d) => {
                        if ordered_messages && state != 1 {
                            return Err(format!("request stream {stream}: DATA frame in state {state}"));
                        }
                        frames.push((rf::T_DATA, d.clone()));
                    }
                    Ev::DataPartial(..) => {}
                    Ev::Skipped(t, _) => {
                        if !rf::is_grease(*t) {
                            return Err(format!("request stream {stream}: frame of unknown non-reserved type {t:#x}"));
                        }
                        sum.grease_frames += 1;
                    }
                    other => return Err(format!("request stream {stream}: frame not allowed there: {other:?}")),
                }
            }
            sum.request_streams.push((*stream, frames));
        }
    }
    Ok(sum)
}

fn check_settings(s: &[(u64, u64)], sum: &mut WireSummary) -> Result<(), String> {
    let mut seen = std::collections::BTreeSet::new();
    for (id, _) in s {
        if rs::is_h2_reserved(*id) {
            return Err(format!("SETTINGS carries HTTP/2 reserved identifier {id:#x}"));
        }
        if !seen.insert(*id) {
            return Err(format!("SETTINGS lists identifier {id:#x} twice"));
        }
        if !rs::is_known(*id) {
            if !rf::is_grease(*id) {
                return Err(format!("SETTINGS carries unknown identifier {id:#x} that is not of the reserved 0x1f*N+0x21 form"));
            }
            sum.grease_settings += 1;
        }
    }
    Ok(())
}
