//! Verification harness for hyperium/h3: property-based testing and fuzzing of the properties
//! listed in /verif/properties.jsonl. See /verif/DESIGN.md.
#![allow(clippy::all)]
#![allow(dead_code)]

pub mod interleave;
pub mod props;
pub mod reference;
pub mod runner;
pub mod simnet;
pub mod tape;

pub use runner::{Ctx, Failure, PropDef, Tier, Verdict};
