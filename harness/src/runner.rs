//! Generic driver: replay tier -> exhaustive sub-spaces -> random (proptest) tier; evidence writer.

use std::collections::{BTreeMap, BTreeSet, HashSet};
use std::hash::{Hash, Hasher};
use std::panic::{catch_unwind, AssertUnwindSafe};
use std::path::{Path, PathBuf};
use std::sync::atomic::{AtomicBool, Ordering};
use std::sync::{Arc, Mutex, OnceLock};
use std::time::Instant;

use proptest::test_runner::{Config, RngSeed, TestCaseError, TestError, TestRunner};
use serde_json::{json, Value};

#[derive(Copy, Clone, Debug, PartialEq, Eq)]
pub enum Tier {
    Quick,
    Thorough,
}

impl Tier {
    pub fn name(self) -> &'static str {
        match self {
            Tier::Quick => "quick",
            Tier::Thorough => "thorough",
        }
    }
    pub fn pick<T>(self, quick: T, thorough: T) -> T {
        match self {
            Tier::Quick => quick,
            Tier::Thorough => thorough,
        }
    }
}

#[derive(Debug, Clone)]
pub struct Failure {
    pub detail: String,
    /// human readable decoded case
    pub case: Value,
    /// for cases that do not come from a tape: a document `run_direct` can re-run
    pub direct: Option<Value>,
    /// harness fault (exit 2), not a property violation
    pub harness_fault: bool,
}

impl Failure {
    pub fn new(detail: impl Into<String>, case: Value) -> Self {
        Failure { detail: detail.into(), case, direct: None, harness_fault: false }
    }
    pub fn direct(detail: impl Into<String>, direct: Value) -> Self {
        Failure { detail: detail.into(), case: direct.clone(), direct: Some(direct), harness_fault: false }
    }
    pub fn fault(detail: impl Into<String>) -> Self {
        Failure { detail: detail.into(), case: Value::Null, direct: None, harness_fault: true }
    }
}

pub type Verdict = Result<(), Failure>;

/// Per-thread statistics collector handed to every property evaluation.
pub struct Ctx {
    pub tier: Tier,
    pub seed: u64,
    pub evaluations: u64,
    pub nontrivial: HashSet<u64>,
    pub classes: BTreeMap<String, u64>,
    pub samples: Vec<Value>,
    sample_seen: u64,
    pub excluded_known: BTreeMap<String, u64>,
    pub known_hit: BTreeSet<String>,
    pub exhaustive_subspaces: Vec<Value>,
    pub fuzz: Option<Value>,
    /// set while proptest shrinks: stop counting
    pub frozen: bool,
    /// strict = replaying a single file: known findings are NOT tolerated, they are reported
    pub strict: bool,
    pub notes: Vec<String>,
}

impl Ctx {
    pub fn new(tier: Tier, seed: u64) -> Self {
        Ctx {
            tier,
            seed,
            evaluations: 0,
            nontrivial: HashSet::new(),
            classes: BTreeMap::new(),
            samples: Vec::new(),
            sample_seen: 0,
            excluded_known: BTreeMap::new(),
            known_hit: BTreeSet::new(),
            exhaustive_subspaces: Vec::new(),
            fuzz: None,
            frozen: false,
            strict: false,
            notes: Vec::new(),
        }
    }

    #[inline]
    pub fn eval(&mut self) {
        PROGRESS.fetch_add(1, std::sync::atomic::Ordering::Relaxed);
        if !self.frozen {
            self.evaluations += 1;
        }
    }

    #[inline]
    pub fn evals(&mut self, n: u64) {
        if !self.frozen {
            self.evaluations += n;
        }
    }

    #[inline]
    pub fn class(&mut self, name: &str) {
        if !self.frozen {
            if let Some(c) = self.classes.get_mut(name) {
                *c += 1;
            } else {
                self.classes.insert(name.to_string(), 1);
            }
        }
    }

    pub fn class_n(&mut self, name: &str, n: u64) {
        if !self.frozen && n > 0 {
            *self.classes.entry(name.to_string()).or_insert(0) += n;
        }
    }

    /// register a distinct non-trivial case by (a hash of) its canonical encoding
    #[inline]
    pub fn nontrivial<K: Hash>(&mut self, key: &K) {
        if !self.frozen {
            let mut h = std::collections::hash_map::DefaultHasher::new();
            key.hash(&mut h);
            // bound memory: beyond 4M distinct keys we keep counting only what fits (conservative)
            if self.nontrivial.len() < 4_000_000 {
                self.nontrivial.insert(h.finish());
            }
        }
    }

    /// keep a handful of samples chosen by fixed stride (powers of two) so they are not cherry picked
    #[inline]
    pub fn sample(&mut self, f: impl FnOnce() -> Value) {
        if self.frozen {
            return;
        }
        self.sample_seen += 1;
        let n = self.sample_seen;
        if (n & (n - 1)) == 0 && (n >= 32 || n == 1) && self.samples.len() < 24 {
            self.samples.push(f());
        }
    }

    /// Is the finding `id` listed as open in known_findings.json? If so count the exclusion and
    /// return true (the caller then excludes that family from its oracle). In strict (single
    /// replay) mode known findings are not excluded.
    pub fn known(&mut self, id: &str) -> bool {
        if self.strict {
            return false;
        }
        if known_open().contains_key(id) {
            if !self.frozen {
                *self.excluded_known.entry(id.to_string()).or_insert(0) += 1;
                self.known_hit.insert(id.to_string());
            }
            true
        } else {
            false
        }
    }

    pub fn subspace(&mut self, name: &str, size: u64) {
        self.exhaustive_subspaces.push(json!({"name": name, "size": size}));
    }

    fn merge(&mut self, o: Ctx) {
        self.evaluations += o.evaluations;
        self.nontrivial.extend(o.nontrivial);
        for (k, v) in o.classes {
            *self.classes.entry(k).or_insert(0) += v;
        }
        for s in o.samples {
            if self.samples.len() < 40 {
                self.samples.push(s);
            }
        }
        for (k, v) in o.excluded_known {
            *self.excluded_known.entry(k).or_insert(0) += v;
        }
        self.known_hit.extend(o.known_hit);
        for s in o.exhaustive_subspaces {
            if !self.exhaustive_subspaces.contains(&s) {
                self.exhaustive_subspaces.push(s);
            }
        }
        if o.fuzz.is_some() {
            self.fuzz = o.fuzz;
        }
        self.notes.extend(o.notes);
    }
}

pub struct PropDef {
    pub id: &'static str,
    pub rule: &'static str,
    pub assumptions: &'static [&'static str],
    /// maximal tape length handed to proptest
    pub tape_len: usize,
    /// random cases per tier (total over all shards)
    pub random_cases: fn(Tier) -> u64,
    /// one generated case
    pub run_tape: fn(&[u16], &mut Ctx) -> Verdict,
    /// seed independent exhaustive sub-spaces; must partition work by `shard % nshards`
    pub exhaustive: Option<fn(&mut Ctx, usize, usize) -> Verdict>,
    /// re-run a non-tape case
    pub run_direct: Option<fn(&Value, &mut Ctx) -> Verdict>,
    /// class counters that must be at least this large after a full run (vacuity guard): (class, quick minimum)
    pub min_classes: &'static [(&'static str, u64)],
    /// optional extra phase run once single threaded (e.g. libFuzzer campaign in thorough, Quinn runs)
    pub extra: Option<fn(&mut Ctx) -> Verdict>,
}

// ------------------------------------------------------------------------------------------------
// known findings

pub struct KnownFinding {
    pub id: String,
    pub property: String,
    pub what: String,
    pub replay: Option<String>,
}

static KNOWN: OnceLock<BTreeMap<String, KnownFinding>> = OnceLock::new();

pub fn verif_root() -> PathBuf {
    if let Ok(p) = std::env::var("VERIF_ROOT") {
        return PathBuf::from(p);
    }
    PathBuf::from("/verif")
}

pub fn known_open() -> &'static BTreeMap<String, KnownFinding> {
    KNOWN.get_or_init(|| {
        let mut m = BTreeMap::new();
        let p = verif_root().join("known_findings.json");
        if let Ok(s) = std::fs::read_to_string(&p) {
            if let Ok(v) = serde_json::from_str::<Value>(&s) {
                if let Some(open) = v.get("open").and_then(|o| o.as_array()) {
                    for e in open {
                        let id = e.get("id").and_then(|x| x.as_str()).unwrap_or("").to_string();
                        if id.is_empty() {
                            continue;
                        }
                        m.insert(
                            id.clone(),
                            KnownFinding {
                                id,
                                property: e.get("property").and_then(|x| x.as_str()).unwrap_or("").to_string(),
                                what: e.get("what").and_then(|x| x.as_str()).unwrap_or("").to_string(),
                                replay: e.get("replay").and_then(|x| x.as_str()).map(|s| s.to_string()),
                            },
                        );
                    }
                }
            }
        }
        m
    })
}

// ------------------------------------------------------------------------------------------------
// panic capture

thread_local! {
    static LAST_PANIC: std::cell::RefCell<Option<String>> = const { std::cell::RefCell::new(None) };
    static QUIET: std::cell::Cell<bool> = const { std::cell::Cell::new(false) };
}

pub fn install_panic_hook() {
    let default = std::panic::take_hook();
    std::panic::set_hook(Box::new(move |info| {
        let msg = {
            let p = info.payload();
            let s = if let Some(s) = p.downcast_ref::<&str>() {
                s.to_string()
            } else if let Some(s) = p.downcast_ref::<String>() {
                s.clone()
            } else {
                "<non-string panic>".to_string()
            };
            match info.location() {
                Some(l) => format!("{} at {}:{}", s, l.file(), l.line()),
                None => s,
            }
        };
        LAST_PANIC.with(|c| *c.borrow_mut() = Some(msg));
        if !QUIET.with(|q| q.get()) || std::env::var("VERIF_LOUD").is_ok() {
            default(info);
        }
    }));
}

pub fn set_quiet_panics(q: bool) {
    QUIET.with(|c| c.set(q));
}

pub fn take_last_panic() -> Option<String> {
    LAST_PANIC.with(|c| c.borrow_mut().take())
}

/// run `f`, turning a panic into Err(message with location)
pub fn catch<R>(f: impl FnOnce() -> R) -> Result<R, String> {
    let prev = QUIET.with(|q| q.replace(true));
    let r = catch_unwind(AssertUnwindSafe(f));
    QUIET.with(|q| q.set(prev));
    match r {
        Ok(v) => Ok(v),
        Err(_) => Err(take_last_panic().unwrap_or_else(|| "panic".to_string())),
    }
}

fn run_guarded(f: impl FnOnce() -> Verdict, case_hint: impl FnOnce() -> Value) -> Verdict {
    match catch(f) {
        Ok(v) => v,
        Err(msg) => {
            // a panic raised by harness code (location under the harness' own src/) is a harness fault
            // (exit 2); one raised inside /repo or in a dependency called from it is a finding
            let mut f = Failure::new(format!("panic: {msg}"), case_hint());
            if msg.contains(" at src/") && !msg.contains("/repo/") {
                f.harness_fault = true;
            }
            Err(f)
        }
    }
}

// ------------------------------------------------------------------------------------------------

fn hash_str(s: &str) -> u64 {
    let mut h = std::collections::hash_map::DefaultHasher::new();
    s.hash(&mut h);
    h.finish()
}

fn write_replay(prop: &PropDef, tape: Option<&[u16]>, f: &Failure) -> PathBuf {
    let out = verif_root().join("out");
    let _ = std::fs::create_dir_all(&out);
    let doc = json!({
        "property": prop.id,
        "tape": tape.map(|t| t.to_vec()),
        "direct": f.direct,
        "decoded": f.case,
        "detail": f.detail,
    });
    let text = serde_json::to_string_pretty(&doc).unwrap();
    let name = format!("{}-{:016x}.json", prop.id, hash_str(&text));
    let p = out.join(name);
    let _ = std::fs::write(&p, text);
    p
}

pub fn replay_file(prop: &PropDef, path: &Path, ctx: &mut Ctx) -> Verdict {
    let text = std::fs::read_to_string(path)
        .map_err(|e| Failure::fault(format!("cannot read replay {}: {e}", path.display())))?;
    let doc: Value = serde_json::from_str(&text)
        .map_err(|e| Failure::fault(format!("bad replay json {}: {e}", path.display())))?;
    if let Some(t) = doc.get("tape").and_then(|t| t.as_array()) {
        let tape: Vec<u16> = t.iter().map(|x| x.as_u64().unwrap_or(0) as u16).collect();
        let run = prop.run_tape;
        run_guarded(|| run(&tape, ctx), || json!({"tape": tape}))
    } else if let Some(d) = doc.get("direct") {
        match prop.run_direct {
            Some(run) => run_guarded(|| run(d, ctx), || d.clone()),
            None => Err(Failure::fault("property has no direct replay")),
        }
    } else {
        Err(Failure::fault("replay file has neither tape nor direct"))
    }
}

pub struct RunResult {
    pub exit: i32,
}

fn report_violation(prop: &PropDef, tape: Option<&[u16]>, f: &Failure) {
    let p = write_replay(prop, tape, f);
    println!("VIOLATION property={} replay={}", prop.id, p.display());
    println!("  detail: {}", f.detail);
    let c = serde_json::to_string(&f.case).unwrap_or_default();
    let c: String = c.chars().take(1500).collect();
    println!("  case: {}", c);
}

pub fn nthreads() -> usize {
    std::env::var("VERIF_THREADS")
        .ok()
        .and_then(|s| s.parse().ok())
        .unwrap_or_else(|| std::thread::available_parallelism().map(|n| n.get()).unwrap_or(4).min(16))
}

/// Full check of one property at one tier. Returns the process exit code.
/// evaluations started, over all threads (progress indicator for the watchdog)
pub static PROGRESS: std::sync::atomic::AtomicU64 = std::sync::atomic::AtomicU64::new(0);

/// A case that never returns (a busy loop in the code under test that does not even call the simulated transport, whose own
/// livelock detector would turn it into a finding) must not hang the command: when no evaluation has started for a long
/// time the run ends as INCONCLUSIVE (exit 2, never a violation).
fn start_watchdog(prop_id: &'static str, tier: Tier) {
    let limit = std::env::var("VERIF_WATCHDOG_S").ok().and_then(|s| s.parse::<u64>().ok()).unwrap_or(tier.pick(180, 900));
    std::thread::spawn(move || {
        let mut last = PROGRESS.load(std::sync::atomic::Ordering::Relaxed);
        let mut since = Instant::now();
        loop {
            std::thread::sleep(std::time::Duration::from_secs(5));
            let now = PROGRESS.load(std::sync::atomic::Ordering::Relaxed);
            if now != last {
                last = now;
                since = Instant::now();
            } else if since.elapsed().as_secs() >= limit {
                println!("INCONCLUSIVE property={prop_id} watchdog: no case started or finished for {limit} s (a case does not return)");
                std::process::exit(2);
            }
        }
    });
}

pub fn run_check(prop: &'static PropDef, tier: Tier, seed: u64) -> i32 {
    let start = Instant::now();
    start_watchdog(prop.id, tier);
    let mut total = Ctx::new(tier, seed);
    let mut violations = 0u32;
    let mut faults: Vec<String> = Vec::new();

    // ---- 0. known findings: does each listed replay still fail? (strict mode)
    for kf in known_open().values().filter(|k| k.property == prop.id) {
        if let Some(r) = &kf.replay {
            let path = verif_root().join(r);
            let mut c = Ctx::new(tier, seed);
            c.strict = true;
            match replay_file(prop, &path, &mut c) {
                Err(f) if !f.harness_fault => {
                    println!("KNOWN-FINDING: property={} {} [{}]", prop.id, kf.what, kf.id);
                }
                Err(f) => faults.push(f.detail),
                Ok(()) => {
                    // the finding no longer reproduces (repaired?) - say so, but it is not an alarm
                    println!("note: known finding {} no longer reproduces from {}", kf.id, r);
                }
            }
        }
    }

    // ---- 1. replay tier: committed regression tapes
    let rdir = verif_root().join("replays").join(prop.id);
    let mut files: Vec<PathBuf> = std::fs::read_dir(&rdir)
        .map(|d| d.filter_map(|e| e.ok().map(|e| e.path())).filter(|p| p.extension().map(|e| e == "json").unwrap_or(false)).collect())
        .unwrap_or_default();
    files.sort();
    let known_replays: HashSet<PathBuf> = known_open()
        .values()
        .filter_map(|k| k.replay.as_ref().map(|r| verif_root().join(r)))
        .collect();
    let mut replayed = 0u64;
    for f in &files {
        if known_replays.contains(f) {
            continue;
        }
        replayed += 1;
        if let Err(fail) = replay_file(prop, f, &mut total) {
            if fail.harness_fault {
                faults.push(fail.detail.clone());
            } else {
                violations += 1;
                println!("VIOLATION property={} replay={}", prop.id, f.display());
                println!("  detail: {}", fail.detail);
            }
        }
    }
    total.class_n("replay_files", replayed);

    // ---- 2. exhaustive sub-spaces (parallel, seed independent)
    let n = nthreads();
    let stop = Arc::new(AtomicBool::new(false));
    if violations == 0 {
        if let Some(ex) = prop.exhaustive {
            let results: Vec<(Ctx, Verdict)> = std::thread::scope(|s| {
                let hs: Vec<_> = (0..n)
                    .map(|shard| {
                        std::thread::Builder::new()
                            .stack_size(64 << 20)
                            .spawn_scoped(s, move || {
                                let mut c = Ctx::new(tier, seed);
                                let v = run_guarded(|| ex(&mut c, shard, n), || json!({"phase": "exhaustive", "shard": shard}));
                                (c, v)
                            })
                            .unwrap()
                    })
                    .collect();
                hs.into_iter().map(|h| h.join().unwrap()).collect()
            });
            for (c, v) in results {
                total.merge(c);
                if let Err(f) = v {
                    if f.harness_fault {
                        faults.push(f.detail.clone());
                    } else if violations == 0 {
                        violations += 1;
                        report_violation(prop, None, &f);
                    }
                }
            }
        }
    }

    // ---- 3. random tier through proptest (parallel shards, seeded)
    let cases = (prop.random_cases)(tier);
    if violations == 0 && cases > 0 {
        let per = cases.div_ceil(n as u64);
        let first_fail: Arc<Mutex<Option<(Vec<u16>, Failure)>>> = Arc::new(Mutex::new(None));
        // only the first shard that fails shrinks; the others stop
        let owner = Arc::new(std::sync::atomic::AtomicUsize::new(usize::MAX));
        let results: Vec<Ctx> = std::thread::scope(|s| {
            let hs: Vec<_> = (0..n)
                .map(|shard| {
                    let stop = stop.clone();
                    let first_fail = first_fail.clone();
                    let owner = owner.clone();
                    std::thread::Builder::new()
                        .stack_size(64 << 20)
                        .spawn_scoped(s, move || {
                            set_quiet_panics(true);
                            let mut c = Ctx::new(tier, seed);
                            let shard_seed = crate::tape::splitmix(seed ^ ((shard as u64 + 1) << 32) ^ hash_str(prop.id));
                            let cfg = Config {
                                cases: per as u32,
                                failure_persistence: None,
                                rng_seed: RngSeed::Fixed(shard_seed),
                                max_shrink_iters: 1500,
                                // wall clock bound on shrinking only: affects how small the counterexample gets, never the verdict
                                max_shrink_time: 40_000,
                                max_global_rejects: 10,
                                ..Config::default()
                            };
                            let mut runner = TestRunner::new(cfg);
                            // uniform tape length in 0..=len; an exhausted tape yields default choices, so
                            // short tapes are still meaningful cases and proptest can shrink the length freely
                            let strat = proptest::collection::vec(proptest::num::u16::ANY, 0..=prop.tape_len);
                            let cell = std::cell::RefCell::new(&mut c);
                            let last: std::cell::RefCell<Option<Failure>> = std::cell::RefCell::new(None);
                            let r = runner.run(&strat, |tape| {
                                if stop.load(Ordering::Relaxed) && !cell.borrow().frozen {
                                    return Ok(());
                                }
                                let mut g = cell.borrow_mut();
                                let run = prop.run_tape;
                                let v = run_guarded(|| run(&tape, &mut g), || json!({"tape": tape}));
                                match v {
                                    Ok(()) => Ok(()),
                                    Err(f) => {
                                        if !g.frozen {
                                            let me = owner.compare_exchange(usize::MAX, shard, Ordering::SeqCst, Ordering::SeqCst);
                                            stop.store(true, Ordering::Relaxed);
                                            if me.is_err() {
                                                // another shard already owns the failure: do not shrink here
                                                return Ok(());
                                            }
                                        }
                                        g.frozen = true;
                                        let d = f.detail.clone();
                                        *last.borrow_mut() = Some(f);
                                        Err(TestCaseError::fail(d))
                                    }
                                }
                            });
                            if let Err(TestError::Fail(_, tape)) = r {
                                stop.store(true, Ordering::Relaxed);
                                // re-run the minimal tape to get its failure record
                                let mut c2 = Ctx::new(tier, seed);
                                let run = prop.run_tape;
                                let f = match run_guarded(|| run(&tape, &mut c2), || json!({"tape": tape})) {
                                    Err(f) => f,
                                    Ok(()) => last.borrow_mut().take().unwrap_or_else(|| Failure::fault("failure vanished on re-run of the shrunk tape (non-deterministic case)")),
                                };
                                let mut g = first_fail.lock().unwrap();
                                if g.is_none() {
                                    *g = Some((tape, f));
                                }
                            } else if let Err(TestError::Abort(why)) = r {
                                c.notes.push(format!("proptest abort: {why}"));
                            }
                            c.frozen = false;
                            c
                        })
                        .unwrap()
                })
                .collect();
            hs.into_iter().map(|h| h.join().unwrap()).collect()
        });
        for c in results {
            total.merge(c);
        }
        let ff = first_fail.lock().unwrap().take();
        if let Some((tape, f)) = ff {
            if f.harness_fault {
                let p = write_replay(prop, Some(&tape), &f);
                faults.push(format!("{} (tape saved as {})", f.detail, p.display()));
            } else {
                violations += 1;
                report_violation(prop, Some(&tape), &f);
            }
        }
    }

    // ---- 4. extra phase
    if violations == 0 {
        if let Some(extra) = prop.extra {
            if let Err(f) = run_guarded(|| extra(&mut total), || json!({"phase": "extra"})) {
                if f.harness_fault {
                    faults.push(f.detail.clone());
                } else {
                    violations += 1;
                    report_violation(prop, None, &f);
                }
            }
        }
    }

    // ---- 5. vacuity guard
    if violations == 0 && faults.is_empty() {
        for (class, min_quick) in prop.min_classes {
            let have = total.classes.get(*class).copied().unwrap_or(0);
            if have < *min_quick {
                faults.push(format!("vacuity: class '{class}' seen {have} times, need >= {min_quick}"));
            }
        }
        if total.nontrivial.len() < 2 {
            faults.push(format!("vacuity: only {} distinct non-trivial cases", total.nontrivial.len()));
        }
    }

    // ---- evidence
    let wall = start.elapsed().as_secs_f64();
    write_evidence(prop, tier, seed, &total, wall, violations, &faults);

    for id in &total.known_hit {
        // findings met only during the search (no replay file listed): still say so once
        if let Some(k) = known_open().get(id) {
            if k.replay.is_none() {
                println!("KNOWN-FINDING: property={} {} [{}]", prop.id, k.what, k.id);
            }
        }
    }

    println!(
        "{} {}: evaluations={} distinct_nontrivial={} violations={} wall={:.1}s",
        prop.id,
        tier.name(),
        total.evaluations,
        total.nontrivial.len(),
        violations,
        wall
    );
    if violations > 0 {
        1
    } else if !faults.is_empty() {
        for f in &faults {
            println!("INCONCLUSIVE property={} {}", prop.id, f);
        }
        2
    } else {
        0
    }
}

fn write_evidence(prop: &PropDef, tier: Tier, seed: u64, c: &Ctx, wall: f64, violations: u32, faults: &[String]) {
    let dir = verif_root().join("evidence");
    let _ = std::fs::create_dir_all(&dir);
    let mut samples = c.samples.clone();
    if samples.is_empty() {
        samples.push(json!("no sample recorded"));
    }
    let doc = json!({
        "property_id": prop.id,
        "tier": tier.name(),
        "seed": seed,
        "level": "exploration",
        "coverage": {
            "evaluations": c.evaluations,
            "distinct_nontrivial": c.nontrivial.len(),
            "rule": prop.rule,
            "samples": samples,
            "exhaustive": false,
            "exhaustive_subspaces": c.exhaustive_subspaces,
            "classes": c.classes,
            "excluded_known": c.excluded_known,
            "fuzz": c.fuzz,
            "notes": c.notes,
            "inconclusive": faults,
        },
        "assumptions": prop.assumptions,
        "wall_s": wall,
        "violations": violations,
    });
    let p = dir.join(format!("{}.json", prop.id));
    let _ = std::fs::write(p, serde_json::to_string_pretty(&doc).unwrap());
}

/// single replay, strict (known findings are reported, not excluded)
pub fn run_replay(prop: &'static PropDef, path: &Path) -> i32 {
    let mut c = Ctx::new(Tier::Quick, 0);
    c.strict = true;
    match replay_file(prop, path, &mut c) {
        Ok(()) => {
            println!("replay {}: property held", path.display());
            0
        }
        Err(f) if f.harness_fault => {
            println!("INCONCLUSIVE property={} {}", prop.id, f.detail);
            2
        }
        Err(f) => {
            println!("VIOLATION property={} replay={}", prop.id, path.display());
            println!("  detail: {}", f.detail);
            println!("  case: {}", serde_json::to_string_pretty(&f.case).unwrap_or_default());
            1
        }
    }
}

pub fn hex(b: &[u8]) -> String {
    let mut s = String::with_capacity(b.len() * 2);
    for x in b {
        s.push_str(&format!("{:02x}", x));
    }
    s
}

pub fn unhex(s: &str) -> Vec<u8> {
    let s: Vec<u8> = s.bytes().filter(|b| b.is_ascii_hexdigit()).collect();
    s.chunks(2)
        .filter(|c| c.len() == 2)
        .map(|c| u8::from_str_radix(std::str::from_utf8(c).unwrap(), 16).unwrap())
        .collect()
}

#[macro_export]
macro_rules! fail {
    ($case:expr, $($arg:tt)*) => {
        return Err($crate::runner::Failure::new(format!($($arg)*), $case))
    };
}

// ------------------------------------------------------------------------------------------------
// libFuzzer front end: the input bytes are the tape (two bytes per cell, little endian)

thread_local! {
    static FUZZ_CTX: std::cell::RefCell<Option<Ctx>> = const { std::cell::RefCell::new(None) };
}

/// run `f` with a long-lived per-thread Ctx (statistics are irrelevant while fuzzing); panics on a violation so that
/// libFuzzer saves the input. Known findings are tolerated exactly as in the checks; harness faults are ignored.
pub fn fuzz_with(f: impl FnOnce(&mut Ctx) -> Verdict) {
    FUZZ_CTX.with(|c| {
        let mut g = c.borrow_mut();
        if g.is_none() {
            install_panic_hook();
            *g = Some(Ctx::new(Tier::Thorough, 0));
        }
        let ctx = g.as_mut().unwrap();
        // keep memory bounded
        if ctx.nontrivial.len() > 100_000 {
            ctx.nontrivial.clear();
            ctx.samples.clear();
        }
        let r = run_guarded(|| f(ctx), || Value::Null);
        if let Err(fail) = r {
            if !fail.harness_fault {
                drop(g);
                panic!("VIOLATION {} case {}", fail.detail, serde_json::to_string(&fail.case).unwrap_or_default());
            }
        }
    });
}

pub fn fuzz_tape(prop: &'static PropDef, data: &[u8]) {
    let tape: Vec<u16> = data.chunks(2).map(|c| u16::from_le_bytes([c[0], *c.get(1).unwrap_or(&0)])).collect();
    let run = prop.run_tape;
    fuzz_with(|ctx| run(&tape, ctx));
}
