//! Choice tape: every generated case is a pure function of a `&[u16]`.
//!
//! * proptest front end: `vec(any::<u16>(), 0..=LEN)`; proptest's own shrinking (delete cells,
//!   lower cells) shrinks scenarios towards shorter / more default ones.
//! * libFuzzer front end: the input bytes are the tape (two bytes per cell, little endian).
//! * odometer front end: `Odometer` enumerates every combination of the `pick(n)` calls a
//!   generator makes (mixed radix counter), giving seed independent exhaustive tiers from the same
//!   generator code.
//!
//! All draws are monotone in the cell value (`cell * n >> 16`), an exhausted tape yields zeros.

#[derive(Clone)]
pub struct Tape<'a> {
    cells: &'a [u16],
    pos: usize,
    /// when enumerating: the radix of every draw made so far (recorded for the odometer)
    radices: Option<Vec<u32>>,
    /// when enumerating: digits to return instead of scaled cells
    digits: Option<&'a [u32]>,
    /// number of draws that found the tape exhausted
    pub starved: usize,
}

impl<'a> Tape<'a> {
    pub fn new(cells: &'a [u16]) -> Self {
        Tape { cells, pos: 0, radices: None, digits: None, starved: 0 }
    }

    pub fn from_digits(digits: &'a [u32]) -> Self {
        Tape { cells: &[], pos: 0, radices: Some(Vec::new()), digits: Some(digits), starved: 0 }
    }

    pub fn exhausted(&self) -> bool {
        self.pos >= self.cells.len() && self.digits.is_none()
    }

    pub fn position(&self) -> usize {
        self.pos
    }

    #[inline]
    fn cell(&mut self) -> Option<u16> {
        if self.pos < self.cells.len() {
            let c = self.cells[self.pos];
            self.pos += 1;
            Some(c)
        } else {
            self.pos += 1;
            self.starved += 1;
            None
        }
    }

    /// uniform choice in `0..n` (n >= 1); exhausted tape => 0
    #[inline]
    pub fn pick(&mut self, n: usize) -> usize {
        debug_assert!(n >= 1);
        if let Some(d) = self.digits {
            let i = self.pos;
            self.pos += 1;
            if let Some(r) = self.radices.as_mut() {
                r.push(n as u32);
            }
            let v = d.get(i).copied().unwrap_or(0) as usize;
            return v.min(n - 1);
        }
        if n <= 1 {
            // still consume nothing: a forced choice costs no cell
            return 0;
        }
        match self.cell() {
            Some(c) if n <= 65536 => ((c as usize) * n) >> 16,
            Some(c) => {
                // wide range: use two cells
                let lo = self.cell().unwrap_or(0) as u64;
                let x = ((c as u64) << 16) | lo;
                ((x as u128 * n as u128) >> 32) as usize
            }
            None => 0,
        }
    }

    /// scheduler draw: like `pick`, but an exhausted tape yields a rotating choice so that runs
    /// stay fair and terminate.
    #[inline]
    pub fn sched(&mut self, n: usize, rotor: &mut usize) -> usize {
        if n <= 1 {
            return 0;
        }
        if self.digits.is_some() {
            return self.pick(n);
        }
        if self.pos < self.cells.len() {
            self.pick(n)
        } else {
            *rotor = rotor.wrapping_add(1);
            *rotor % n
        }
    }

    pub fn bool(&mut self) -> bool {
        self.pick(2) == 1
    }

    /// true with probability num/den
    pub fn chance(&mut self, num: usize, den: usize) -> bool {
        self.pick(den) >= den - num
    }

    /// inclusive range
    pub fn int(&mut self, lo: u64, hi: u64) -> u64 {
        debug_assert!(lo <= hi);
        let span = hi - lo;
        if span == 0 {
            return lo;
        }
        if span < 65536 {
            lo + self.pick(span as usize + 1) as u64
        } else if span < u32::MAX as u64 {
            lo + self.pick(span as usize + 1) as u64
        } else {
            // 64-bit: four cells
            let mut x: u64 = 0;
            for _ in 0..4 {
                x = (x << 16) | self.pick(65536) as u64;
            }
            if span == u64::MAX {
                x
            } else {
                lo + ((x as u128 * (span as u128 + 1)) >> 64) as u64
            }
        }
    }

    pub fn u8(&mut self) -> u8 {
        self.pick(256) as u8
    }

    pub fn u64(&mut self) -> u64 {
        self.int(0, u64::MAX)
    }

    /// index by weights
    pub fn weighted(&mut self, weights: &[u32]) -> usize {
        let total: u32 = weights.iter().sum();
        let mut x = self.pick(total as usize) as u32;
        for (i, w) in weights.iter().enumerate() {
            if x < *w {
                return i;
            }
            x -= *w;
        }
        weights.len() - 1
    }

    pub fn choose<'b, T>(&mut self, items: &'b [T]) -> &'b T {
        &items[self.pick(items.len())]
    }

    /// up to `max` bytes, one cell per byte (for short, structure-relevant strings)
    pub fn bytes(&mut self, max: usize) -> Vec<u8> {
        let n = self.pick(max + 1);
        (0..n).map(|_| self.u8()).collect()
    }

    /// `n` bytes expanded from ONE cell by a fixed PRF (bulk payloads)
    pub fn bulk(&mut self, n: usize) -> Vec<u8> {
        let seed = self.pick(65536) as u64;
        prf_bytes(seed, n)
    }
}

/// splitmix64 based deterministic byte expansion
pub fn prf_bytes(seed: u64, n: usize) -> Vec<u8> {
    let mut out = Vec::with_capacity(n);
    let mut s = seed.wrapping_mul(0x9E37_79B9_7F4A_7C15).wrapping_add(0x1234_5678_9abc_def1);
    while out.len() < n {
        s = s.wrapping_add(0x9E37_79B9_7F4A_7C15);
        let mut z = s;
        z = (z ^ (z >> 30)).wrapping_mul(0xBF58_476D_1CE4_E5B9);
        z = (z ^ (z >> 27)).wrapping_mul(0x94D0_49BB_1331_11EB);
        z ^= z >> 31;
        for b in z.to_le_bytes() {
            if out.len() < n {
                out.push(b);
            }
        }
    }
    out
}

pub fn splitmix(x: u64) -> u64 {
    let mut z = x.wrapping_add(0x9E37_79B9_7F4A_7C15);
    z = (z ^ (z >> 30)).wrapping_mul(0xBF58_476D_1CE4_E5B9);
    z = (z ^ (z >> 27)).wrapping_mul(0x94D0_49BB_1331_11EB);
    z ^ (z >> 31)
}

/// Enumerates all digit vectors a generator can consume: call `run` repeatedly; the generator is
/// handed a tape whose `pick(n)` calls return the current digit and record `n`.
pub struct Odometer {
    digits: Vec<u32>,
    done: bool,
    pub count: u64,
    /// the first `fixed` digits are never advanced (enumerate only the subtree below that prefix)
    fixed: usize,
    /// set by the first step: does the prefix exist in the tree (every fixed digit below its radix)?
    pub prefix_valid: bool,
}

impl Odometer {
    pub fn new() -> Self {
        Odometer { digits: Vec::new(), done: false, count: 0, fixed: 0, prefix_valid: true }
    }

    /// enumerate only the choice sequences that start with `prefix`
    pub fn with_prefix(prefix: &[u32]) -> Self {
        Odometer { digits: prefix.to_vec(), done: false, count: 0, fixed: prefix.len(), prefix_valid: true }
    }

    /// Runs `f` with the current digit vector and advances. Returns None when the space is
    /// exhausted. `f` gets the tape and must make the same sequence of draws for the same digits.
    pub fn step<R>(&mut self, f: impl FnOnce(&mut Tape) -> R) -> Option<R> {
        if self.done {
            return None;
        }
        let digits = self.digits.clone();
        let mut tape = Tape::from_digits(&digits);
        let r = f(&mut tape);
        let radices = tape.radices.take().unwrap();
        self.count += 1;
        if self.count == 1 && self.fixed > 0 {
            // the prefix is a real path iff every fixed digit is below the radix met there (a run that made fewer
            // draws than the prefix is long only matches the all-zero continuation)
            for i in 0..self.fixed {
                let ok = match radices.get(i) {
                    Some(r) => digits[i] < *r,
                    None => digits[i] == 0,
                };
                if !ok {
                    self.prefix_valid = false;
                    self.done = true;
                    return Some(r);
                }
            }
        }
        // advance: digits padded with zeros to the number of draws made
        let mut d = digits;
        d.resize(radices.len(), 0);
        let mut i = d.len();
        loop {
            if i <= self.fixed {
                self.done = true;
                break;
            }
            i -= 1;
            if d[i] + 1 < radices[i] {
                d[i] += 1;
                d.truncate(i + 1);
                break;
            }
        }
        self.digits = d;
        Some(r)
    }

    pub fn current_digits(&self) -> &[u32] {
        &self.digits
    }
}

/// Turn a digit vector (as used by the odometer) into a tape of cells that reproduces the same
/// picks through `Tape::new` for radices <= 65536.
pub fn digits_to_cells(digits: &[u32], radices: &[u32]) -> Vec<u16> {
    digits
        .iter()
        .zip(radices)
        .filter(|(_, r)| **r > 1)
        .map(|(d, r)| {
            // smallest cell c with (c*r)>>16 == d
            let c = ((*d as u64) << 16).div_ceil(*r as u64);
            c.min(65535) as u16
        })
        .collect()
}

#[cfg(test)]
mod tests {
    use super::*;

    #[test]
    fn odometer_enumerates_product() {
        let mut o = Odometer::new();
        let mut seen = std::collections::BTreeSet::new();
        while let Some(v) = o.step(|t| {
            let a = t.pick(3);
            let b = if a == 1 { t.pick(2) } else { 0 };
            let c = t.pick(2);
            (a, b, c)
        }) {
            assert!(seen.insert(v));
        }
        assert_eq!(seen.len(), 2 + 4 + 2);
    }

    #[test]
    fn pick_monotone_and_in_range() {
        for n in [1usize, 2, 3, 7, 255, 256, 65536, 100000] {
            let mut last = 0;
            for c in (0..=65535u32).step_by(97) {
                let cells = [c as u16, 0];
                let mut t = Tape::new(&cells);
                let v = t.pick(n);
                assert!(v < n);
                assert!(v >= last);
                last = v;
            }
        }
    }

    #[test]
    fn digits_roundtrip() {
        let radices = [3u32, 1, 7, 65536, 2];
        let digits = [2u32, 0, 5, 40000, 1];
        let cells = digits_to_cells(&digits, &radices);
        let mut t = Tape::new(&cells);
        for (d, r) in digits.iter().zip(radices) {
            assert_eq!(t.pick(r as usize) as u32, *d);
        }
    }
}

/// a `Buf` made of several chunks (what h3 decodes from when the bytes arrived in several reads)
#[derive(Clone)]
pub struct Segs(pub std::collections::VecDeque<bytes::Bytes>);

impl Segs {
    /// `b` cut at the given offsets (empty segments are dropped, like a transport would)
    pub fn new(b: &[u8], cuts: &[usize]) -> Segs {
        let mut v = std::collections::VecDeque::new();
        let mut last = 0;
        for c in cuts.iter().copied().chain([b.len()]) {
            let c = c.min(b.len()).max(last);
            if c > last {
                v.push_back(bytes::Bytes::copy_from_slice(&b[last..c]));
            }
            last = c;
        }
        Segs(v)
    }
}

impl bytes::Buf for Segs {
    fn remaining(&self) -> usize {
        self.0.iter().map(|c| c.len()).sum()
    }
    fn chunk(&self) -> &[u8] {
        self.0.front().map(|c| &c[..]).unwrap_or(&[])
    }
    fn advance(&mut self, mut cnt: usize) {
        while cnt > 0 {
            let f = self.0.front_mut().expect("advance past the end");
            if cnt < f.len() {
                f.advance(cnt);
                return;
            }
            cnt -= f.len();
            self.0.pop_front();
        }
    }
}


impl Segs {
    /// everything that is left, as one vector
    pub fn drain_all(&self) -> Vec<u8> {
        self.0.iter().flat_map(|c| c.iter().copied()).collect()
    }
}

/// cut sets under which a decoder is re-run on `b` handed over in pieces: a pseudo-random pair of cuts derived from the
/// bytes themselves (every input gets one), every single cut for short inputs, one byte per chunk for inputs up to 24 bytes
pub fn cut_sets(b: &[u8]) -> Vec<Vec<usize>> {
    let n = b.len();
    let mut out = Vec::new();
    if n < 2 {
        return out;
    }
    let mut h = 0xcbf2_9ce4_8422_2325u64;
    for x in b.iter().take(64) {
        h = (h ^ *x as u64).wrapping_mul(0x100_0000_01b3);
    }
    let r = splitmix(h ^ n as u64);
    let (a, c) = ((r % n as u64) as usize, ((r >> 32) % (n as u64 + 1)) as usize);
    out.push(vec![a.min(c), a.max(c)]);
    if n <= 10 {
        for k in 1..n {
            out.push(vec![k]);
        }
    }
    if n <= 24 {
        out.push((1..n).collect());
    }
    out
}

/// deterministic pseudo-random tape (used by exhaustive tiers that want varied but seed independent schedules)
pub fn prf_cells(seed: u64, n: usize) -> Vec<u16> {
    let b = prf_bytes(seed, n * 2);
    b.chunks(2).map(|c| u16::from_le_bytes([c[0], c[1]])).collect()
}
