//! RFC 9204 reference for field sections that use only the static table and literals
//! (dynamic table capacity 0), plus the RFC 7541 section 5.1 / 5.2 primitives.
//! Shares no code and no tables with /repo.

use super::huffman::{self, HuffErr};

/// RFC 9204 Appendix A, typed in from the RFC text.
pub static STATIC_TABLE: [(&str, &str); 99] = [
    (":authority", ""),
    (":path", "/"),
    ("age", "0"),
    ("content-disposition", ""),
    ("content-length", "0"),
    ("cookie", ""),
    ("date", ""),
    ("etag", ""),
    ("if-modified-since", ""),
    ("if-none-match", ""),
    ("last-modified", ""),
    ("link", ""),
    ("location", ""),
    ("referer", ""),
    ("set-cookie", ""),
    (":method", "CONNECT"),
    (":method", "DELETE"),
    (":method", "GET"),
    (":method", "HEAD"),
    (":method", "OPTIONS"),
    (":method", "POST"),
    (":method", "PUT"),
    (":scheme", "http"),
    (":scheme", "https"),
    (":status", "103"),
    (":status", "200"),
    (":status", "304"),
    (":status", "404"),
    (":status", "503"),
    ("accept", "*/*"),
    ("accept", "application/dns-message"),
    ("accept-encoding", "gzip, deflate, br"),
    ("accept-ranges", "bytes"),
    ("access-control-allow-headers", "cache-control"),
    ("access-control-allow-headers", "content-type"),
    ("access-control-allow-origin", "*"),
    ("cache-control", "max-age=0"),
    ("cache-control", "max-age=2592000"),
    ("cache-control", "max-age=604800"),
    ("cache-control", "no-cache"),
    ("cache-control", "no-store"),
    ("cache-control", "public, max-age=31536000"),
    ("content-encoding", "br"),
    ("content-encoding", "gzip"),
    ("content-type", "application/dns-message"),
    ("content-type", "application/javascript"),
    ("content-type", "application/json"),
    ("content-type", "application/x-www-form-urlencoded"),
    ("content-type", "image/gif"),
    ("content-type", "image/jpeg"),
    ("content-type", "image/png"),
    ("content-type", "text/css"),
    ("content-type", "text/html; charset=utf-8"),
    ("content-type", "text/plain"),
    ("content-type", "text/plain;charset=utf-8"),
    ("range", "bytes=0-"),
    ("strict-transport-security", "max-age=31536000"),
    ("strict-transport-security", "max-age=31536000; includesubdomains"),
    ("strict-transport-security", "max-age=31536000; includesubdomains; preload"),
    ("vary", "accept-encoding"),
    ("vary", "origin"),
    ("x-content-type-options", "nosniff"),
    ("x-xss-protection", "1; mode=block"),
    (":status", "100"),
    (":status", "204"),
    (":status", "206"),
    (":status", "302"),
    (":status", "400"),
    (":status", "403"),
    (":status", "421"),
    (":status", "425"),
    (":status", "500"),
    ("accept-language", ""),
    ("access-control-allow-credentials", "FALSE"),
    ("access-control-allow-credentials", "TRUE"),
    ("access-control-allow-headers", "*"),
    ("access-control-allow-methods", "get"),
    ("access-control-allow-methods", "get, post, options"),
    ("access-control-allow-methods", "options"),
    ("access-control-expose-headers", "content-length"),
    ("access-control-request-headers", "content-type"),
    ("access-control-request-method", "get"),
    ("access-control-request-method", "post"),
    ("alt-svc", "clear"),
    ("authorization", ""),
    ("content-security-policy", "script-src 'none'; object-src 'none'; base-uri 'none'"),
    ("early-data", "1"),
    ("expect-ct", ""),
    ("forwarded", ""),
    ("if-range", ""),
    ("origin", ""),
    ("purpose", "prefetch"),
    ("server", ""),
    ("timing-allow-origin", "*"),
    ("upgrade-insecure-requests", "1"),
    ("user-agent", ""),
    ("x-forwarded-for", ""),
    ("x-frame-options", "deny"),
    ("x-frame-options", "sameorigin"),
];

pub type Field = (Vec<u8>, Vec<u8>);

pub fn static_find(name: &[u8], value: &[u8]) -> Vec<usize> {
    STATIC_TABLE
        .iter()
        .enumerate()
        .filter(|(_, (n, v))| n.as_bytes() == name && v.as_bytes() == value)
        .map(|(i, _)| i)
        .collect()
}

pub fn static_find_name(name: &[u8]) -> Vec<usize> {
    STATIC_TABLE.iter().enumerate().filter(|(_, (n, _))| n.as_bytes() == name).map(|(i, _)| i).collect()
}

/// RFC 9114 4.2.2 / RFC 9204: size of a field section
pub fn section_size(fields: &[Field]) -> u64 {
    fields.iter().map(|(n, v)| n.len() as u64 + v.len() as u64 + 32).sum()
}

// ------------------------------------------------------------------------------------------------
// prefixed integers (RFC 7541 5.1)

/// encode `value` with an N-bit prefix; `flags` are the bits above the prefix (already positioned in
/// the low 8-N bits); `redundant` extra continuation groups of zero are appended when the value
/// uses the multi-byte form (legal, non-minimal).
pub fn put_int(out: &mut Vec<u8>, n: u8, flags: u8, value: u64, redundant: usize) {
    debug_assert!((1..=8).contains(&n));
    let mask: u64 = (1u64 << n) - 1;
    let fl = if n == 8 { 0 } else { ((flags as u16) << n) as u8 };
    if value < mask {
        out.push(fl | value as u8);
        return;
    }
    out.push(fl | mask as u8);
    let mut rem = value - mask;
    let mut groups = Vec::new();
    loop {
        groups.push((rem & 0x7f) as u8);
        rem >>= 7;
        if rem == 0 {
            break;
        }
    }
    for _ in 0..redundant {
        groups.push(0);
    }
    let last = groups.len() - 1;
    for (i, g) in groups.iter().enumerate() {
        out.push(if i == last { *g } else { g | 0x80 });
    }
}

#[derive(Debug, Clone, Copy, PartialEq, Eq)]
pub struct IntDec {
    pub flags: u8,
    /// exact value, saturated at u128::MAX
    pub value: u128,
    pub used: usize,
    /// number of continuation bytes
    pub cont: usize,
}

/// None = truncated
pub fn get_int(b: &[u8], n: u8) -> Option<IntDec> {
    let first = *b.first()?;
    let mask: u16 = (1u16 << n) - 1;
    let flags = if n == 8 { 0 } else { first >> n };
    let p = (first as u16 & mask) as u128;
    if p < mask as u128 {
        return Some(IntDec { flags, value: p, used: 1, cont: 0 });
    }
    let mut value: u128 = p;
    let mut shift = 0u32;
    let mut i = 1;
    loop {
        let byte = *b.get(i)?;
        i += 1;
        let add = if shift >= 120 {
            if byte & 0x7f != 0 {
                u128::MAX
            } else {
                0
            }
        } else {
            ((byte & 0x7f) as u128) << shift
        };
        value = value.saturating_add(add);
        shift = shift.saturating_add(7);
        if byte & 0x80 == 0 {
            break;
        }
    }
    Some(IntDec { flags, value, used: i, cont: i - 1 })
}

// ------------------------------------------------------------------------------------------------
// string literals (RFC 7541 5.2) with an (n)-bit length prefix, H flag right above it

pub fn put_string(out: &mut Vec<u8>, n: u8, upper_flags: u8, s: &[u8], huffman: bool, redundant: usize) {
    let h = if huffman { 1 } else { 0 };
    let flags = (upper_flags << 1) | h;
    if huffman {
        let enc = huffman::encode(s);
        put_int(out, n, flags, enc.len() as u64, redundant);
        out.extend_from_slice(&enc);
    } else {
        put_int(out, n, flags, s.len() as u64, redundant);
        out.extend_from_slice(s);
    }
}

#[derive(Debug, Clone, PartialEq, Eq)]
pub enum QErr {
    Truncated,
    /// integer beyond 62 bits (implementation range per RFC 9204 4.1.1) where it matters
    IntTooLarge,
    NonZeroRequiredInsertCount,
    NegativeBase,
    DynamicReference,
    PostBaseReference,
    StaticIndex(u128),
    Huffman(HuffErr),
}

/// string with n-bit length prefix (H bit above). Returns (upper flags, string, used)
pub fn get_string(b: &[u8], n: u8) -> Result<(u8, Vec<u8>, usize), QErr> {
    get_string_opts(b, n, false)
}

/// `lenient_long_padding` mirrors the known finding D9b (all-ones padding of 8 or more bits is
/// taken as padding); it is only used to keep searching behind that finding.
pub fn get_string_opts(b: &[u8], n: u8, lenient_long_padding: bool) -> Result<(u8, Vec<u8>, usize), QErr> {
    let d = get_int(b, n).ok_or(QErr::Truncated)?;
    let h = d.flags & 1 == 1;
    let upper = d.flags >> 1;
    let len = d.value;
    let rest = &b[d.used..];
    if len > rest.len() as u128 {
        return Err(QErr::Truncated);
    }
    let len = len as usize;
    let payload = &rest[..len];
    let s = if h {
        let dd = huffman::decode_detail(payload);
        match dd.result {
            Ok(s) => s,
            Err(_) if lenient_long_padding && dd.tail_all_ones && dd.tail_bits >= 8 => dd.prefix,
            Err(e) => return Err(QErr::Huffman(e)),
        }
    } else {
        payload.to_vec()
    };
    Ok((upper, s, d.used + len))
}

// ------------------------------------------------------------------------------------------------
// field sections, capacity 0

/// Decode an encoded field section under dynamic table capacity 0 (RFC 9204 section 4.5).
pub fn decode_section(b: &[u8]) -> Result<Vec<Field>, QErr> {
    decode_section_opts(b, false)
}

pub fn decode_section_opts(b: &[u8], lenient: bool) -> Result<Vec<Field>, QErr> {
    // prefix
    let ric = get_int(b, 8).ok_or(QErr::Truncated)?;
    let rest = &b[ric.used..];
    let db = get_int(rest, 7).ok_or(QErr::Truncated)?;
    if ric.value != 0 {
        // MaxEntries = 0: every non-zero encoded Required Insert Count is invalid
        return Err(QErr::NonZeroRequiredInsertCount);
    }
    if db.flags & 1 == 1 {
        // Base = ReqInsertCount - DeltaBase - 1 < 0
        return Err(QErr::NegativeBase);
    }
    let mut pos = ric.used + db.used;
    let mut out = Vec::new();
    while pos < b.len() {
        let first = b[pos];
        let r = &b[pos..];
        if first & 0x80 != 0 {
            // indexed field line: 1 T index(6+)
            let d = get_int(r, 6).ok_or(QErr::Truncated)?;
            if d.flags & 1 == 0 {
                return Err(QErr::DynamicReference);
            }
            if d.value >= 99 {
                return Err(QErr::StaticIndex(d.value));
            }
            let (n, v) = STATIC_TABLE[d.value as usize];
            out.push((n.as_bytes().to_vec(), v.as_bytes().to_vec()));
            pos += d.used;
        } else if first & 0xc0 == 0x40 {
            // literal with name reference: 01 N T index(4+)
            let d = get_int(r, 4).ok_or(QErr::Truncated)?;
            if d.flags & 1 == 0 {
                return Err(QErr::DynamicReference);
            }
            if d.value >= 99 {
                return Err(QErr::StaticIndex(d.value));
            }
            let (_, v, used) = get_string_opts(&r[d.used..], 7, lenient)?;
            out.push((STATIC_TABLE[d.value as usize].0.as_bytes().to_vec(), v));
            pos += d.used + used;
        } else if first & 0xe0 == 0x20 {
            // literal with literal name: 001 N H namelen(3+)
            let (_, name, used) = get_string_opts(r, 3, lenient)?;
            let (_, value, used2) = get_string_opts(&r[used..], 7, lenient)?;
            out.push((name, value));
            pos += used + used2;
        } else if first & 0xf0 == 0x10 {
            return Err(QErr::PostBaseReference);
        } else {
            return Err(QErr::PostBaseReference);
        }
    }
    Ok(out)
}

/// How one field line is spelled by the reference encoder.
#[derive(Debug, Clone, Copy, PartialEq, Eq)]
pub enum Spelling {
    /// indexed static (only when name+value are in the table); which of the matching entries
    Indexed { which: usize, redundant: usize },
    /// literal value with static name reference
    NameRef { which: usize, never_index: bool, huff_value: bool, redundant: usize },
    /// literal name and value
    Literal { never_index: bool, huff_name: bool, huff_value: bool, redundant: usize },
}

/// Encode one field line; falls back to the next more general spelling when the requested one is
/// not applicable. Returns the spelling actually used.
pub fn put_field(out: &mut Vec<u8>, f: &Field, sp: Spelling) -> Spelling {
    match sp {
        Spelling::Indexed { which, redundant } => {
            let m = static_find(&f.0, &f.1);
            if m.is_empty() {
                return put_field(out, f, Spelling::NameRef { which, never_index: false, huff_value: redundant % 2 == 0, redundant });
            }
            let idx = m[which % m.len()];
            put_int(out, 6, 0b11, idx as u64, redundant);
            Spelling::Indexed { which: which % m.len(), redundant }
        }
        Spelling::NameRef { which, never_index, huff_value, redundant } => {
            let m = static_find_name(&f.0);
            if m.is_empty() {
                return put_field(out, f, Spelling::Literal { never_index, huff_name: huff_value, huff_value, redundant });
            }
            let idx = m[which % m.len()];
            let flags = 0b0100 | if never_index { 0b0010 } else { 0 } | 0b0001;
            put_int(out, 4, flags, idx as u64, redundant);
            put_string(out, 7, 0, &f.1, huff_value, redundant);
            Spelling::NameRef { which: which % m.len(), never_index, huff_value, redundant }
        }
        Spelling::Literal { never_index, huff_name, huff_value, redundant } => {
            // 001 N H len(3+)
            let upper = 0b0010 | if never_index { 1 } else { 0 };
            put_string(out, 3, upper, &f.0, huff_name, redundant);
            put_string(out, 7, 0, &f.1, huff_value, redundant);
            Spelling::Literal { never_index, huff_name, huff_value, redundant }
        }
    }
}

/// section prefix for capacity 0: Required Insert Count 0, S = 0, Delta Base `delta_base`
pub fn put_prefix(out: &mut Vec<u8>, delta_base: u64, redundant: usize) {
    out.push(0);
    put_int(out, 7, 0, delta_base, redundant);
}

/// plain reference encoding: prefix 00 00 and for every field the most specific spelling, no huffman
pub fn encode_section_simple(fields: &[Field]) -> Vec<u8> {
    let mut out = Vec::new();
    put_prefix(&mut out, 0, 0);
    for f in fields {
        put_field(&mut out, f, Spelling::Indexed { which: 0, redundant: 0 });
    }
    out
}

pub fn encode_section_literal(fields: &[Field], huffman: bool) -> Vec<u8> {
    let mut out = Vec::new();
    put_prefix(&mut out, 0, 0);
    for f in fields {
        put_field(&mut out, f, Spelling::Literal { never_index: false, huff_name: huffman, huff_value: huffman, redundant: 0 });
    }
    out
}

pub fn selftest() -> bool {
    // RFC 7541 C.1 integer examples
    let mut o = Vec::new();
    put_int(&mut o, 5, 0, 10, 0);
    if o != [0x0a] {
        return false;
    }
    o.clear();
    put_int(&mut o, 5, 0, 1337, 0);
    if o != [0x1f, 0x9a, 0x0a] {
        return false;
    }
    o.clear();
    put_int(&mut o, 8, 0, 42, 0);
    if o != [0x2a] {
        return false;
    }
    if get_int(&[0x1f, 0x9a, 0x0a], 5) != Some(IntDec { flags: 0, value: 1337, used: 3, cont: 2 }) {
        return false;
    }
    if get_int(&[0x1f, 0x9a], 5).is_some() {
        return false;
    }
    // redundant encodings decode to the same value
    o.clear();
    put_int(&mut o, 5, 0, 1337, 2);
    if get_int(&o, 5).map(|d| d.value) != Some(1337) || o.len() != 5 {
        return false;
    }
    // RFC 9204 B.1: literal field line with name reference, static table
    //   0000 | 00 00 | 51 0b 2f 69 6e 64 65 78 2e 68 74 6d 6c
    let b1 = [0x00, 0x00, 0x51, 0x0b, 0x2f, 0x69, 0x6e, 0x64, 0x65, 0x78, 0x2e, 0x68, 0x74, 0x6d, 0x6c];
    match decode_section(&b1) {
        Ok(f) if f == vec![(b":path".to_vec(), b"/index.html".to_vec())] => {}
        _ => return false,
    }
    // every spelling round-trips through the reference decoder
    let fields: Vec<Field> = vec![
        (b":method".to_vec(), b"GET".to_vec()),
        (b":path".to_vec(), b"/x?y=1".to_vec()),
        (b"x-custom".to_vec(), vec![0, 1, 2, 200, 255]),
        (b"accept".to_vec(), b"*/*".to_vec()),
        (b"".to_vec(), b"".to_vec()),
    ];
    for red in 0..3 {
        for k in 0..8u8 {
            let mut out = Vec::new();
            put_prefix(&mut out, k as u64 * 50, red);
            for f in &fields {
                let sp = match k % 3 {
                    0 => Spelling::Indexed { which: k as usize, redundant: red },
                    1 => Spelling::NameRef { which: k as usize, never_index: k & 4 != 0, huff_value: k & 2 != 0, redundant: red },
                    _ => Spelling::Literal { never_index: k & 4 != 0, huff_name: k & 1 != 0, huff_value: k & 2 != 0, redundant: red },
                };
                put_field(&mut out, f, sp);
            }
            if decode_section(&out).ok().as_ref() != Some(&fields) {
                return false;
            }
        }
    }
    if decode_section(&[0x05, 0x80, 0xd1]) != Err(QErr::NonZeroRequiredInsertCount) {
        return false;
    }
    if decode_section(&[0x00, 0x80, 0xd1]) != Err(QErr::NegativeBase) {
        return false;
    }
    if !matches!(decode_section(&[0x00, 0x00, 0xff, 0x24]), Err(QErr::StaticIndex(99))) {
        return false;
    }
    if decode_section(&[0x00, 0x00, 0x80]) != Err(QErr::DynamicReference) {
        return false;
    }
    if decode_section(&[0x00, 0x00, 0x10]) != Err(QErr::PostBaseReference) {
        return false;
    }
    section_size(&fields) == (7 + 3 + 32) + (5 + 6 + 32) + (8 + 5 + 32) + (6 + 3 + 32) + 32
}
