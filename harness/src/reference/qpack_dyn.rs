//! RFC 9204 reference decoder WITH a dynamic table (encoder stream instructions, Required Insert
//! Count reconstruction, absolute / relative / post-base indexing). Used by C20 only.

use std::collections::VecDeque;

use super::qpack::{get_int, get_string, Field, STATIC_TABLE};

#[derive(Debug, Clone, PartialEq, Eq)]
pub enum DynErr {
    Truncated,
    BadInstruction(u8),
    CapacityExceeded,
    EntryTooLarge,
    BadRelativeIndex(u128),
    BadStaticIndex(u128),
    RequiredInsertCount(&'static str),
    NegativeBase,
    /// the section needs more insertions than have been applied: blocked
    Blocked { required: u64, have: u64 },
    BadReference { abs: i128, why: &'static str },
    String,
}

#[derive(Debug, Clone)]
pub struct RefTable {
    /// front = oldest
    pub entries: VecDeque<Field>,
    pub inserted: u64,
    pub dropped: u64,
    pub capacity: u64,
    /// upper bound for the capacity (SETTINGS_QPACK_MAX_TABLE_CAPACITY), used for MaxEntries
    pub max_capacity: u64,
    pub size: u64,
}

fn entry_size(f: &Field) -> u64 {
    f.0.len() as u64 + f.1.len() as u64 + 32
}

#[derive(Debug, Clone, PartialEq, Eq)]
pub enum Applied {
    Capacity(u64),
    /// new absolute index, evicted absolute indices
    Insert { abs: u64, evicted: Vec<u64>, entry: Field },
}

impl RefTable {
    pub fn new(capacity: u64) -> Self {
        RefTable { entries: VecDeque::new(), inserted: 0, dropped: 0, capacity, max_capacity: capacity, size: 0 }
    }

    pub fn get_abs(&self, abs: u64) -> Option<&Field> {
        if abs < self.dropped || abs >= self.inserted {
            return None;
        }
        self.entries.get((abs - self.dropped) as usize)
    }

    fn evict_to(&mut self, limit: u64) -> Vec<u64> {
        let mut ev = Vec::new();
        while self.size > limit {
            let Some(f) = self.entries.pop_front() else { break };
            self.size -= entry_size(&f);
            ev.push(self.dropped);
            self.dropped += 1;
        }
        ev
    }

    fn insert(&mut self, f: Field) -> Result<Applied, DynErr> {
        let sz = entry_size(&f);
        if sz > self.capacity {
            return Err(DynErr::EntryTooLarge);
        }
        let evicted = self.evict_to(self.capacity - sz);
        self.entries.push_back(f.clone());
        self.size += sz;
        let abs = self.inserted;
        self.inserted += 1;
        Ok(Applied::Insert { abs, evicted, entry: f })
    }

    /// Parse and apply ONE encoder stream instruction from `b`. Ok(None) = incomplete (need more bytes).
    pub fn apply_instruction(&mut self, b: &[u8]) -> Result<Option<(usize, Applied)>, DynErr> {
        let Some(&first) = b.first() else { return Ok(None) };
        let trunc = |e: super::qpack::QErr| if e == super::qpack::QErr::Truncated { None } else { Some(DynErr::String) };
        if first & 0x80 != 0 {
            // insert with name reference: 1 T idx(6+)
            let Some(d) = get_int(b, 6) else { return Ok(None) };
            let name = if d.flags & 1 == 1 {
                if d.value >= 99 {
                    return Err(DynErr::BadStaticIndex(d.value));
                }
                STATIC_TABLE[d.value as usize].0.as_bytes().to_vec()
            } else {
                // relative to the insert count: 0 = most recently inserted
                if d.value >= (self.inserted - self.dropped) as u128 {
                    return Err(DynErr::BadRelativeIndex(d.value));
                }
                let abs = self.inserted - 1 - d.value as u64;
                self.get_abs(abs).ok_or(DynErr::BadRelativeIndex(d.value))?.0.clone()
            };
            match get_string(&b[d.used..], 7) {
                Ok((_, v, used)) => Ok(Some((d.used + used, self.insert((name, v))?))),
                Err(e) => match trunc(e) {
                    None => Ok(None),
                    Some(e) => Err(e),
                },
            }
        } else if first & 0x40 != 0 {
            // insert with literal name: 01 H len(5+)
            let (_, name, used) = match get_string(b, 5) {
                Ok(x) => x,
                Err(e) => {
                    return match trunc(e) {
                        None => Ok(None),
                        Some(e) => Err(e),
                    }
                }
            };
            match get_string(&b[used..], 7) {
                Ok((_, v, used2)) => Ok(Some((used + used2, self.insert((name, v))?))),
                Err(e) => match trunc(e) {
                    None => Ok(None),
                    Some(e) => Err(e),
                },
            }
        } else if first & 0x20 != 0 {
            // set dynamic table capacity: 001 cap(5+)
            let Some(d) = get_int(b, 5) else { return Ok(None) };
            if d.value > self.max_capacity as u128 {
                return Err(DynErr::CapacityExceeded);
            }
            self.capacity = d.value as u64;
            self.evict_to(self.capacity);
            Ok(Some((d.used, Applied::Capacity(self.capacity))))
        } else {
            // duplicate: 000 idx(5+)
            let Some(d) = get_int(b, 5) else { return Ok(None) };
            if d.value >= (self.inserted - self.dropped) as u128 {
                return Err(DynErr::BadRelativeIndex(d.value));
            }
            let abs = self.inserted - 1 - d.value as u64;
            let f = self.get_abs(abs).ok_or(DynErr::BadRelativeIndex(d.value))?.clone();
            Ok(Some((d.used, self.insert(f)?)))
        }
    }

    /// Decode a field section against the current table. Returns the fields and the absolute
    /// indices it references.
    pub fn decode_section(&self, b: &[u8]) -> Result<(Vec<Field>, Vec<u64>, u64), DynErr> {
        let ric_enc = get_int(b, 8).ok_or(DynErr::Truncated)?;
        let db = get_int(&b[ric_enc.used..], 7).ok_or(DynErr::Truncated)?;
        let max_entries = self.max_capacity / 32;
        let ric: u64 = if ric_enc.value == 0 {
            0
        } else {
            if max_entries == 0 {
                return Err(DynErr::RequiredInsertCount("non-zero with MaxEntries 0"));
            }
            let full = 2 * max_entries as u128;
            if ric_enc.value > full {
                return Err(DynErr::RequiredInsertCount("encoded value above FullRange"));
            }
            let max_value = self.inserted as u128 + max_entries as u128;
            let max_wrapped = (max_value / full) * full;
            let mut r = max_wrapped + ric_enc.value - 1;
            if r > max_value {
                if r <= full {
                    return Err(DynErr::RequiredInsertCount("wraps below zero"));
                }
                r -= full;
            }
            if r == 0 {
                return Err(DynErr::RequiredInsertCount("decodes to zero"));
            }
            r as u64
        };
        let base: i128 = if db.flags & 1 == 0 { ric as i128 + db.value as i128 } else { ric as i128 - db.value as i128 - 1 };
        if base < 0 {
            return Err(DynErr::NegativeBase);
        }
        if ric > self.inserted {
            return Err(DynErr::Blocked { required: ric, have: self.inserted });
        }
        let mut refs = Vec::new();
        let mut out = Vec::new();
        let mut pos = ric_enc.used + db.used;
        let lookup = |abs: i128, refs: &mut Vec<u64>| -> Result<Field, DynErr> {
            if abs < 0 || abs >= ric as i128 {
                return Err(DynErr::BadReference { abs, why: "not below the Required Insert Count" });
            }
            match self.get_abs(abs as u64) {
                Some(f) => {
                    refs.push(abs as u64);
                    Ok(f.clone())
                }
                None => Err(DynErr::BadReference { abs, why: "entry was evicted or never inserted" }),
            }
        };
        let s = |e: super::qpack::QErr| if e == super::qpack::QErr::Truncated { DynErr::Truncated } else { DynErr::String };
        while pos < b.len() {
            let first = b[pos];
            let r = &b[pos..];
            if first & 0x80 != 0 {
                let d = get_int(r, 6).ok_or(DynErr::Truncated)?;
                if d.flags & 1 == 1 {
                    if d.value >= 99 {
                        return Err(DynErr::BadStaticIndex(d.value));
                    }
                    let (n, v) = STATIC_TABLE[d.value as usize];
                    out.push((n.as_bytes().to_vec(), v.as_bytes().to_vec()));
                } else {
                    out.push(lookup(base - 1 - d.value as i128, &mut refs)?);
                }
                pos += d.used;
            } else if first & 0xc0 == 0x40 {
                let d = get_int(r, 4).ok_or(DynErr::Truncated)?;
                let name = if d.flags & 1 == 1 {
                    if d.value >= 99 {
                        return Err(DynErr::BadStaticIndex(d.value));
                    }
                    STATIC_TABLE[d.value as usize].0.as_bytes().to_vec()
                } else {
                    lookup(base - 1 - d.value as i128, &mut refs)?.0
                };
                let (_, v, used) = get_string(&r[d.used..], 7).map_err(s)?;
                out.push((name, v));
                pos += d.used + used;
            } else if first & 0xe0 == 0x20 {
                let (_, name, used) = get_string(r, 3).map_err(s)?;
                let (_, value, used2) = get_string(&r[used..], 7).map_err(s)?;
                out.push((name, value));
                pos += used + used2;
            } else if first & 0xf0 == 0x10 {
                let d = get_int(r, 4).ok_or(DynErr::Truncated)?;
                out.push(lookup(base + d.value as i128, &mut refs)?);
                pos += d.used;
            } else {
                let d = get_int(r, 3).ok_or(DynErr::Truncated)?;
                let name = lookup(base + d.value as i128, &mut refs)?.0;
                let (_, v, used) = get_string(&r[d.used..], 7).map_err(s)?;
                out.push((name, v));
                pos += d.used + used;
            }
        }
        refs.sort();
        refs.dedup();
        Ok((out, refs, ric))
    }
}

pub fn selftest() -> bool {
    // RFC 9204 Appendix B.2 - B.4 (dynamic table examples)
    let mut t = RefTable::new(220);
    t.max_capacity = 220;
    // B.2: encoder stream: 3fbd01 (capacity 220), c00f7777772e6578616d706c652e636f6d (:authority www.example.com), c10c2f73616d706c652f70617468 (:path /sample/path)
    let enc: Vec<u8> = [&[0x3f, 0xbd, 0x01][..], &[0xc0, 0x0f], b"www.example.com", &[0xc1, 0x0c], b"/sample/path"].concat();
    let mut pos = 0;
    while pos < enc.len() {
        match t.apply_instruction(&enc[pos..]) {
            Ok(Some((n, _))) => pos += n,
            _ => return false,
        }
    }
    if t.inserted != 2 || t.size != 106 {
        return false;
    }
    // section 0381 10 11: RIC=2, Base=0, post-base 0 and 1
    match t.decode_section(&[0x03, 0x81, 0x10, 0x11]) {
        Ok((f, refs, 2)) if f == vec![(b":authority".to_vec(), b"www.example.com".to_vec()), (b":path".to_vec(), b"/sample/path".to_vec())] && refs == vec![0, 1] => {}
        _ => return false,
    }
    // B.3: 4a637573746f6d2d6b65790c637573746f6d2d76616c7565 : insert custom-key custom-value
    let enc: Vec<u8> = [&[0x4a][..], b"custom-key", &[0x0c], b"custom-value"].concat();
    if !matches!(t.apply_instruction(&enc), Ok(Some((n, Applied::Insert { abs: 2, .. }))) if n == enc.len()) {
        return false;
    }
    // B.4: duplicate 02 -> :authority www.example.com again (relative 2 = abs 0)
    if !matches!(t.apply_instruction(&[0x02]), Ok(Some((1, Applied::Insert { abs: 3, .. })))) {
        return false;
    }
    if t.get_abs(3).map(|f| f.1.clone()) != Some(b"www.example.com".to_vec()) || t.size != 217 {
        return false;
    }
    // section 0500 80 c1 81: RIC=4, Base=4: dynamic 0 (abs 3), static 1, dynamic 1 (abs 2)
    match t.decode_section(&[0x05, 0x00, 0x80, 0xc1, 0x81]) {
        Ok((f, _, 4)) if f.len() == 3 && f[0].1 == b"www.example.com" && f[1] == (b":path".to_vec(), b"/".to_vec()) && f[2].0 == b"custom-key" => {}
        _ => return false,
    }
    // B.5: insert custom-key custom-value2 with name ref dynamic relative 0? (81 0d custom-value2) evicts entry 0
    let enc: Vec<u8> = [&[0x81, 0x0d][..], b"custom-value2"].concat();
    match t.apply_instruction(&enc) {
        Ok(Some((_, Applied::Insert { abs: 4, evicted, .. }))) if evicted == vec![0] => {}
        _ => return false,
    }
    t.size == 215 && matches!(t.decode_section(&[0x07, 0x00]), Err(DynErr::Blocked { required: 6, have: 5 }))
}
