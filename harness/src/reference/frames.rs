//! RFC 9114 section 7 reference: frame segmentation of a byte string, frame serializer.

use super::varint as rv;

pub const T_DATA: u64 = 0x0;
pub const T_HEADERS: u64 = 0x1;
pub const T_CANCEL_PUSH: u64 = 0x3;
pub const T_SETTINGS: u64 = 0x4;
pub const T_PUSH_PROMISE: u64 = 0x5;
pub const T_GOAWAY: u64 = 0x7;
pub const T_MAX_PUSH_ID: u64 = 0xd;
pub const T_WT_BIDI: u64 = 0x41;
pub const H2_RESERVED: [u64; 4] = [0x2, 0x6, 0x8, 0x9];

pub fn is_grease(v: u64) -> bool {
    v >= 0x21 && (v - 0x21) % 0x1f == 0
}

pub fn is_known(ty: u64) -> bool {
    matches!(ty, 0x0 | 0x1 | 0x3 | 0x4 | 0x5 | 0x7 | 0xd)
}

#[derive(Debug, Clone, PartialEq, Eq)]
pub enum Ev {
    /// complete DATA frame
    Data(Vec<u8>),
    /// DATA frame whose payload is cut by the end of the input: declared length, bytes present
    DataPartial(u64, Vec<u8>),
    Headers(Vec<u8>),
    CancelPush(u64),
    Settings(Vec<(u64, u64)>),
    PushPromise(u64, Vec<u8>),
    Goaway(u64),
    MaxPushId(u64),
    /// unknown (incl. reserved/grease) frame type skipped in full
    Skipped(u64, u64),
}

#[derive(Debug, Clone, Copy, PartialEq, Eq)]
pub enum ErrClass {
    /// RFC 9114 7.1: payload longer/shorter than its fields, or frame cut by the end of the stream => H3_FRAME_ERROR
    Layout,
    /// HTTP/2 reserved frame types 0x2, 0x6, 0x8, 0x9 => H3_FRAME_UNEXPECTED
    Forbidden,
    /// SETTINGS payload content (truncated entry, duplicate, reserved id): a connection error (C13 decides the code)
    Settings,
}

#[derive(Debug, Clone, PartialEq, Eq)]
pub enum End {
    /// input consumed exactly at a frame boundary
    Boundary,
    /// input ends inside a frame (header or payload); with end-of-stream this is a Layout error, on an open stream "need more"
    Inside,
    /// error raised by the frame that starts at `at` (complete frame unless `also_inside`)
    Error { classes: Vec<ErrClass>, at: usize },
}

#[derive(Debug, Clone)]
pub struct Seg {
    pub events: Vec<Ev>,
    pub end: End,
    /// a frame of type 0x41 (WebTransport pseudo frame without length) starts at a frame boundary: out of C02's scope
    pub has_wt: bool,
    /// offsets at which frames start (for classification)
    pub starts: Vec<usize>,
    /// offsets (start, header_end, frame_end) of every complete frame
    pub spans: Vec<(usize, usize, usize)>,
}

pub fn parse_settings(p: &[u8]) -> Result<Vec<(u64, u64)>, ()> {
    let mut out = Vec::new();
    let mut pos = 0;
    while pos < p.len() {
        let rv::Dec::Ok(id, n) = rv::decode(&p[pos..]) else { return Err(()) };
        pos += n;
        let rv::Dec::Ok(val, n) = rv::decode(&p[pos..]) else { return Err(()) };
        pos += n;
        out.push((id, val));
    }
    Ok(out)
}

/// Segment `b`. The result is independent of how `b` will be chunked.
pub fn segment(b: &[u8]) -> Seg {
    let mut events = Vec::new();
    let mut starts = Vec::new();
    let mut spans = Vec::new();
    let mut pos = 0;
    let mut has_wt = false;
    loop {
        if pos == b.len() {
            return Seg { events, end: End::Boundary, has_wt, starts, spans };
        }
        starts.push(pos);
        let start = pos;
        let rv::Dec::Ok(ty, n) = rv::decode(&b[pos..]) else {
            return Seg { events, end: End::Inside, has_wt, starts, spans };
        };
        if ty == T_WT_BIDI {
            has_wt = true;
            return Seg { events, end: End::Inside, has_wt, starts, spans };
        }
        let rv::Dec::Ok(len, m) = rv::decode(&b[pos + n..]) else {
            // header incomplete. An H2 reserved type is already recognisable.
            if H2_RESERVED.contains(&ty) {
                return Seg { events, end: End::Error { classes: vec![ErrClass::Forbidden, ErrClass::Layout], at: start }, has_wt, starts, spans };
            }
            return Seg { events, end: End::Inside, has_wt, starts, spans };
        };
        let hdr_end = pos + n + m;
        let avail = (b.len() - hdr_end) as u64;
        if len > avail {
            // frame cut by the end of the input
            if ty == T_DATA {
                events.push(Ev::DataPartial(len, b[hdr_end..].to_vec()));
            }
            if H2_RESERVED.contains(&ty) {
                return Seg { events, end: End::Error { classes: vec![ErrClass::Forbidden, ErrClass::Layout], at: start }, has_wt, starts, spans };
            }
            return Seg { events, end: End::Inside, has_wt, starts, spans };
        }
        let end = hdr_end + len as usize;
        let p = &b[hdr_end..end];
        spans.push((start, hdr_end, end));
        let one_varint = |p: &[u8]| -> Result<u64, ()> {
            match rv::decode(p) {
                rv::Dec::Ok(v, n) if n == p.len() => Ok(v),
                _ => Err(()),
            }
        };
        let err = |c: ErrClass, events: Vec<Ev>, starts: Vec<usize>, spans: Vec<(usize, usize, usize)>| Seg { events, end: End::Error { classes: vec![c], at: start }, has_wt, starts, spans };
        match ty {
            T_DATA => events.push(Ev::Data(p.to_vec())),
            T_HEADERS => events.push(Ev::Headers(p.to_vec())),
            T_CANCEL_PUSH => match one_varint(p) {
                Ok(v) => events.push(Ev::CancelPush(v)),
                Err(()) => return err(ErrClass::Layout, events, starts, spans),
            },
            T_GOAWAY => match one_varint(p) {
                Ok(v) => events.push(Ev::Goaway(v)),
                Err(()) => return err(ErrClass::Layout, events, starts, spans),
            },
            T_MAX_PUSH_ID => match one_varint(p) {
                Ok(v) => events.push(Ev::MaxPushId(v)),
                Err(()) => return err(ErrClass::Layout, events, starts, spans),
            },
            T_PUSH_PROMISE => match rv::decode(p) {
                rv::Dec::Ok(id, n) => events.push(Ev::PushPromise(id, p[n..].to_vec())),
                rv::Dec::Truncated => return err(ErrClass::Layout, events, starts, spans),
            },
            T_SETTINGS => match parse_settings(p) {
                Ok(s) => {
                    // content rules are C13's; here only "is it well formed enough to be a frame"
                    let mut seen = std::collections::BTreeSet::new();
                    let bad = s.iter().any(|(id, _)| matches!(id, 0x0 | 0x2 | 0x3 | 0x4 | 0x5) || (super::settings::is_known(*id) && !seen.insert(*id)));
                    if bad {
                        return err(ErrClass::Settings, events, starts, spans);
                    }
                    events.push(Ev::Settings(s));
                }
                Err(()) => {
                    return Seg { events, end: End::Error { classes: vec![ErrClass::Settings, ErrClass::Layout], at: start }, has_wt, starts, spans };
                }
            },
            t if H2_RESERVED.contains(&t) => return err(ErrClass::Forbidden, events, starts, spans),
            _ => events.push(Ev::Skipped(ty, len)),
        }
        pos = end;
    }
}

// ------------------------------------------------------------------------------------------------
// serializer (used by generators and by the raw peer)

/// frame with explicit varint forms for type and length and an explicitly declared length
pub fn put_frame_raw(out: &mut Vec<u8>, ty: u64, ty_form: usize, declared_len: u64, len_form: usize, payload: &[u8]) {
    rv::put_len(out, ty, ty_form.max(rv::min_len(ty).unwrap()));
    rv::put_len(out, declared_len, len_form.max(rv::min_len(declared_len).unwrap()));
    out.extend_from_slice(payload);
}

pub fn put_frame(out: &mut Vec<u8>, ty: u64, payload: &[u8]) {
    rv::put(out, ty);
    rv::put(out, payload.len() as u64);
    out.extend_from_slice(payload);
}

pub fn frame(ty: u64, payload: &[u8]) -> Vec<u8> {
    let mut o = Vec::new();
    put_frame(&mut o, ty, payload);
    o
}

pub fn varint_frame(ty: u64, v: u64) -> Vec<u8> {
    frame(ty, &rv::encode(v).unwrap())
}

pub fn settings_payload(entries: &[(u64, u64)]) -> Vec<u8> {
    let mut p = Vec::new();
    for (id, v) in entries {
        rv::put(&mut p, *id);
        rv::put(&mut p, *v);
    }
    p
}

pub fn settings_frame(entries: &[(u64, u64)]) -> Vec<u8> {
    frame(T_SETTINGS, &settings_payload(entries))
}

pub fn selftest() -> bool {
    // two frames then a partial one
    let mut b = frame(T_HEADERS, b"abc");
    b.extend(frame(0x21, b"grease"));
    b.extend(varint_frame(T_GOAWAY, 8));
    let s = segment(&b);
    if s.events != vec![Ev::Headers(b"abc".to_vec()), Ev::Skipped(0x21, 6), Ev::Goaway(8)] || s.end != End::Boundary {
        return false;
    }
    let s = segment(&[0x07, 0x03, 0x04, 0x00, 0x00]);
    if !matches!(s.end, End::Error { ref classes, .. } if classes == &[ErrClass::Layout]) {
        return false;
    }
    let s = segment(&[0x07, 0x00]);
    if !matches!(s.end, End::Error { ref classes, .. } if classes == &[ErrClass::Layout]) {
        return false;
    }
    let s = segment(&[0x00, 0x05, 1, 2]);
    if s.events != vec![Ev::DataPartial(5, vec![1, 2])] || s.end != End::Inside {
        return false;
    }
    let s = segment(&[0x02, 0x00]);
    if !matches!(s.end, End::Error { ref classes, .. } if classes == &[ErrClass::Forbidden]) {
        return false;
    }
    // non-minimal type and length forms
    let mut b = Vec::new();
    put_frame_raw(&mut b, T_DATA, 2, 1, 4, &[9]);
    let s = segment(&b);
    s.events == vec![Ev::Data(vec![9])] && s.end == End::Boundary && b.len() == 7 && is_grease(0x21) && is_grease(0x40) && !is_grease(0x41)
}
