//! Independent oracles, written from the RFC texts; no code or tables shared with /repo.

pub mod fields;
pub mod frames;
pub mod huffman;
pub mod huffman_table;
pub mod qpack;
pub mod qpack_dyn;
pub mod settings;
pub mod varint;

/// Cross-checks of the reference implementations against RFC vectors and against `octets`.
/// Returns 0 when everything agrees.
pub fn selftest() -> i32 {
    let mut bad = 0;
    let mut check = |name: &str, ok: bool| {
        if !ok {
            eprintln!("reference self-test FAILED: {name}");
            bad += 1;
        }
    };
    check("varint", varint::selftest());
    check("huffman", huffman::selftest());
    check("qpack", qpack::selftest());
    check("qpack_dyn", qpack_dyn::selftest());
    check("frames", frames::selftest());
    check("fields", fields::selftest());
    bad
}
