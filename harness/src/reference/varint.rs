//! RFC 9000 section 16 variable-length integers (reference).

pub const MAX: u64 = (1u64 << 62) - 1;

/// length implied by the two most significant bits of the first byte
pub fn len_of_first(first: u8) -> usize {
    1usize << (first >> 6)
}

/// shortest encoding length of a value
pub fn min_len(v: u64) -> Option<usize> {
    if v <= 63 {
        Some(1)
    } else if v <= 16383 {
        Some(2)
    } else if v <= 1_073_741_823 {
        Some(4)
    } else if v <= MAX {
        Some(8)
    } else {
        None
    }
}

/// shortest form
pub fn encode(v: u64) -> Option<Vec<u8>> {
    let n = min_len(v)?;
    Some(encode_len(v, n).unwrap())
}

/// encode in exactly `n` bytes (n in 1,2,4,8), possibly non-minimal
pub fn encode_len(v: u64, n: usize) -> Option<Vec<u8>> {
    let (tag, bits) = match n {
        1 => (0u8, 6),
        2 => (1, 14),
        4 => (2, 30),
        8 => (3, 62),
        _ => return None,
    };
    if bits < 64 && v >> bits != 0 {
        return None;
    }
    let mut out = vec![0u8; n];
    for i in 0..n {
        out[n - 1 - i] = (v >> (8 * i)) as u8;
    }
    out[0] |= tag << 6;
    Some(out)
}

#[derive(Debug, PartialEq, Eq, Clone, Copy)]
pub enum Dec {
    /// value, bytes consumed
    Ok(u64, usize),
    /// not enough bytes: (have, need)
    Truncated,
}

pub fn decode(b: &[u8]) -> Dec {
    if b.is_empty() {
        return Dec::Truncated;
    }
    let n = len_of_first(b[0]);
    if b.len() < n {
        return Dec::Truncated;
    }
    let mut v = (b[0] & 0x3f) as u64;
    for x in &b[1..n] {
        v = (v << 8) | *x as u64;
    }
    Dec::Ok(v, n)
}

/// append the shortest form
pub fn put(out: &mut Vec<u8>, v: u64) {
    out.extend_from_slice(&encode(v).expect("varint out of range"));
}

pub fn put_len(out: &mut Vec<u8>, v: u64, n: usize) {
    out.extend_from_slice(&encode_len(v, n).expect("varint does not fit"));
}

pub fn selftest() -> bool {
    // RFC 9000 appendix A.1 examples
    let vectors: [(&[u8], u64); 5] = [
        (&[0xc2, 0x19, 0x7c, 0x5e, 0xff, 0x14, 0xe8, 0x8c], 151_288_809_941_952_652),
        (&[0x9d, 0x7f, 0x3e, 0x7d], 494_878_333),
        (&[0x7b, 0xbd], 15_293),
        (&[0x25], 37),
        (&[0x40, 0x25], 37),
    ];
    for (b, v) in vectors {
        if decode(b) != Dec::Ok(v, b.len()) {
            return false;
        }
    }
    // cross-check against quiche's octets crate
    let vals = [0u64, 1, 63, 64, 16383, 16384, 1_073_741_823, 1_073_741_824, MAX, 37, 15293, 494_878_333];
    for v in vals {
        let mine = encode(v).unwrap();
        let mut buf = [0u8; 8];
        let n = {
            let mut o = octets::OctetsMut::with_slice(&mut buf);
            o.put_varint(v).unwrap();
            o.off()
        };
        if mine != buf[..n] {
            return false;
        }
        let mut o = octets::Octets::with_slice(&mine);
        if o.get_varint().ok() != Some(v) {
            return false;
        }
    }
    encode(MAX + 1).is_none()
}
