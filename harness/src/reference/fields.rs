//! Three-valued validator for decoded field sections, implementing exactly the clauses of C12's
//! statement (RFC 9114 4.2, 4.3; RFC 9110 5.1, 5.5). Anything the statement is silent about is
//! `Unspecified` and passes either way.

pub type Field = (Vec<u8>, Vec<u8>);

#[derive(Debug, Clone, Copy, PartialEq, Eq)]
pub enum Judgement {
    MustAccept,
    MustReject(&'static str),
    Unspecified(&'static str),
}

#[derive(Debug, Clone, Copy, PartialEq, Eq)]
pub enum MsgKind {
    Request,
    Response,
    Trailers,
}

fn is_tchar(b: u8) -> bool {
    b.is_ascii_alphanumeric() || b"!#$%&'*+-.^_`|~".contains(&b)
}

fn is_lower_token(n: &[u8]) -> bool {
    !n.is_empty() && n.iter().all(|b| is_tchar(*b) && !b.is_ascii_uppercase())
}

fn is_token(n: &[u8]) -> bool {
    !n.is_empty() && n.iter().all(|b| is_tchar(*b))
}

/// value bytes: Some(reason) if CR/LF/NUL (must reject); flag for other controls (unspecified)
fn value_class(v: &[u8]) -> (bool, bool) {
    let hard = v.iter().any(|b| matches!(b, 0 | 10 | 13));
    let soft = v.iter().any(|b| (*b < 0x20 && *b != 9 && !matches!(b, 0 | 10 | 13)) || *b == 0x7f);
    (hard, soft)
}

fn simple_authority(a: &[u8]) -> bool {
    // host[:port] over a conservative alphabet
    let s = match std::str::from_utf8(a) {
        Ok(s) => s,
        Err(_) => return false,
    };
    let (host, port) = match s.rsplit_once(':') {
        Some((h, p)) if !p.is_empty() && p.len() <= 5 && p.bytes().all(|b| b.is_ascii_digit()) && p.parse::<u32>().map(|x| x <= 65535).unwrap_or(false) => (h, Some(p)),
        Some(_) => return false,
        None => (s, None),
    };
    let _ = port;
    !host.is_empty() && host.bytes().all(|b| b.is_ascii_lowercase() || b.is_ascii_digit() || b == b'.' || b == b'-') && !host.starts_with('-') && !host.starts_with('.')
}

fn simple_path(p: &[u8]) -> bool {
    p.first() == Some(&b'/') && p.iter().all(|b| b.is_ascii_alphanumeric() || b"/-._~!$&'()*+,;=:@?".contains(b)) && p.iter().filter(|b| **b == b'?').count() <= 1
}

fn has_ctl_or_sp(v: &[u8]) -> bool {
    v.iter().any(|b| *b <= 0x20 || *b == 0x7f)
}

const REQ_PSEUDO: [&[u8]; 5] = [b":method", b":scheme", b":authority", b":path", b":protocol"];

pub fn judge(kind: MsgKind, fields: &[Field]) -> Judgement {
    use Judgement::*;
    let mut unspecified: Option<&'static str> = None;
    let mut note = |why: &'static str| {
        if unspecified.is_none() {
            unspecified = Some(why);
        }
    };
    let mut seen_regular = false;
    let get = |n: &[u8]| -> Vec<&Vec<u8>> { fields.iter().filter(|(k, _)| k.as_slice() == n).map(|(_, v)| v).collect() };
    for (n, v) in fields {
        if n.is_empty() {
            return MustReject("empty field name");
        }
        let (hard, soft) = value_class(v);
        if n[0] == b':' {
            let defined = REQ_PSEUDO.contains(&n.as_slice()) || n.as_slice() == b":status";
            if !defined {
                return MustReject("undefined pseudo-header field");
            }
            if seen_regular {
                note("pseudo-header field after a regular field");
            }
            if hard {
                return MustReject("CR, LF or NUL in a field value");
            }
        } else {
            seen_regular = true;
            if !is_lower_token(n) {
                return MustReject("field name is not a lowercase token");
            }
            if hard {
                return MustReject("CR, LF or NUL in a field value");
            }
        }
        if soft {
            note("control character other than CR/LF/NUL in a field value");
        }
    }
    for p in REQ_PSEUDO.iter().chain([&b":status"[..]].iter()) {
        if get(p).len() > 1 {
            note("repeated pseudo-header field");
        }
    }
    match kind {
        MsgKind::Trailers => {
            if fields.iter().any(|(n, _)| n[0] == b':') {
                note("defined pseudo-header field in trailers");
            }
        }
        MsgKind::Response => {
            let st = get(b":status");
            if st.is_empty() {
                return MustReject(":status missing");
            }
            for s in &st {
                if s.len() != 3 || !s.iter().all(|b| b.is_ascii_digit()) {
                    return MustReject(":status is not three digits");
                }
                if s[0] == b'0' {
                    note(":status below 100");
                }
            }
            if REQ_PSEUDO.iter().any(|p| !get(p).is_empty()) {
                note("request pseudo-header field in a response");
            }
        }
        MsgKind::Request => {
            if !get(b":status").is_empty() {
                note(":status in a request");
            }
            let m = get(b":method");
            if m.is_empty() {
                return MustReject(":method missing");
            }
            for x in &m {
                if !is_token(x) {
                    return MustReject(":method is not a token");
                }
            }
            let auth = get(b":authority");
            let host = get(b"host");
            if auth.is_empty() && host.is_empty() {
                return MustReject("neither :authority nor Host");
            }
            // (with several Host lines it is not stated which one is "the" authority: only when every one of them is empty
            // is there no non-empty authority whichever is meant; some empty, some not is noted as unspecified below)
            if auth.iter().any(|a| a.is_empty()) || (auth.is_empty() && host.iter().all(|h| h.is_empty())) {
                return MustReject("authority present but empty");
            }
            if auth.is_empty() && host.iter().any(|h| h.is_empty()) {
                note("an empty Host line among several");
            }
            if let (Some(a), Some(h)) = (auth.first(), host.first()) {
                if auth.len() == 1 && host.len() == 1 && a != h {
                    return MustReject(":authority and Host differ");
                }
                if host.iter().any(|h| h.is_empty()) {
                    note("empty Host next to :authority");
                }
            }
            if host.len() > 1 {
                note("repeated Host");
            }
            // which of several Host lines is "the" authority is not stated (noted above): a later Host line is then
            // judged as a field value only (HTAB is a legal value byte), not as an authority
            let sole_host = host.len() == 1;
            for (a, judged) in auth.iter().map(|a| (a, true)).chain(host.iter().map(|h| (h, sole_host))) {
                if judged && has_ctl_or_sp(a) {
                    return MustReject("authority contains a space or control character");
                }
                if !simple_authority(a) {
                    note("authority outside the conservative must-accept alphabet");
                }
            }
            for s in get(b":scheme") {
                let ok = !s.is_empty() && s.iter().all(|b| b.is_ascii_alphanumeric() || b"+-.".contains(b));
                if !ok {
                    return MustReject(":scheme is not a URI scheme");
                }
                if !s[0].is_ascii_alphabetic() {
                    // RFC 3986 wants a letter first; "parseable" in the statement does not clearly demand it
                    note(":scheme does not start with a letter");
                }
                if s.len() > 64 {
                    note("very long scheme");
                }
            }
            for p in get(b":path") {
                if has_ctl_or_sp(p) && !p.is_empty() {
                    return MustReject(":path contains a space or control character");
                }
                if !simple_path(p) {
                    note(":path outside the conservative must-accept alphabet");
                }
            }
            for p in get(b":protocol") {
                if !is_token(p) {
                    return MustReject(":protocol is not a token");
                }
                if !matches!(p.as_slice(), b"webtransport" | b"connect-udp" | b"connect-ip" | b"websocket") {
                    note(":protocol value unknown to the implementation");
                }
            }
            let is_connect = m.iter().any(|x| x.as_slice() == b"CONNECT");
            let has_proto = !get(b":protocol").is_empty();
            if is_connect && !has_proto {
                if !get(b":scheme").is_empty() || !get(b":path").is_empty() {
                    note("plain CONNECT with :scheme or :path");
                }
                if auth.is_empty() {
                    note("plain CONNECT without :authority");
                }
            } else {
                if get(b":scheme").is_empty() || get(b":path").is_empty() {
                    note("request without :scheme or :path");
                }
                if has_proto && !is_connect {
                    note(":protocol without CONNECT");
                }
                if auth.is_empty() {
                    note("authority only from Host");
                }
            }
        }
    }
    match unspecified {
        Some(why) => Unspecified(why),
        None => MustAccept,
    }
}

pub fn selftest() -> bool {
    let f = |l: &[(&str, &str)]| -> Vec<Field> { l.iter().map(|(n, v)| (n.as_bytes().to_vec(), v.as_bytes().to_vec())).collect() };
    let base = f(&[(":method", "GET"), (":scheme", "https"), (":authority", "example.com"), (":path", "/")]);
    if judge(MsgKind::Request, &base) != Judgement::MustAccept {
        return false;
    }
    let mut up = base.clone();
    up.push((b"X-Up".to_vec(), b"v".to_vec()));
    if !matches!(judge(MsgKind::Request, &up), Judgement::MustReject(_)) {
        return false;
    }
    if !matches!(judge(MsgKind::Request, &f(&[(":method", "GET"), (":scheme", "https"), (":path", "/")])), Judgement::MustReject(_)) {
        return false;
    }
    if !matches!(judge(MsgKind::Request, &f(&[(":method", "GET"), (":scheme", "https"), (":authority", "a"), (":path", "/"), ("host", "b")])), Judgement::MustReject(_)) {
        return false;
    }
    if judge(MsgKind::Response, &f(&[(":status", "200"), ("x", "y")])) != Judgement::MustAccept {
        return false;
    }
    if !matches!(judge(MsgKind::Response, &f(&[("x", "y")])), Judgement::MustReject(_)) {
        return false;
    }
    if !matches!(judge(MsgKind::Response, &f(&[(":status", "20")])), Judgement::MustReject(_)) {
        return false;
    }
    if !matches!(judge(MsgKind::Trailers, &f(&[(":x", "1")])), Judgement::MustReject(_)) {
        return false;
    }
    if judge(MsgKind::Trailers, &f(&[("x-t", "1")])) != Judgement::MustAccept {
        return false;
    }
    matches!(judge(MsgKind::Request, &f(&[(":method", "CONNECT"), (":authority", "example.com:443")])), Judgement::MustAccept)
        && matches!(judge(MsgKind::Request, &f(&[(":method", "GET"), (":scheme", "https"), (":authority", "a"), (":path", "/"), ("x", "a\rb")])), Judgement::MustReject(_))
}
