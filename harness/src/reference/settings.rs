//! RFC 9114 7.2.4 (+ RFC 9220, RFC 9297, WebTransport draft) SETTINGS reference.

pub const QPACK_MAX_TABLE_CAPACITY: u64 = 0x1;
pub const MAX_FIELD_SECTION_SIZE: u64 = 0x6;
pub const QPACK_BLOCKED_STREAMS: u64 = 0x7;
pub const ENABLE_CONNECT_PROTOCOL: u64 = 0x8;
pub const H3_DATAGRAM: u64 = 0x33;
pub const ENABLE_WEBTRANSPORT: u64 = 0x2b60_3742;
pub const WEBTRANSPORT_MAX_SESSIONS: u64 = 0x2b60_3743;

pub const KNOWN: [u64; 7] = [QPACK_MAX_TABLE_CAPACITY, MAX_FIELD_SECTION_SIZE, QPACK_BLOCKED_STREAMS, ENABLE_CONNECT_PROTOCOL, H3_DATAGRAM, ENABLE_WEBTRANSPORT, WEBTRANSPORT_MAX_SESSIONS];

/// identifiers h3 gives a meaning to
pub fn is_known(id: u64) -> bool {
    KNOWN.contains(&id)
}

/// HTTP/2 settings without HTTP/3 counterpart: reserved, receipt is H3_SETTINGS_ERROR (RFC 9114 7.2.4.1)
pub fn is_h2_reserved(id: u64) -> bool {
    matches!(id, 0x0 | 0x2 | 0x3 | 0x4 | 0x5)
}

#[derive(Debug, Clone, PartialEq, Eq)]
pub enum Verdict {
    /// must be applied: effective values of the known settings
    Accept(Effective),
    /// H3_SETTINGS_ERROR required
    SettingsError,
    /// truncated entry: some connection error
    Truncated,
    /// repeated unknown identifier: receiver MAY error - unspecified
    Unspecified,
}

#[derive(Debug, Clone, PartialEq, Eq, Default)]
pub struct Effective {
    pub max_field_section_size: Option<u64>,
    pub enable_connect_protocol: Option<u64>,
    pub h3_datagram: Option<u64>,
    pub enable_webtransport: Option<u64>,
    pub webtransport_max_sessions: Option<u64>,
}

pub fn judge_payload(p: &[u8]) -> Verdict {
    let Ok(entries) = super::frames::parse_settings(p) else { return Verdict::Truncated };
    judge(&entries)
}

pub fn judge(entries: &[(u64, u64)]) -> Verdict {
    let mut seen = std::collections::BTreeSet::new();
    let mut unspecified = false;
    let mut e = Effective::default();
    for (id, v) in entries {
        if is_h2_reserved(*id) {
            return Verdict::SettingsError;
        }
        if !seen.insert(*id) {
            if is_known(*id) {
                return Verdict::SettingsError;
            }
            unspecified = true;
        }
        match *id {
            MAX_FIELD_SECTION_SIZE => e.max_field_section_size = Some(*v),
            ENABLE_CONNECT_PROTOCOL => e.enable_connect_protocol = Some(*v),
            H3_DATAGRAM => e.h3_datagram = Some(*v),
            ENABLE_WEBTRANSPORT => e.enable_webtransport = Some(*v),
            WEBTRANSPORT_MAX_SESSIONS => e.webtransport_max_sessions = Some(*v),
            _ => {}
        }
    }
    if unspecified {
        Verdict::Unspecified
    } else {
        Verdict::Accept(e)
    }
}
