//! Strict HPACK Huffman codec (RFC 7541 section 5.2), bit by bit over a trie built from the
//! vendored code table. Reference for C15/C11.

use std::sync::OnceLock;

use super::huffman_table::ENCODE_TABLE;

#[derive(Debug, Clone, Copy, PartialEq, Eq)]
pub enum HuffErr {
    /// the EOS symbol (30 one-bits) was decoded
    Eos,
    /// bits after the last complete symbol are not all ones
    BadPadding,
    /// bits after the last complete symbol are all ones but there are 8 or more of them
    LongPadding,
}

struct Trie {
    // node -> [child0, child1]; leaf encoded as 0x8000_0000 | symbol
    nodes: Vec<[u32; 2]>,
}

const LEAF: u32 = 0x8000_0000;

fn trie() -> &'static Trie {
    static T: OnceLock<Trie> = OnceLock::new();
    T.get_or_init(|| {
        let mut nodes: Vec<[u32; 2]> = vec![[0, 0]];
        for (sym, (nbits, code)) in ENCODE_TABLE.iter().enumerate() {
            let mut n = 0usize;
            for i in (0..*nbits).rev() {
                let bit = ((code >> i) & 1) as usize;
                if i == 0 {
                    assert_eq!(nodes[n][bit], 0, "code table is not prefix free");
                    nodes[n][bit] = LEAF | sym as u32;
                } else {
                    if nodes[n][bit] == 0 {
                        nodes.push([0, 0]);
                        let id = (nodes.len() - 1) as u32;
                        nodes[n][bit] = id;
                    }
                    assert_eq!(nodes[n][bit] & LEAF, 0, "code table is not prefix free");
                    n = nodes[n][bit] as usize;
                }
            }
        }
        // completeness: every inner node has both children
        for n in &nodes {
            assert!(n[0] != 0 && n[1] != 0, "code table is not complete");
        }
        Trie { nodes }
    })
}

pub struct Decoded {
    pub result: Result<Vec<u8>, HuffErr>,
    /// symbols decoded before the end / the error
    pub prefix: Vec<u8>,
    /// number of bits after the last complete non-EOS symbol
    pub tail_bits: usize,
    /// whether all of those bits are ones
    pub tail_all_ones: bool,
}

pub fn decode_detail(input: &[u8]) -> Decoded {
    let t = trie();
    let mut out = Vec::new();
    let mut node = 0usize;
    let mut since = 0usize;
    let mut ones = true;
    let total_bits = input.len() * 8;
    let mut i = 0;
    while i < total_bits {
        let bit = ((input[i / 8] >> (7 - i % 8)) & 1) as usize;
        i += 1;
        since += 1;
        if bit == 0 {
            ones = false;
        }
        let next = t.nodes[node][bit];
        if next & LEAF != 0 {
            let sym = next & !LEAF;
            if sym == 256 {
                // tail = everything after the last good symbol up to the end of input
                let tail_start = i - since;
                let tail_bits = total_bits - tail_start;
                let tail_all_ones = (tail_start..total_bits).all(|j| (input[j / 8] >> (7 - j % 8)) & 1 == 1);
                return Decoded { result: Err(HuffErr::Eos), prefix: out, tail_bits, tail_all_ones };
            }
            out.push(sym as u8);
            node = 0;
            since = 0;
            ones = true;
        } else {
            node = next as usize;
        }
    }
    let result = if since == 0 {
        Ok(out.clone())
    } else if !ones {
        Err(HuffErr::BadPadding)
    } else if since >= 8 {
        Err(HuffErr::LongPadding)
    } else {
        Ok(out.clone())
    };
    Decoded { result, prefix: out, tail_bits: since, tail_all_ones: ones }
}

pub fn decode(input: &[u8]) -> Result<Vec<u8>, HuffErr> {
    decode_detail(input).result
}

/// bit length of the encoding of `s` (without padding)
pub fn encoded_bits(s: &[u8]) -> usize {
    s.iter().map(|b| ENCODE_TABLE[*b as usize].0).sum()
}

/// Encode with a chosen padding: `pad_bits` extra bits are appended after the minimal padding to a
/// byte boundary... more precisely the output is the code bits followed by padding bits taken from
/// `pad_pattern` (MSB first) until (a) the byte boundary is reached and (b) at least `min_pad` padding
/// bits were written.
pub fn encode_with_padding(s: &[u8], min_pad: usize, pad_pattern: u32) -> Vec<u8> {
    let mut bits: Vec<bool> = Vec::with_capacity(encoded_bits(s) + 40);
    for b in s {
        let (n, code) = ENCODE_TABLE[*b as usize];
        for i in (0..n).rev() {
            bits.push((code >> i) & 1 == 1);
        }
    }
    let mut padded = 0usize;
    while bits.len() % 8 != 0 || padded < min_pad {
        let bit = (pad_pattern >> (31 - (padded % 32))) & 1 == 1;
        bits.push(bit);
        padded += 1;
    }
    pack(&bits)
}

pub fn pack(bits: &[bool]) -> Vec<u8> {
    let mut out = vec![0u8; bits.len().div_ceil(8)];
    for (i, b) in bits.iter().enumerate() {
        if *b {
            out[i / 8] |= 0x80 >> (i % 8);
        }
    }
    out
}

/// canonical encoding: pad with ones to the byte boundary
pub fn encode(s: &[u8]) -> Vec<u8> {
    encode_with_padding(s, 0, u32::MAX)
}

/// code bits of a symbol sequence where symbol 256 = EOS
pub fn symbol_bits(syms: &[u16]) -> Vec<bool> {
    let mut bits = Vec::new();
    for s in syms {
        let (n, code) = ENCODE_TABLE[*s as usize];
        for i in (0..n).rev() {
            bits.push((code >> i) & 1 == 1);
        }
    }
    bits
}

pub fn selftest() -> bool {
    // RFC 7541 appendix C.4.1 / C.4.2 / C.4.3 / C.6.1 examples
    let v: [(&[u8], &[u8]); 6] = [
        (b"www.example.com", &[0xf1, 0xe3, 0xc2, 0xe5, 0xf2, 0x3a, 0x6b, 0xa0, 0xab, 0x90, 0xf4, 0xff]),
        (b"no-cache", &[0xa8, 0xeb, 0x10, 0x64, 0x9c, 0xbf]),
        (b"custom-key", &[0x25, 0xa8, 0x49, 0xe9, 0x5b, 0xa9, 0x7d, 0x7f]),
        (b"custom-value", &[0x25, 0xa8, 0x49, 0xe9, 0x5b, 0xb8, 0xe8, 0xb4, 0xbf]),
        (b"302", &[0x64, 0x02]),
        (b"private", &[0xae, 0xc3, 0x77, 0x1a, 0x4b]),
    ];
    for (plain, enc) in v {
        if encode(plain) != enc || decode(enc).as_deref() != Ok(plain) {
            return false;
        }
    }
    if decode(&[0xff]) != Err(HuffErr::LongPadding) {
        return false;
    }
    if decode(&[0xff, 0xff, 0xff, 0xff]) != Err(HuffErr::Eos) {
        return false;
    }
    if decode(&[0x00, 0x2f]).is_ok() {
        // "00" then 101111: padding that is a prefix of another code, not of EOS
        return false;
    }
    // cross-check against the octets crate (quiche) on every 0..=2 byte payload: same accept set, same output
    let mut inputs: Vec<Vec<u8>> = vec![vec![]];
    for a in 0..=255u8 {
        inputs.push(vec![a]);
    }
    for a in 0..=255u8 {
        for b in (0..=255u8).step_by(1) {
            inputs.push(vec![a, b]);
        }
    }
    for i in &inputs {
        let mine = decode(i);
        let mut o = octets::Octets::with_slice(i);
        let theirs = o.get_huffman_decoded();
        match (mine, theirs) {
            (Ok(a), Ok(b)) if a == b => {}
            (Err(_), Err(_)) => {}
            _ => {
                eprintln!("huffman reference disagrees with octets on {:02x?}", i);
                return false;
            }
        }
    }
    // encoder agrees with octets
    for s in [&b""[..], b"a", b"hello world", &[0u8, 255, 10, 13, 22, 200][..]] {
        let mut buf = vec![0u8; s.len() * 4 + 8];
        let n = {
            let mut o = octets::OctetsMut::with_slice(&mut buf);
            if o.put_huffman_encoded::<false>(s).is_err() {
                return false;
            }
            o.off()
        };
        if buf[..n] != encode(s)[..] {
            return false;
        }
    }
    true
}
