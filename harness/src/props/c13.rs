//! C13 - SETTINGS are sent, parsed and applied exactly, for every configuration.

use std::sync::Arc;

use h3::{ConnectionState, SharedState};
use serde_json::{json, Value};

use crate::reference::frames as rf;
use crate::reference::settings::{self as rs, Verdict as SV};
use crate::reference::varint as rv;
use crate::runner::{hex, unhex, Ctx, Failure, PropDef, Tier, Verdict};
use crate::simnet::app::*;
use crate::simnet::exec::{shared, Exec, RunEnd, Shared, Signal, Spawner, Style};
use crate::simnet::peer::{self, PeerOp, RawPeer};
use crate::simnet::wire;
use crate::simnet::{Net, Side};
use crate::tape::Tape;

use super::c01::{client_builder, server_builder, EndConfig};

pub static PROP: PropDef = PropDef {
    id: "C13",
    rule: "(a) setup cases: every builder configuration (server: 2^4 booleans x 11 values of max_field_section_size x 11 of max_webtransport_sessions = 1936; client: 2^3 x 11 = 88, values {0,1,63,64,16383,16384,2^30-1,2^30,2^62-1,2^62,u64::MAX}): \
           no panic; if build() succeeds the reference parser finds on the control stream type 0x00 then exactly one well-formed SETTINGS frame, no id twice, no H2-reserved id, the effective value of each defined setting equal to the configured one \
           (for values no varint can carry: build fails or the varint maximum is sent), every other id of the 0x1f*N+0x21 form. \
           (b) received payloads: SETTINGS payload bytes on the peer's control stream -> reference verdict: duplicate of a known id or H2-reserved id => H3_SETTINGS_ERROR at transport and driver; truncated entry => some connection error; \
           otherwise no error and the applied settings equal the reference interpretation (booleans via settings(), MAX_FIELD_SECTION_SIZE via the send limit of a probe message of known size 177/181); no SETTINGS => protocol defaults. \
           exhaustive: all payloads of <= 2 entries (<= 3 thorough) over 12 ids x 5 values x 2 varint forms, every truncation of the <= 2 entry ones, both roles. non-trivial = configuration with >= 1 non-default value; payload with >= 2 entries or any defect; distinct by configuration / (role, payload)",
    assumptions: &[
        "boolean settings with a value other than 0/1 and repeated unknown identifiers are outside the statement (RFC: MAY/implementation defined): either behaviour passes",
        "MAX_FIELD_SECTION_SIZE is not readable through the public API: its application is observed through the size limit applied to a probe message",
    ],
    tape_len: 120,
    random_cases: |t| t.pick(240_000, 20_000_000),
    run_tape,
    exhaustive: Some(exhaustive),
    run_direct: Some(run_direct),
    min_classes: &[("setup_server", 1936), ("setup_client", 88), ("payload_accept", 5000), ("payload_settings_error", 3000), ("payload_truncated", 3000), ("limit_blocks_probe", 500), ("limit_allows_probe", 500), ("no_settings_defaults", 2)],
    extra: None,
};

const VALS: [u64; 11] = [0, 1, 63, 64, 16383, 16384, (1 << 30) - 1, 1 << 30, (1 << 62) - 1, 1 << 62, u64::MAX];
const VARINT_MAX: u64 = (1 << 62) - 1;

// ------------------------------------------------------------------------------------------------
// (a) setup

fn check_setup(server: bool, cfg: EndConfig, ctx: &mut Ctx) -> Verdict {
    ctx.eval();
    fastrand::seed(3);
    let case = || json!({"kind": "setup", "role": if server { "server" } else { "client" }, "config": format!("{cfg:?}"),
        "cfg": [cfg.grease, cfg.webtransport, cfg.extended_connect, cfg.datagram], "mfs": cfg.max_field_section_size.map(|v| v.to_string()), "wts": cfg.max_wt_sessions.map(|v| v.to_string()), "setter_order": cfg.setter_order});
    let net = Net::new();
    let side = if server { Side::Server } else { Side::Client };
    net.set_raw(side.other());
    let built: Shared<Option<Result<(), ConnInfo>>> = shared(None);
    let mut ex = Exec::new();
    let b2 = built.clone();
    let n2 = net.clone();
    if server {
        ex.spawn("server-build", async move {
            let b = server_builder(&cfg);
            match b.build::<_, bytes::Bytes>(n2.conn(Side::Server)).await {
                Ok(conn) => {
                    *b2.borrow_mut() = Some(Ok(()));
                    std::future::pending::<()>().await;
                    drop(conn);
                }
                Err(e) => *b2.borrow_mut() = Some(Err(conn_info(&e))),
            }
        });
    } else {
        ex.spawn("client-build", async move {
            let mut b = client_builder(&cfg);
            match b.build::<_, _, bytes::Bytes>(n2.conn(Side::Client)).await {
                Ok(x) => {
                    *b2.borrow_mut() = Some(Ok(()));
                    std::future::pending::<()>().await;
                    drop(x);
                }
                Err(e) => *b2.borrow_mut() = Some(Err(conn_info(&e))),
            }
        });
    }
    let empty: [u16; 0] = [];
    let mut t = Tape::new(&empty);
    let end = ex.run(&net, &mut crate::simnet::exec::NoActor, &mut t, Style::Eager, 10_000);
    if end == RunEnd::StepBound {
        return Err(Failure::fault("step bound"));
    }
    if let Some((_, p)) = ex.panics().first() {
        return Err(Failure::direct(format!("connection setup panicked: {p}"), case()));
    }
    let res = built.borrow().clone();
    let unrepresentable = cfg.max_field_section_size.map(|v| v > VARINT_MAX).unwrap_or(false) || cfg.max_wt_sessions.map(|v| v > VARINT_MAX).unwrap_or(false);
    match res {
        None => return Err(Failure::direct("build() neither completed nor failed (still pending at quiescence)", case())),
        Some(Err(e)) => {
            if unrepresentable {
                ctx.class("setup_refused_unrepresentable");
                ctx.class(if server { "setup_server" } else { "setup_client" });
                return Ok(());
            }
            return Err(Failure::direct(format!("build() failed for a representable configuration: {e:?}"), case()));
        }
        Some(Ok(())) => {}
    }
    let g = net.lock();
    let sum = wire::check_written(&g, side, server, true).map_err(|e| Failure::direct(format!("invalid bytes written during setup: {e}"), case()))?;
    drop(g);
    let Some(entries) = sum.settings else {
        return Err(Failure::direct("no SETTINGS frame on the control stream after build() returned", case()));
    };
    let get = |id: u64| entries.iter().find(|(i, _)| *i == id).map(|(_, v)| *v);
    // effective values
    let want_mfs = cfg.max_field_section_size.unwrap_or(VARINT_MAX).min(VARINT_MAX);
    let eff_mfs = get(rs::MAX_FIELD_SECTION_SIZE).unwrap_or(VARINT_MAX);
    if eff_mfs != want_mfs {
        return Err(Failure::direct(format!("MAX_FIELD_SECTION_SIZE on the wire: {:?}, configured {:?}", get(rs::MAX_FIELD_SECTION_SIZE), cfg.max_field_section_size), case()));
    }
    let b = |id: u64| get(id).unwrap_or(0);
    if b(rs::ENABLE_CONNECT_PROTOCOL) != cfg.extended_connect as u64 {
        return Err(Failure::direct(format!("ENABLE_CONNECT_PROTOCOL on the wire {:?}, configured {}", get(rs::ENABLE_CONNECT_PROTOCOL), cfg.extended_connect), case()));
    }
    if b(rs::H3_DATAGRAM) != cfg.datagram as u64 {
        return Err(Failure::direct(format!("H3_DATAGRAM on the wire {:?}, configured {}", get(rs::H3_DATAGRAM), cfg.datagram), case()));
    }
    if server {
        if b(rs::ENABLE_WEBTRANSPORT) != cfg.webtransport as u64 {
            return Err(Failure::direct(format!("ENABLE_WEBTRANSPORT on the wire {:?}, configured {}", get(rs::ENABLE_WEBTRANSPORT), cfg.webtransport), case()));
        }
        let want = cfg.max_wt_sessions.unwrap_or(0).min(VARINT_MAX);
        if b(rs::WEBTRANSPORT_MAX_SESSIONS) != want {
            return Err(Failure::direct(format!("WEBTRANSPORT_MAX_SESSIONS on the wire {:?}, configured {:?}", get(rs::WEBTRANSPORT_MAX_SESSIONS), cfg.max_wt_sessions), case()));
        }
    }
    // QPACK settings: h3 has no dynamic table: effective values must be 0
    if b(rs::QPACK_MAX_TABLE_CAPACITY) != 0 || b(rs::QPACK_BLOCKED_STREAMS) != 0 {
        return Err(Failure::direct("QPACK dynamic table settings advertised although only the static table is used", case()));
    }
    ctx.class(if server { "setup_server" } else { "setup_client" });
    if sum.grease_settings > 0 {
        ctx.class("grease_setting_seen");
    }
    let nondefault = cfg.webtransport || cfg.extended_connect || cfg.datagram || cfg.max_field_section_size.is_some() || cfg.max_wt_sessions.is_some() || !cfg.grease;
    if nondefault {
        ctx.nontrivial(&(server, format!("{cfg:?}")));
    }
    ctx.sample(|| json!({"role": if server { "server" } else { "client" }, "config": format!("{cfg:?}"), "settings_on_wire": entries.iter().map(|(i, v)| format!("{i:#x}={v}")).collect::<Vec<_>>()}));
    Ok(())
}

// ------------------------------------------------------------------------------------------------
// (b) received payloads

#[derive(Default, Clone, Debug)]
struct Obs {
    driver: Option<ConnInfo>,
    probe: Option<Result<(), ErrInfo>>,
    built: bool,
}

const PROBE_REQ_SIZE: u64 = 177;
const PROBE_RESP_SIZE: u64 = 181;

async fn server_app(net: Net, o: Shared<Obs>, sh: Shared<Option<Arc<SharedState>>>, probe: Signal, sp: Spawner) {
    let mut conn: ServerConn = match h3::server::builder().send_grease(false).build(net.conn(Side::Server)).await {
        Ok(c) => c,
        Err(e) => {
            o.borrow_mut().driver = Some(conn_info(&e));
            return;
        }
    };
    o.borrow_mut().built = true;
    *sh.borrow_mut() = Some(conn.inner.shared.clone());
    loop {
        match conn.accept().await {
            Ok(Some(r)) => {
                let o2 = o.clone();
                let probe = probe.clone();
                sp.spawn("handler", async move {
                    let Ok((_req, mut s)) = r.resolve_request().await else { return };
                    probe.wait(0).await;
                    let resp = http::Response::builder().status(200).header("x-probe", "p".repeat(100)).body(()).unwrap();
                    let r = s.send_response(resp).await;
                    o2.borrow_mut().probe = Some(r.map_err(|e| err_info(&e)));
                    std::future::pending::<()>().await;
                });
            }
            Ok(None) => break,
            Err(e) => {
                o.borrow_mut().driver = Some(conn_info(&e));
                break;
            }
        }
    }
    std::future::pending::<()>().await;
    drop(conn);
}

async fn client_app(net: Net, o: Shared<Obs>, sh: Shared<Option<Arc<SharedState>>>, probe: Signal, sp: Spawner) {
    let (conn, mut sr): (ClientConn, SendReq) = match h3::client::builder().send_grease(false).build(net.conn(Side::Client)).await {
        Ok(x) => x,
        Err(e) => {
            o.borrow_mut().driver = Some(conn_info(&e));
            return;
        }
    };
    o.borrow_mut().built = true;
    *sh.borrow_mut() = Some(conn.inner.shared.clone());
    let o2 = o.clone();
    sp.spawn("client-driver", async move {
        let mut conn = conn;
        let e = std::future::poll_fn(|cx| conn.poll_close(cx)).await;
        o2.borrow_mut().driver = Some(conn_info(&e));
        std::future::pending::<()>().await;
        drop(conn);
    });
    probe.wait(0).await;
    let req = http::Request::builder().method("GET").uri("https://example.com/").body(()).unwrap();
    let r = sr.send_request(req).await;
    match r {
        Ok(s) => {
            o.borrow_mut().probe = Some(Ok(()));
            std::future::pending::<()>().await;
            drop(s);
        }
        Err(e) => o.borrow_mut().probe = Some(Err(err_info(&e))),
    }
    std::future::pending::<()>().await;
    drop(sr);
}

/// payload = None: the peer never sends SETTINGS (control stream not even opened)
fn check_payload(server: bool, payload: Option<&[u8]>, style: Style, sched: &[u16], ctx: &mut Ctx) -> Verdict {
    ctx.eval();
    fastrand::seed(3);
    let case = || json!({"kind": "payload", "role": if server { "server" } else { "client" }, "payload": payload.map(hex), "style": format!("{style:?}"), "sched": sched});
    let net = Net::new();
    let side = if server { Side::Server } else { Side::Client };
    let raw = side.other();
    net.set_raw(raw);
    let o: Shared<Obs> = shared(Obs::default());
    let sh: Shared<Option<Arc<SharedState>>> = shared(None);
    let probe = Signal::new();
    let mut ex = Exec::new();
    let sp = ex.spawner.clone();
    if server {
        ex.spawn("server", server_app(net.clone(), o.clone(), sh.clone(), probe.clone(), sp.clone()));
    } else {
        ex.spawn("client", client_app(net.clone(), o.clone(), sh.clone(), probe.clone(), sp.clone()));
    }
    let mut ops = Vec::new();
    if let Some(p) = payload {
        let mut b = vec![0x00];
        b.extend(rf::frame(rf::T_SETTINGS, p));
        ops.push(PeerOp::OpenUni(0));
        ops.push(PeerOp::Write(0, b));
    }
    if server {
        ops.push(PeerOp::OpenBidi(1));
        ops.push(PeerOp::Write(1, peer::simple_request_headers()));
        ops.push(PeerOp::Fin(1));
    }
    ops.push(PeerOp::Barrier);
    ops.push(PeerOp::Signal(0));
    let mut peer = RawPeer::new(raw, ops);
    peer.signals.push(probe.clone());
    let mut t = Tape::new(sched);
    let end = ex.run(&net, &mut peer, &mut t, style, 100_000);
    if end == RunEnd::StepBound {
        return Err(Failure::fault("step bound"));
    }
    if let Some((task, p)) = ex.panics().first() {
        return Err(Failure::direct(format!("panic in task {task}: {p}"), case()));
    }
    let obs = o.borrow().clone();
    let closes = net.close_calls(side);
    let verdict = match payload {
        Some(p) => rs::judge_payload(p),
        None => SV::Accept(rs::Effective::default()),
    };
    let fail = |m: String| Err(Failure::direct(format!("{m}; observed {obs:?}, closes {closes:?}, reference verdict {verdict:?}"), case()));
    match &verdict {
        SV::Unspecified => {
            ctx.class("payload_unspecified");
            return Ok(());
        }
        SV::SettingsError => {
            match closes.first() {
                Some(c) if c.code == code::SETTINGS_ERROR => {}
                _ => return fail("a repeated or HTTP/2-reserved identifier must be H3_SETTINGS_ERROR".into()),
            }
            match &obs.driver {
                Some(ConnInfo::Local { code }) if *code == code::SETTINGS_ERROR => {}
                _ => return fail("driver did not report H3_SETTINGS_ERROR".into()),
            }
            ctx.class("payload_settings_error");
        }
        SV::Truncated => {
            if closes.is_empty() || obs.driver.is_none() {
                return fail("a truncated SETTINGS entry must be a connection error".into());
            }
            ctx.class("payload_truncated");
        }
        SV::Accept(eff) => {
            // boolean settings with other values than 0/1: unspecified
            let weird = [eff.enable_connect_protocol, eff.h3_datagram, eff.enable_webtransport].iter().any(|v| matches!(v, Some(x) if *x > 1));
            if weird {
                ctx.class("payload_unspecified");
                return Ok(());
            }
            if !closes.is_empty() || obs.driver.is_some() {
                return fail("valid SETTINGS payload caused a connection error".into());
            }
            let st = sh.borrow().clone().expect("shared state");
            let s = st.settings();
            let want_dg = eff.h3_datagram.unwrap_or(0) != 0;
            let want_ec = eff.enable_connect_protocol.unwrap_or(0) != 0;
            let want_wt = eff.enable_webtransport.unwrap_or(0) != 0;
            if s.enable_datagram() != want_dg || s.enable_extended_connect() != want_ec || s.enable_webtransport() != want_wt {
                return fail(format!("applied booleans datagram={} extended_connect={} webtransport={}, reference {want_dg}/{want_ec}/{want_wt}", s.enable_datagram(), s.enable_extended_connect(), s.enable_webtransport()));
            }
            let limit = eff.max_field_section_size.unwrap_or(u64::MAX);
            let size = if server { PROBE_RESP_SIZE } else { PROBE_REQ_SIZE };
            match (&obs.probe, size <= limit) {
                (Some(Ok(())), true) => ctx.class("limit_allows_probe"),
                (Some(Err(ErrInfo::HeaderTooBig { actual, max })), false) if *actual == size && *max == limit => ctx.class("limit_blocks_probe"),
                (p, ok) => return fail(format!("probe message of size {size} under peer limit {limit}: {p:?}, expected success={ok}")),
            }
            ctx.class("payload_accept");
            if payload.is_none() {
                ctx.class("no_settings_defaults");
            }
        }
    }
    let entries = payload.and_then(|p| rf::parse_settings(p).ok()).map(|e| e.len()).unwrap_or(0);
    if entries >= 2 || !matches!(verdict, SV::Accept(_)) {
        ctx.nontrivial(&(server, payload.map(|p| p.to_vec())));
    }
    ctx.sample(|| json!({"role": if server { "server" } else { "client" }, "payload": payload.map(hex), "verdict": format!("{verdict:?}")}));
    Ok(())
}

const IDS: [u64; 12] = [0x1, 0x6, 0x7, 0x8, 0x33, 0x2b60_3742, 0x2b60_3743, 0x0, 0x2, 0x4, 0x21 + 0x1f * 5, 0x4242];
const PVALS: [u64; 5] = [0, 1, 176, 181, 1 << 30];

fn entry(id: u64, v: u64, nonmin: bool) -> Vec<u8> {
    let mut b = Vec::new();
    if nonmin {
        rv::put_len(&mut b, id, 8);
        rv::put_len(&mut b, v, rv::min_len(v).unwrap().max(2));
    } else {
        rv::put(&mut b, id);
        rv::put(&mut b, v);
    }
    b
}

fn exhaustive(ctx: &mut Ctx, shard: usize, nshards: usize) -> Verdict {
    let mut idx = 0usize;
    let mut mine = || {
        idx += 1;
        idx % nshards == shard
    };
    // (a) all builder configurations
    for bits in 0..16u32 {
        for mfs in VALS {
            for wts in VALS {
                if !mine() {
                    continue;
                }
                let cfg = EndConfig { grease: bits & 1 != 0, webtransport: bits & 2 != 0, extended_connect: bits & 4 != 0, datagram: bits & 8 != 0, max_field_section_size: Some(mfs), max_wt_sessions: Some(wts), setter_order: 0 };
                check_setup(true, cfg, ctx)?;
            }
        }
    }
    for bits in 0..8u32 {
        for mfs in VALS {
            if !mine() {
                continue;
            }
            let cfg = EndConfig { grease: bits & 1 != 0, webtransport: false, extended_connect: bits & 2 != 0, datagram: bits & 4 != 0, max_field_section_size: Some(mfs), max_wt_sessions: None, setter_order: 0 };
            check_setup(false, cfg, ctx)?;
        }
    }
    // the order in which the setters are called (and an earlier call with the opposite value) must not matter
    for bits in 0..16u32 {
        for order in 1..8u8 {
            if !mine() {
                continue;
            }
            let cfg = EndConfig { grease: bits & 1 != 0, webtransport: bits & 2 != 0, extended_connect: bits & 4 != 0, datagram: bits & 8 != 0, max_field_section_size: Some(1000), max_wt_sessions: Some(3), setter_order: order };
            check_setup(true, cfg, ctx)?;
            if bits & 2 == 0 {
                check_setup(false, EndConfig { max_wt_sessions: None, ..cfg }, ctx)?;
            }
            ctx.class("setter_order_varied");
        }
    }
    if mine() {
        check_setup(true, EndConfig { grease: true, ..Default::default() }, ctx)?;
        check_setup(false, EndConfig { grease: true, ..Default::default() }, ctx)?;
    }
    if shard == 0 {
        ctx.subspace("every builder configuration: server 1936 + client 88 (+ defaults)", 1936 + 88 + 2);
    }
    // (b) payloads
    let mut opts: Vec<Vec<u8>> = Vec::new();
    for id in IDS {
        for v in PVALS {
            opts.push(entry(id, v, false));
            opts.push(entry(id, v, true));
        }
    }
    let mut count = 0u64;
    for server in [true, false] {
        if mine() {
            check_payload(server, None, Style::Eager, &[], ctx)?;
            check_payload(server, Some(&[]), Style::Eager, &[], ctx)?;
        }
        for a in &opts {
            if mine() {
                for cut in 0..=a.len() {
                    check_payload(server, Some(&a[..cut]), if cut % 2 == 0 { Style::Eager } else { Style::Tiny }, &[], ctx)?;
                    count += 1;
                }
            }
            for b in &opts {
                if !mine() {
                    continue;
                }
                let mut p = a.clone();
                p.extend_from_slice(b);
                check_payload(server, Some(&p), Style::Eager, &[], ctx)?;
                count += 1;
                // truncations of the two entry payloads (inside the second entry)
                for cut in a.len() + 1..p.len() {
                    check_payload(server, Some(&p[..cut]), Style::Eager, &[], ctx)?;
                    count += 1;
                }
                if ctx.tier == Tier::Thorough {
                    for c in opts.iter().step_by(2) {
                        let mut q = p.clone();
                        q.extend_from_slice(c);
                        check_payload(server, Some(&q), Style::Eager, &[], ctx)?;
                    }
                }
            }
        }
    }
    // (c) long payloads: a peer may list any number of identifiers this endpoint does not know; what it does know still
    // takes effect (sizes around 128 bytes = 8 entries in the longest form, and far beyond)
    if shard == 0 {
        for server in [true, false] {
            for m in [0usize, 6, 7, 8, 9, 15, 16, 17, 40, 1000] {
                for long_form in [false, true] {
                    let mut p = Vec::new();
                    p.extend(entry(0x6, 77, false));
                    p.extend(entry(0x33, 1, false));
                    for k in 0..m {
                        p.extend(entry(0x21 + 0x1f * (1000 + k as u64), (1 << 40) + k as u64, long_form));
                    }
                    p.extend(entry(0x8, 1, false));
                    check_payload(server, Some(&p), if m % 2 == 0 { Style::Eager } else { Style::Tiny }, &[], ctx)?;
                    ctx.class("long_settings_payload");
                }
            }
        }
        ctx.subspace("three known entries around 0..1000 unknown ones in short and long varint forms (payloads of 6..16000 bytes), both roles", 40);
    }
    let _ = count;
    if shard == 0 {
        let n = opts.len() as u64;
        ctx.subspace("SETTINGS payloads of <= 2 entries over 12 ids x 5 values x 2 varint forms, every truncation, both roles (3 entries in thorough)", 2 * (n * n + n));
    }
    Ok(())
}

fn run_tape(tape: &[u16], ctx: &mut Ctx) -> Verdict {
    let mut t = Tape::new(tape);
    if t.chance(1, 12) {
        let server = t.bool();
        let pick = |t: &mut Tape| if t.bool() { Some(if t.chance(1, 2) { *t.choose(&VALS) } else { t.u64() >> t.pick(64) }) } else { None };
        let cfg = EndConfig { grease: t.bool(), webtransport: server && t.bool(), extended_connect: t.bool(), datagram: t.bool(), max_field_section_size: pick(&mut t), max_wt_sessions: if server { pick(&mut t) } else { None }, setter_order: t.pick(8) as u8 };
        return check_setup(server, cfg, ctx);
    }
    let server = t.bool();
    let n = t.int(0, 9) as usize;
    let mut entries: Vec<(u64, u64, bool)> = Vec::new();
    for _ in 0..n {
        let id = match t.pick(4) {
            0 => *t.choose(&IDS),
            1 => *t.choose(&rs::KNOWN),
            2 => 0x21 + 0x1f * t.int(0, 1 << 20),
            _ => t.u64() >> 2 >> t.pick(60),
        };
        let v = match t.pick(4) {
            0 => *t.choose(&PVALS),
            1 => t.int(0, 400),
            2 => *t.choose(&VALS) & VARINT_MAX,
            _ => t.u64() >> 2 >> t.pick(62),
        };
        entries.push((id, v, t.chance(1, 4)));
    }
    if t.chance(1, 3) && !entries.is_empty() {
        // force a duplicate
        let e = entries[t.pick(entries.len())];
        let pos = t.pick(entries.len() + 1);
        entries.insert(pos, (e.0, if t.bool() { e.1 } else { e.1 ^ 1 }, e.2));
    }
    let mut p = Vec::new();
    for (id, v, nm) in &entries {
        p.extend(entry(*id, *v, *nm));
    }
    if t.chance(1, 5) && !p.is_empty() {
        let cut = t.pick(p.len());
        p.truncate(cut);
    }
    let style = match t.pick(3) {
        0 => Style::Eager,
        1 => Style::Tiny,
        _ => Style::Random,
    };
    let sched: Vec<u16> = tape[t.position().min(tape.len())..].to_vec();
    check_payload(server, Some(&p), style, &sched, ctx)
}

fn run_direct(d: &Value, ctx: &mut Ctx) -> Verdict {
    let server = d["role"].as_str() == Some("server");
    match d["kind"].as_str() {
        Some("setup") => {
            let c = d["cfg"].as_array().map(|a| a.iter().map(|x| x.as_bool().unwrap_or(false)).collect::<Vec<_>>()).unwrap_or_default();
            let num = |k: &str| d[k].as_str().and_then(|s| s.parse::<u64>().ok());
            let cfg = EndConfig { grease: c.first().copied().unwrap_or(false), webtransport: c.get(1).copied().unwrap_or(false), extended_connect: c.get(2).copied().unwrap_or(false), datagram: c.get(3).copied().unwrap_or(false), max_field_section_size: num("mfs"), max_wt_sessions: num("wts"), setter_order: d["setter_order"].as_u64().unwrap_or(0) as u8 };
            check_setup(server, cfg, ctx)
        }
        Some("payload") => {
            let p = d["payload"].as_str().map(unhex);
            let style = match d["style"].as_str() {
                Some("Eager") => Style::Eager,
                Some("Tiny") => Style::Tiny,
                _ => Style::Random,
            };
            let sched: Vec<u16> = d["sched"].as_array().map(|a| a.iter().map(|x| x.as_u64().unwrap_or(0) as u16).collect()).unwrap_or_default();
            check_payload(server, p.as_deref(), style, &sched, ctx)
        }
        _ => Err(Failure::fault("unknown direct case")),
    }
}
