//! C17 - The Quinn adapter moves bytes, identifiers and errors faithfully (E4: real quinn over UDP loopback).

use std::cell::RefCell;
use std::net::{Ipv6Addr, SocketAddr};
use std::sync::Arc;
use std::task::Poll;
use std::time::Duration;

use bytes::{Buf, Bytes};
use h3::proto::frame::Frame;
use h3::proto::stream::StreamType;
use h3::proto::varint::VarInt;
use h3::quic::{self, ConnectionErrorIncoming, OpenStreams, RecvStream, SendStream, SendStreamUnframed, StreamErrorIncoming, WriteBuf};
use quinn::crypto::rustls::{QuicClientConfig, QuicServerConfig};
use quinn::TransportConfig;
use rustls::pki_types::{CertificateDer, PrivateKeyDer};
use serde_json::{json, Value};

use crate::runner::{Ctx, Failure, PropDef, Verdict};
use crate::tape::{prf_bytes, Tape};

pub static PROP: PropDef = PropDef {
    id: "C17",
    rule: "cases over real Quinn endpoints on UDP loopback (fresh connection per case): (write) 1..6 frames (DATA / HEADERS / GOAWAY / grease WriteBufs, stream-type-prefixed frames) with payloads 0..256 KiB written through h3_quinn::SendStream::{send_data, poll_ready} \
           and raw poll_send, with stream / connection receive windows and send window from tiny to large so that writes are taken in pieces; a second send_data before poll_ready completed must be refused and contribute no byte; a raw Quinn peer reads to the end: \
           bytes == concatenation of what was handed over, nothing twice, nothing missing, in order. (recv) a raw Quinn peer writes 0..6 pieces (0..100 KB) on the nth bidi/uni stream it opened, as client or server, and ends with FIN or RESET(code); the adapter's poll_data, optionally polled once with a no-op waker before every awaited read (a read in flight), must hand out exactly those bytes in order and then the end / StreamTerminated{code}, recv_id = RFC 9000 2.1 id at every step. \
           (ids) send_id / recv_id queried in every state {fresh, read pending, data read, FIN seen, reset seen, after stop_sending, write pending, finished} on the first or a later stream, client- or server-initiated: always the QUIC stream id (also on the earlier streams and after split), never a panic. \
           (errors; after the first report the call is repeated three times: no panic, no different code, same id) peer close(code) => ApplicationClose{same code}, also for streams opened afterwards through the connection, its opener() handle and a clone of it; idle timeout => Timeout, likewise; idle timeout => Timeout; peer reset(code) => StreamTerminated{same code} on read; peer stop(code) => StreamTerminated{same code} on write. \
           non-trivial = a write whose payload exceeds the stream receive window (it cannot have been taken whole), or an id query in a non-fresh state, or an injected error; distinct by case parameters",
    assumptions: &[
        "the schedule is whatever Quinn, tokio and the kernel produce: it is sampled, not controlled; partial writes are provoked through Quinn's flow-control windows",
        "wall-clock watchdogs (20 s per case) end a case as inconclusive (exit 2), never as a violation",
    ],
    tape_len: 40,
    random_cases: |t| t.pick(1_200, 20_000),
    run_tape,
    exhaustive: Some(exhaustive),
    run_direct: Some(run_direct),
    min_classes: &[("write_exceeds_window", 50), ("second_send_refused", 50), ("id_state_checked", 50), ("error_table_row", 8), ("poll_send_used", 20), ("recv_direction", 50), ("recv_with_read_in_flight", 10), ("id_not_zero", 50)],
    extra: None,
};

struct Fixture {
    rt: tokio::runtime::Runtime,
    server: quinn::Endpoint,
    client: quinn::Endpoint,
    addr: SocketAddr,
    cert: CertificateDer<'static>,
    key: PrivateKeyDer<'static>,
}

thread_local! {
    static FIX: RefCell<Option<Fixture>> = const { RefCell::new(None) };
}

fn server_config(cert: &CertificateDer<'static>, key: &PrivateKeyDer<'static>, tc: Arc<TransportConfig>) -> quinn::ServerConfig {
    let mut crypto = rustls::ServerConfig::builder_with_provider(Arc::new(rustls::crypto::ring::default_provider()))
        .with_protocol_versions(&[&rustls::version::TLS13])
        .unwrap()
        .with_no_client_auth()
        .with_single_cert(vec![cert.clone()], key.clone_key())
        .unwrap();
    crypto.alpn_protocols = vec![b"h3".to_vec()];
    let mut sc = quinn::ServerConfig::with_crypto(Arc::new(QuicServerConfig::try_from(crypto).unwrap()));
    sc.transport = tc;
    sc
}

fn client_config(cert: &CertificateDer<'static>, tc: Arc<TransportConfig>) -> quinn::ClientConfig {
    let mut roots = rustls::RootCertStore::empty();
    roots.add(cert.clone()).unwrap();
    let mut crypto = rustls::ClientConfig::builder_with_provider(Arc::new(rustls::crypto::ring::default_provider()))
        .with_protocol_versions(&[&rustls::version::TLS13])
        .unwrap()
        .with_root_certificates(roots)
        .with_no_client_auth();
    crypto.alpn_protocols = vec![b"h3".to_vec()];
    let mut cc = quinn::ClientConfig::new(Arc::new(QuicClientConfig::try_from(crypto).unwrap()));
    cc.transport_config(tc);
    cc
}

fn with_fixture<R>(f: impl FnOnce(&Fixture) -> R) -> Result<R, String> {
    FIX.with(|c| {
        let mut g = c.borrow_mut();
        if g.is_none() {
            let rt = tokio::runtime::Builder::new_current_thread().enable_all().build().map_err(|e| format!("runtime: {e}"))?;
            let cert = rcgen::generate_simple_self_signed(vec!["localhost".into()]).map_err(|e| format!("rcgen: {e}"))?;
            let key = PrivateKeyDer::Pkcs8(cert.signing_key.serialize_der().into());
            let cert: CertificateDer<'static> = cert.cert.into();
            let (server, client, addr) = {
                let _guard = rt.enter();
                let server = quinn::Endpoint::server(server_config(&cert, &key, Arc::new(TransportConfig::default())), SocketAddr::from((Ipv6Addr::LOCALHOST, 0))).map_err(|e| format!("server endpoint: {e}"))?;
                let addr = server.local_addr().map_err(|e| format!("{e}"))?;
                let client = quinn::Endpoint::client(SocketAddr::from((Ipv6Addr::LOCALHOST, 0))).map_err(|e| format!("client endpoint: {e}"))?;
                (server, client, addr)
            };
            *g = Some(Fixture { rt, server, client, addr, cert, key });
        }
        Ok(f(g.as_ref().unwrap()))
    })
}

#[derive(Debug, Clone, Copy, PartialEq, Eq, Hash)]
pub struct Windows {
    pub stream_rx: u64,
    pub conn_rx: u64,
    pub send: u64,
}

fn transport(w: &Windows, idle_ms: Option<u64>) -> Arc<TransportConfig> {
    let mut tc = TransportConfig::default();
    tc.stream_receive_window(quinn::VarInt::from_u64(w.stream_rx.max(1)).unwrap());
    tc.receive_window(quinn::VarInt::from_u64(w.conn_rx.max(1)).unwrap());
    tc.send_window(w.send.max(1));
    tc.initial_rtt(Duration::from_millis(5));
    if let Some(ms) = idle_ms {
        tc.max_idle_timeout(Some(Duration::from_millis(ms).try_into().unwrap()));
    }
    Arc::new(tc)
}

async fn connect(fx: &Fixture, w: &Windows, idle_ms: Option<u64>) -> Result<(quinn::Connection, quinn::Connection), String> {
    fx.server.set_server_config(Some(server_config(&fx.cert, &fx.key, transport(w, idle_ms))));
    let connecting = fx.client.connect_with(client_config(&fx.cert, transport(w, idle_ms)), fx.addr, "localhost").map_err(|e| format!("connect: {e}"))?;
    let (c, s) = tokio::join!(connecting, async {
        match fx.server.accept().await {
            Some(inc) => inc.await.map_err(|e| format!("accept: {e}")),
            None => Err("endpoint closed".to_string()),
        }
    });
    Ok((c.map_err(|e| format!("handshake: {e}"))?, s?))
}

#[derive(Debug, Clone, PartialEq, Eq, Hash)]
pub enum FrameSpec {
    Data(usize),
    Headers(usize),
    Goaway(u64),
    Grease,
    TypedData(u64, usize),
    /// unframed bytes through poll_send
    Raw(usize),
}

fn make_buf(f: &FrameSpec, k: usize) -> Option<WriteBuf<Bytes>> {
    fastrand::seed(1000 + k as u64);
    Some(match f {
        FrameSpec::Data(n) => WriteBuf::from(Frame::Data(Bytes::from(prf_bytes(k as u64, *n)))),
        FrameSpec::Headers(n) => WriteBuf::from(Frame::Headers(Bytes::from(prf_bytes(k as u64 + 77, *n)))),
        FrameSpec::Goaway(id) => WriteBuf::from(Frame::Goaway(VarInt::from_u64(*id).unwrap())),
        FrameSpec::Grease => WriteBuf::from(Frame::Grease),
        FrameSpec::TypedData(t, n) => WriteBuf::from((StreamType::from_value(*t), Frame::Data(Bytes::from(prf_bytes(k as u64 + 5, *n))))),
        FrameSpec::Raw(_) => return None,
    })
}

fn drain(mut b: impl Buf) -> Vec<u8> {
    let mut out = Vec::with_capacity(b.remaining());
    while b.has_remaining() {
        let c = b.chunk().to_vec();
        b.advance(c.len());
        out.extend(c);
    }
    out
}

#[derive(Debug, Clone)]
pub struct WriteCase {
    pub windows: Windows,
    pub bidi: bool,
    pub frames: Vec<FrameSpec>,
    pub double_send: bool,
    /// the last framed write is polled once only (a send future that was dropped: timeout, select!) before the stream is finished
    pub early_finish: bool,
    /// a bidirectional stream is split into its halves after the last write (which may still be pending, see `early_finish`)
    /// and finished through the send half: the halves are the same stream, the unfinished buffer goes with the send half
    pub split_before_finish: bool,
}

fn hfault(m: impl Into<String>) -> Failure {
    Failure::fault(m)
}

async fn write_case(fx: &Fixture, c: &WriteCase) -> Result<Result<(bool, bool, bool), String>, Failure> {
    let (cc, sc) = connect(fx, &c.windows, None).await.map_err(hfault)?;
    let mut conn = h3_quinn::Connection::new(cc.clone());
    // everything handed over is a pure function of the case: the complete expected wire image is known up front,
    // and the raw quinn reader is an online monitor (a duplicated or reordered prefix is a violation at the first
    // differing byte, not a stall that only the watchdog ends)
    let mut expected: Vec<u8> = Vec::new();
    for (k, f) in c.frames.iter().enumerate() {
        match f {
            FrameSpec::Raw(n) => expected.extend_from_slice(&prf_bytes(k as u64 + 900, *n)),
            _ => expected.extend(drain(make_buf(f, k).unwrap())),
        }
    }
    let expected = Arc::new(expected);
    let mut refused = false;
    let mut used_poll_send = false;
    let mut finish_with_write_pending = false;
    let last_framed = c.frames.iter().rposition(|f| !matches!(f, FrameSpec::Raw(_))).filter(|k| c.early_finish && *k + 1 == c.frames.len());
    // reader on the raw quinn side
    let bidi = c.bidi;
    let exp = expected.clone();
    let mut reader = tokio::spawn(async move {
        let mut rx = if bidi {
            let (_tx, rx) = sc.accept_bi().await.map_err(|e| format!("accept_bi: {e}"))?;
            std::mem::forget(_tx);
            rx
        } else {
            sc.accept_uni().await.map_err(|e| format!("accept_uni: {e}"))?
        };
        let mut got = 0usize;
        loop {
            match rx.read_chunk(usize::MAX, true).await {
                Ok(Some(ch)) => {
                    let b = &ch.bytes[..];
                    let want = &exp[got.min(exp.len())..(got + b.len()).min(exp.len())];
                    if want != b {
                        let n = got + b.iter().zip(want.iter()).take_while(|(a, b)| a == b).count();
                        return Err(format!("the peer has read {} bytes, {} were handed over; first difference at offset {n}", got + b.len(), exp.len()));
                    }
                    got += b.len();
                }
                Ok(None) => break,
                Err(e) => return Err(format!("peer read: {e}")),
            }
        }
        if got != exp.len() {
            return Err(format!("the stream ended after {got} bytes, {} were handed over", exp.len()));
        }
        Ok::<_, String>(sc)
    });
    enum S {
        Bi(h3_quinn::BidiStream<Bytes>),
        Uni(h3_quinn::SendStream<Bytes>),
        Halves(h3_quinn::SendStream<Bytes>, #[allow(dead_code)] h3_quinn::RecvStream),
    }
    let mut s = if c.bidi {
        S::Bi(std::future::poll_fn(|cx| <h3_quinn::Connection as OpenStreams<Bytes>>::poll_open_bidi(&mut conn, cx)).await.map_err(|e| hfault(format!("open_bidi: {e}")))?)
    } else {
        S::Uni(std::future::poll_fn(|cx| <h3_quinn::Connection as OpenStreams<Bytes>>::poll_open_send(&mut conn, cx)).await.map_err(|e| hfault(format!("open_send: {e}")))?)
    };
    macro_rules! on {
        ($s:expr, $x:ident => $e:expr) => {
            match $s {
                S::Bi($x) => $e,
                S::Uni($x) => $e,
                S::Halves($x, _) => $e,
            }
        };
    }
    let writer = async move {
        for (k, f) in c.frames.iter().enumerate() {
            match f {
                FrameSpec::Raw(n) => {
                    used_poll_send = true;
                    let data = prf_bytes(k as u64 + 900, *n);
                    let mut b = Bytes::from(data);
                    while b.has_remaining() {
                        let before = b.remaining();
                        let r = on!(&mut s, x => std::future::poll_fn(|cx| x.poll_send(cx, &mut b)).await);
                        match r {
                            Ok(w) => {
                                if before - b.remaining() != w {
                                    return Err(format!("poll_send reported {w} bytes written but advanced the buffer by {}", before - b.remaining()));
                                }
                                if w == 0 {
                                    return Err("poll_send wrote 0 bytes of a non-empty buffer".into());
                                }
                            }
                            Err(e) => return Err(format!("poll_send failed: {e}")),
                        }
                    }
                }
                _ => {
                    let wb = make_buf(f, k).unwrap();
                    if let Err(e) = on!(&mut s, x => x.send_data(wb)) {
                        return Err(format!("send_data refused on an idle stream: {e}"));
                    }
                    if c.double_send {
                        // a new write while the earlier one is unfinished must be refused and contribute nothing
                        let again = WriteBuf::from(Frame::Data(Bytes::from_static(b"MUST-NOT-APPEAR")));
                        match on!(&mut s, x => x.send_data(again)) {
                            Err(_) => refused = true,
                            Ok(()) => return Err("a second send_data was accepted while the first write was unfinished".into()),
                        }
                    }
                    if last_framed == Some(k) {
                        // one poll, then the future that drove the write is gone
                        let waker = futures_util::task::noop_waker();
                        let mut cx = std::task::Context::from_waker(&waker);
                        match on!(&mut s, x => x.poll_ready(&mut cx)) {
                            Poll::Pending => finish_with_write_pending = true,
                            Poll::Ready(Ok(())) => {}
                            Poll::Ready(Err(e)) => return Err(format!("poll_ready failed: {e}")),
                        }
                        break;
                    }
                    if let Err(e) = on!(&mut s, x => std::future::poll_fn(|cx| x.poll_ready(cx)).await) {
                        return Err(format!("poll_ready failed: {e}"));
                    }
                }
            }
        }
        if c.split_before_finish {
            s = match s {
                S::Bi(b) => {
                    let (tx, rx) = quic::BidiStream::split(b);
                    S::Halves(tx, rx)
                }
                other => other,
            };
        }
        // the buffer was handed over: it reaches the peer complete, whether finishing flushes it first or refuses until the
        // application has driven the write to its end (both are accepted; a clean end of the stream inside it is not - the
        // monitor on the peer's side decides)
        let mut retried = false;
        loop {
            match on!(&mut s, x => std::future::poll_fn(|cx| x.poll_finish(cx)).await) {
                Ok(()) => break,
                Err(_) if finish_with_write_pending && !retried => {
                    retried = true;
                    if let Err(e) = on!(&mut s, x => std::future::poll_fn(|cx| x.poll_ready(cx)).await) {
                        return Err(format!("poll_ready failed: {e}"));
                    }
                }
                Err(e) => return Err(format!("poll_finish failed: {e}")),
            }
        }
        Ok::<_, String>((s, refused, used_poll_send, finish_with_write_pending))
    };
    tokio::pin!(writer);
    // the monitor's verdict wins: a byte the peer should never have seen decides the case even if the writer is stuck
    let mut wrote = None;
    let read = tokio::select! {
        biased;
        r = &mut reader => r,
        w = &mut writer => {
            match w {
                Ok(x) => wrote = Some(x),
                Err(m) => return Ok(Err(m)),
            }
            (&mut reader).await
        }
    };
    let sc = match read {
        Ok(Ok(x)) => x,
        Ok(Err(e)) => return Ok(Err(e)),
        Err(e) => return Err(hfault(format!("reader task: {e}"))),
    };
    let (s, refused, used_poll_send, fwp) = match wrote {
        Some(x) => x,
        None => match writer.await {
            Ok(x) => x,
            Err(m) => return Ok(Err(m)),
        },
    };
    drop(s);
    cc.close(0u32.into(), b"done");
    drop(sc);
    Ok(Ok((refused, used_poll_send, fwp)))
}

fn block<T>(f: impl std::future::Future<Output = T>, fx: &Fixture) -> Result<T, Failure> {
    fx.rt.block_on(async { tokio::time::timeout(Duration::from_secs(20), f).await }).map_err(|_| Failure::fault("watchdog: case did not finish within 20 s"))
}

fn case_json_write(c: &WriteCase) -> Value {
    json!({"kind": "write", "windows": [c.windows.stream_rx, c.windows.conn_rx, c.windows.send], "bidi": c.bidi, "double_send": c.double_send, "early_finish": c.early_finish, "split_before_finish": c.split_before_finish, "frames": c.frames.iter().map(|f| format!("{f:?}")).collect::<Vec<_>>()})
}

fn run_write(c: &WriteCase, ctx: &mut Ctx) -> Verdict {
    ctx.eval();
    if std::env::var("VERIF_TRACE").is_ok() {
        eprintln!("write case: {}", case_json_write(c));
    }
    let r = with_fixture(|fx| block(write_case(fx, c), fx)).map_err(Failure::fault)?;
    match r?? {
        Ok((refused, raw, fwp)) => {
            if fwp {
                ctx.class("finish_with_write_pending");
                if c.split_before_finish && c.bidi {
                    ctx.class("split_with_write_pending");
                }
            }
            if refused {
                ctx.class("second_send_refused");
            }
            if raw {
                ctx.class("poll_send_used");
            }
            let big = c.frames.iter().any(|f| match f {
                FrameSpec::Data(n) | FrameSpec::Headers(n) | FrameSpec::TypedData(_, n) | FrameSpec::Raw(n) => *n as u64 > c.windows.stream_rx.min(c.windows.conn_rx).min(c.windows.send),
                _ => false,
            });
            if big {
                ctx.class("write_exceeds_window");
                ctx.nontrivial(&format!("{:?}", case_json_write(c)));
            }
            ctx.sample(|| case_json_write(c));
            Ok(())
        }
        Err(m) => Err(Failure::direct(m, case_json_write(c))),
    }
}

// ------------------------------------------------------------------------------------------------
// identifiers in every state

#[derive(Debug, Clone, Copy, PartialEq, Eq, Hash)]
pub enum IdState {
    Fresh,
    ReadPending,
    DataRead,
    FinSeen,
    ResetSeen,
    AfterStop,
    WritePending,
    Finished,
}

const ID_STATES: [IdState; 8] = [IdState::Fresh, IdState::ReadPending, IdState::DataRead, IdState::FinSeen, IdState::ResetSeen, IdState::AfterStop, IdState::WritePending, IdState::Finished];

/// `nth`: that many earlier bidirectional streams are opened (and kept) by the same initiator first; `flip`: the roles
/// are swapped, so that the stream under test is server-initiated (id 4*nth + 1) instead of client-initiated (4*nth)
async fn id_case(fx: &Fixture, st: IdState, accepted_side: bool, nth: u64, flip: bool) -> Result<Result<(), String>, Failure> {
    let w = Windows { stream_rx: 8, conn_rx: 1 << 20, send: 1 << 20 };
    let (cc, sc) = connect(fx, &w, None).await.map_err(hfault)?;
    // the adapter under test opens the stream or accepts it; unflipped it is the client when it opens
    let adapter_is_server = accepted_side ^ flip;
    let (adapter_conn, raw_conn) = if adapter_is_server { (sc.clone(), cc.clone()) } else { (cc.clone(), sc.clone()) };
    let initiator_is_server = if accepted_side { !adapter_is_server } else { adapter_is_server };
    let mut conn = h3_quinn::Connection::new(adapter_conn);
    let mut bi: h3_quinn::BidiStream<Bytes>;
    let (mut raw_tx, mut raw_rx);
    let mut earlier_raw = Vec::new();
    let mut earlier_adapter = Vec::new();
    for _ in 0..nth {
        if accepted_side {
            let (mut tx, rx) = raw_conn.open_bi().await.map_err(|e| hfault(format!("{e}")))?;
            tx.write_all(b"e").await.map_err(|e| hfault(format!("{e}")))?;
            earlier_raw.push((tx, rx));
            let b: h3_quinn::BidiStream<Bytes> = std::future::poll_fn(|cx| <h3_quinn::Connection as quic::Connection<Bytes>>::poll_accept_bidi(&mut conn, cx)).await.map_err(|e| hfault(format!("accept: {e}")))?;
            earlier_adapter.push(b);
        } else {
            let mut b: h3_quinn::BidiStream<Bytes> = std::future::poll_fn(|cx| <h3_quinn::Connection as OpenStreams<Bytes>>::poll_open_bidi(&mut conn, cx)).await.map_err(|e| hfault(format!("open: {e}")))?;
            b.send_data(WriteBuf::from(Frame::Data(Bytes::from_static(b"e")))).map_err(|e| hfault(format!("{e}")))?;
            std::future::poll_fn(|cx| b.poll_ready(cx)).await.map_err(|e| hfault(format!("{e}")))?;
            earlier_raw.push(raw_conn.accept_bi().await.map_err(|e| hfault(format!("{e}")))?);
            earlier_adapter.push(b);
        }
    }
    if accepted_side {
        let (tx, rx) = raw_conn.open_bi().await.map_err(|e| hfault(format!("{e}")))?;
        raw_tx = tx;
        raw_rx = rx;
        raw_tx.write_all(b"x").await.map_err(|e| hfault(format!("{e}")))?;
        bi = std::future::poll_fn(|cx| <h3_quinn::Connection as quic::Connection<Bytes>>::poll_accept_bidi(&mut conn, cx)).await.map_err(|e| hfault(format!("accept: {e}")))?;
        // consume the announcing byte so that all states start equal
        let _ = std::future::poll_fn(|cx| bi.poll_data(cx)).await;
    } else {
        bi = std::future::poll_fn(|cx| <h3_quinn::Connection as OpenStreams<Bytes>>::poll_open_bidi(&mut conn, cx)).await.map_err(|e| hfault(format!("open: {e}")))?;
        bi.send_data(WriteBuf::from(Frame::Data(Bytes::from_static(b"y")))).map_err(|e| hfault(format!("{e}")))?;
        std::future::poll_fn(|cx| bi.poll_ready(cx)).await.map_err(|e| hfault(format!("{e}")))?;
        let (tx, rx) = raw_conn.accept_bi().await.map_err(|e| hfault(format!("{e}")))?;
        raw_tx = tx;
        raw_rx = rx;
    }
    // every connection here is fresh: the nth bidirectional stream of its initiator (RFC 9000 2.1)
    let want: u64 = 4 * nth + initiator_is_server as u64;
    for (k, b) in earlier_adapter.iter().enumerate() {
        let w = 4 * k as u64 + initiator_is_server as u64;
        match crate::runner::catch(|| (b.send_id().into_inner(), b.recv_id().into_inner())) {
            Ok((s, r)) if s == w && r == w => {}
            Ok((s, r)) => return Ok(Err(format!("earlier stream {k}: send_id {s} recv_id {r}, the QUIC stream id is {w}"))),
            Err(p) => return Ok(Err(format!("earlier stream {k}: asking for the stream id panicked: {p}"))),
        }
    }
    let check = |bi: &h3_quinn::BidiStream<Bytes>, when: &str| -> Result<(), String> {
        let r = crate::runner::catch(|| (bi.send_id().into_inner(), bi.recv_id().into_inner()));
        match r {
            Ok((s, r)) if s == want && r == want => Ok(()),
            Ok((s, r)) => Err(format!("{when}: send_id {s} recv_id {r}, the QUIC stream id is {want}")),
            Err(p) => Err(format!("{when}: asking for the stream id panicked: {p}")),
        }
    };
    if let Err(e) = check(&bi, "fresh") {
        return Ok(Err(e));
    }
    let waker = futures_util::task::noop_waker();
    let mut cx = std::task::Context::from_waker(&waker);
    match st {
        IdState::Fresh => {}
        IdState::ReadPending => {
            if !matches!(bi.poll_data(&mut cx), Poll::Pending) {
                return Err(hfault("read was expected to be pending"));
            }
            if let Err(e) = check(&bi, "while a read is pending") {
                return Ok(Err(e));
            }
            // and again after the peer sent something and the read completed
            raw_tx.write_all(b"later").await.map_err(|e| hfault(format!("{e}")))?;
            let _ = std::future::poll_fn(|cx| bi.poll_data(cx)).await;
        }
        IdState::DataRead => {
            raw_tx.write_all(b"data").await.map_err(|e| hfault(format!("{e}")))?;
            let _ = std::future::poll_fn(|cx| bi.poll_data(cx)).await;
        }
        IdState::FinSeen => {
            raw_tx.finish().map_err(|e| hfault(format!("{e}")))?;
            loop {
                match std::future::poll_fn(|cx| bi.poll_data(cx)).await {
                    Ok(Some(_)) => {}
                    _ => break,
                }
            }
        }
        IdState::ResetSeen => {
            raw_tx.reset(7u32.into()).map_err(|e| hfault(format!("{e}")))?;
            loop {
                match std::future::poll_fn(|cx| bi.poll_data(cx)).await {
                    Ok(Some(_)) => {}
                    _ => break,
                }
            }
        }
        IdState::AfterStop => {
            bi.stop_sending(9);
            // also with a read in flight
            let _ = bi.poll_data(&mut cx);
            bi.stop_sending(9);
        }
        IdState::WritePending => {
            bi.send_data(WriteBuf::from(Frame::Data(Bytes::from(vec![1u8; 5000])))).map_err(|e| hfault(format!("{e}")))?;
            let _ = bi.poll_ready(&mut cx);
        }
        IdState::Finished => {
            let _ = std::future::poll_fn(|cx| bi.poll_finish(cx)).await;
        }
    }
    let r = check(&bi, &format!("{st:?}"));
    // split halves report the same ids
    let r = r.and_then(|()| {
        let (tx, rx) = quic::BidiStream::split(bi);
        match crate::runner::catch(|| (tx.send_id().into_inner(), rx.recv_id().into_inner())) {
            Ok((s, r)) if s == want && r == want => Ok(()),
            Ok((s, r)) => Err(format!("after split in state {st:?}: send_id {s} recv_id {r}, expected {want}")),
            Err(p) => Err(format!("after split in state {st:?}: asking for the stream id panicked: {p}")),
        }
    });
    let _ = raw_rx.stop(0u32.into());
    cc.close(0u32.into(), b"done");
    drop((earlier_raw, earlier_adapter));
    Ok(r)
}

fn run_id(st: IdState, accepted: bool, nth: u64, flip: bool, ctx: &mut Ctx) -> Verdict {
    ctx.eval();
    let r = with_fixture(|fx| block(id_case(fx, st, accepted, nth, flip), fx)).map_err(Failure::fault)?;
    match r?? {
        Ok(()) => {
            ctx.class("id_state_checked");
            if nth > 0 || flip {
                ctx.class("id_not_zero");
            }
            if st != IdState::Fresh {
                ctx.nontrivial(&(format!("{st:?}"), accepted, nth, flip));
            }
            Ok(())
        }
        Err(m) => Err(Failure::direct(m, json!({"kind": "id", "state": format!("{st:?}"), "accepted": accepted, "nth": nth, "flip": flip}))),
    }
}

// ------------------------------------------------------------------------------------------------
// receive direction (and unidirectional identifiers): what a raw Quinn peer writes is what poll_data hands out

#[derive(Debug, Clone)]
pub struct RecvCase {
    pub windows: Windows,
    pub bidi: bool,
    /// the raw peer is the server (stream ids 4n+1 / 4n+3) instead of the client
    pub peer_is_server: bool,
    /// earlier streams of the same kind opened first
    pub nth: u64,
    /// sizes of the peer's writes; a pause (yield) follows each
    pub writes: Vec<usize>,
    /// before each awaited read: poll once with a no-op waker (leaves a read in flight), ask for the id
    pub poke: bool,
    /// how the peer ends: FIN, or RESET(code) after everything was written
    pub reset: Option<u64>,
}

async fn recv_case(fx: &Fixture, c: &RecvCase) -> Result<Result<usize, String>, Failure> {
    let (cc, sc) = connect(fx, &c.windows, None).await.map_err(hfault)?;
    let (adapter_conn, raw_conn) = if c.peer_is_server { (cc.clone(), sc.clone()) } else { (sc.clone(), cc.clone()) };
    let mut conn = h3_quinn::Connection::new(adapter_conn);
    let total: usize = c.writes.iter().sum();
    let expected = Arc::new(prf_bytes(4242 + total as u64, total));
    let want_id = 4 * c.nth + c.peer_is_server as u64 + if c.bidi { 0 } else { 2 };
    let (bidi, nth, writes, reset, exp) = (c.bidi, c.nth, c.writes.clone(), c.reset, expected.clone());
    let writer = tokio::spawn(async move {
        let mut keep_bi = Vec::new();
        let mut keep_uni = Vec::new();
        for _ in 0..nth {
            if bidi {
                let (mut tx, rx) = raw_conn.open_bi().await.map_err(|e| format!("open_bi: {e}"))?;
                tx.write_all(b"e").await.map_err(|e| format!("{e}"))?;
                keep_bi.push((tx, rx));
            } else {
                let mut tx = raw_conn.open_uni().await.map_err(|e| format!("open_uni: {e}"))?;
                tx.write_all(b"e").await.map_err(|e| format!("{e}"))?;
                keep_uni.push(tx);
            }
        }
        let (mut tx, rx) = if bidi {
            let (tx, rx) = raw_conn.open_bi().await.map_err(|e| format!("open_bi: {e}"))?;
            (tx, Some(rx))
        } else {
            (raw_conn.open_uni().await.map_err(|e| format!("open_uni: {e}"))?, None)
        };
        // announce the stream even when nothing else is written
        tx.write_all(b"!").await.map_err(|e| format!("peer write: {e}"))?;
        let mut off = 0;
        for n in writes {
            tx.write_all(&exp[off..off + n]).await.map_err(|e| format!("peer write: {e}"))?;
            off += n;
            tokio::task::yield_now().await;
        }
        match reset {
            None => {
                tx.finish().map_err(|e| format!("{e}"))?;
                // wait until the adapter has everything (finish returns at once)
                let _ = tx.stopped().await;
            }
            Some(code) => {
                // the data must be acknowledged first, or the reset may discard it: wait for the reader's signal instead
                // (a reset may legally overtake data - the reader accepts any prefix)
                tx.reset(quinn::VarInt::from_u64(code).unwrap()).map_err(|e| format!("{e}"))?;
            }
        }
        Ok::<_, String>((tx, rx, keep_bi, keep_uni, raw_conn))
    });
    enum R {
        Bi(h3_quinn::BidiStream<Bytes>),
        Uni(h3_quinn::RecvStream),
    }
    let mut earlier = Vec::new();
    for _ in 0..=c.nth {
        let r = if c.bidi {
            R::Bi(std::future::poll_fn(|cx| <h3_quinn::Connection as quic::Connection<Bytes>>::poll_accept_bidi(&mut conn, cx)).await.map_err(|e| hfault(format!("accept_bidi: {e}")))?)
        } else {
            R::Uni(std::future::poll_fn(|cx| <h3_quinn::Connection as quic::Connection<Bytes>>::poll_accept_recv(&mut conn, cx)).await.map_err(|e| hfault(format!("accept_recv: {e}")))?)
        };
        earlier.push(r);
    }
    let mut r = earlier.pop().unwrap();
    macro_rules! onr {
        ($x:ident => $e:expr) => {
            match &mut r {
                R::Bi($x) => $e,
                R::Uni($x) => $e,
            }
        };
    }
    let waker = futures_util::task::noop_waker();
    let mut got = 0usize;
    let mut first = true;
    let mut pokes = 0usize;
    let verdict: Result<usize, String> = loop {
        let id = crate::runner::catch(|| onr!(x => x.recv_id().into_inner()));
        match id {
            Ok(i) if i == want_id => {}
            Ok(i) => break Err(format!("recv_id {i} after {got} bytes, the QUIC stream id is {want_id}")),
            Err(p) => break Err(format!("recv_id panicked after {got} bytes: {p}")),
        }
        let mut item = None;
        if c.poke {
            let mut cx = std::task::Context::from_waker(&waker);
            match onr!(x => x.poll_data(&mut cx)) {
                Poll::Pending => {
                    pokes += 1;
                    // a read is in flight (its waker is the no-op one: the next poll must re-register)
                    match crate::runner::catch(|| onr!(x => x.recv_id().into_inner())) {
                        Ok(i) if i == want_id => {}
                        Ok(i) => break Err(format!("recv_id {i} while a read is in flight, the QUIC stream id is {want_id}")),
                        Err(p) => break Err(format!("recv_id panicked while a read is in flight: {p}")),
                    }
                }
                Poll::Ready(x) => item = Some(x),
            }
        }
        let item = match item {
            Some(x) => x,
            None => std::future::poll_fn(|cx| onr!(x => x.poll_data(cx))).await,
        };
        match item {
            Ok(Some(mut b)) => {
                let mut v = b.copy_to_bytes(b.remaining()).to_vec();
                if first && !v.is_empty() {
                    // the announcing byte
                    if v[0] != b'!' {
                        break Err(format!("first byte read is {:#x}, the peer wrote 0x21", v[0]));
                    }
                    v.remove(0);
                    first = false;
                }
                let want = &expected[got.min(total)..(got + v.len()).min(total)];
                if want != &v[..] {
                    let n = got + v.iter().zip(want.iter()).take_while(|(a, b)| a == b).count();
                    break Err(format!("poll_data handed out {} bytes so far, the peer wrote {total}; first difference at offset {n}", got + v.len()));
                }
                got += v.len();
            }
            Ok(None) => {
                break if c.reset.is_some() {
                    Err(format!("the peer reset the stream, poll_data reported a clean end after {got} bytes"))
                } else if got != total || first {
                    Err(format!("poll_data reported the end after {got} bytes, the peer wrote {total} and finished"))
                } else {
                    Ok(pokes)
                };
            }
            Err(StreamErrorIncoming::StreamTerminated { error_code }) => {
                break match c.reset {
                    Some(code) if code == error_code => Ok(pokes),
                    Some(code) => Err(format!("the peer reset with {code:#x}, poll_data reported StreamTerminated {{ {error_code:#x} }}")),
                    None => Err(format!("the peer finished the stream, poll_data reported StreamTerminated {{ {error_code:#x} }} after {got} bytes")),
                };
            }
            Err(e) => break Err(format!("poll_data failed after {got} bytes: {e:?}")),
        }
    };
    drop(r);
    drop(earlier);
    let w = writer.await;
    cc.close(0u32.into(), b"done");
    match (verdict, w) {
        (Err(m), _) => Ok(Err(m)),
        (Ok(_), Ok(Err(e))) => Err(hfault(format!("raw peer: {e}"))),
        (Ok(_), Err(e)) => Err(hfault(format!("raw peer task: {e}"))),
        (Ok(p), Ok(Ok(_))) => Ok(Ok(p)),
    }
}

fn case_json_recv(c: &RecvCase) -> Value {
    json!({"kind": "recv", "windows": [c.windows.stream_rx, c.windows.conn_rx, c.windows.send], "bidi": c.bidi, "peer_is_server": c.peer_is_server, "nth": c.nth, "writes": c.writes, "poke": c.poke, "reset": c.reset.map(|x| x.to_string())})
}

fn run_recv(c: &RecvCase, ctx: &mut Ctx) -> Verdict {
    ctx.eval();
    let r = with_fixture(|fx| block(recv_case(fx, c), fx)).map_err(Failure::fault)?;
    match r?? {
        Ok(pokes) => {
            ctx.class("recv_direction");
            if pokes > 0 {
                ctx.class("recv_with_read_in_flight");
            }
            if c.nth > 0 || c.peer_is_server || !c.bidi {
                ctx.class("id_not_zero");
            }
            if c.writes.len() >= 2 {
                ctx.nontrivial(&format!("{:?}", case_json_recv(c)));
            }
            ctx.sample(|| case_json_recv(c));
            Ok(())
        }
        Err(m) => Err(Failure::direct(m, case_json_recv(c))),
    }
}

fn gen_recv(t: &mut Tape) -> RecvCase {
    let stream_rx = *t.choose(&[1u64, 2, 17, 500, 4096, 65536, 1 << 20]);
    let conn_rx = *t.choose(&[1200u64, 65536, 1 << 20]).max(&stream_rx);
    let minw = stream_rx.min(conn_rx) as usize;
    let n = t.int(0, 6) as usize;
    let writes = (0..n)
        .map(|_| match t.pick(4) {
            0 => t.int(0, 3) as usize,
            1 => t.int(1, 200) as usize,
            2 => t.int(200, 5000) as usize,
            _ => t.int(5000, 100_000) as usize,
        }
        .min(minw.saturating_mul(8)))
        .collect();
    RecvCase { windows: Windows { stream_rx, conn_rx, send: 1 << 20 }, bidi: t.bool(), peer_is_server: t.bool(), nth: t.pick(3) as u64, writes, poke: t.bool(), reset: if t.chance(1, 4) { Some(t.u64() >> 2 >> t.pick(62)) } else { None } }
}

// ------------------------------------------------------------------------------------------------
// error table

#[derive(Debug, Clone, Copy, PartialEq, Eq, Hash)]
pub enum ErrRow {
    CloseOnAccept,
    CloseOnRead,
    CloseOnWrite,
    Timeout,
    ResetOnRead,
    StopOnWrite,
    /// streams opened after the peer's close arrived: through the connection, through its opener() handle and a clone of it,
    /// bidirectional and unidirectional
    CloseOnOpen,
    /// the same after the idle timeout
    TimeoutOnOpen,
    /// the other direction (what the adapter of the *peer* does with the code handed to it - with an adapter on both ends the
    /// code "the peer" supplied is the one given to these calls): stop_sending(code) arrives as STOP_SENDING(code) at a raw quinn stream
    OwnStop,
    /// the same with a read in flight when stop_sending is called (the stream is owned by the read future then)
    OwnStopDeferred,
    /// reset(code) arrives as RESET_STREAM(code)
    OwnReset,
    /// close(code, reason) arrives as CONNECTION_CLOSE(code, reason)
    OwnClose,
}

const ROWS: [ErrRow; 12] = [
    ErrRow::CloseOnAccept,
    ErrRow::CloseOnRead,
    ErrRow::CloseOnWrite,
    ErrRow::Timeout,
    ErrRow::ResetOnRead,
    ErrRow::StopOnWrite,
    ErrRow::CloseOnOpen,
    ErrRow::TimeoutOnOpen,
    ErrRow::OwnStop,
    ErrRow::OwnStopDeferred,
    ErrRow::OwnReset,
    ErrRow::OwnClose,
];

/// The condition has been reported once; the trait allows asking again (select loops, h3's own later calls do): that must
/// not panic, must not report a different code, and the identifier stays what it was. What exactly a later call returns
/// (the same error, or the end of the stream after a reset) is not stated and not judged.
fn asked_again(bi: &mut h3_quinn::BidiStream<Bytes>, code: u64, conn_level: bool) -> Result<(), String> {
    let waker = futures_util::task::noop_waker();
    for k in 0..3 {
        let r = crate::runner::catch(|| {
            let mut cx = std::task::Context::from_waker(&waker);
            let id = bi.recv_id().into_inner();
            let p = bi.poll_data(&mut cx);
            if k == 1 {
                bi.stop_sending(0x10c);
            }
            (id, p)
        });
        match r {
            Err(p) => return Err(format!("asking again after the error was reported panicked: {p}")),
            Ok((id, _)) if id != 0 => return Err(format!("recv_id changed to {id} after the error")),
            Ok((_, Poll::Ready(Err(StreamErrorIncoming::StreamTerminated { error_code })))) if error_code != code && !conn_level => return Err(format!("a later poll_data reports StreamTerminated {{ {error_code:#x} }}, the peer's code is {code:#x}")),
            Ok((_, Poll::Ready(Err(StreamErrorIncoming::ConnectionErrorIncoming { connection_error: ConnectionErrorIncoming::ApplicationClose { error_code } })))) if error_code != code && conn_level => return Err(format!("a later poll_data reports ApplicationClose {{ {error_code:#x} }}, the peer's code is {code:#x}")),
            Ok(_) => {}
        }
    }
    Ok(())
}

async fn err_case(fx: &Fixture, row: ErrRow, code: u64) -> Result<Result<(), String>, Failure> {
    let w = Windows { stream_rx: 1 << 16, conn_rx: 1 << 20, send: 1 << 20 };
    let idle = if matches!(row, ErrRow::Timeout | ErrRow::TimeoutOnOpen) { Some(150) } else { None };
    let (cc, sc) = connect(fx, &w, idle).await.map_err(hfault)?;
    let mut conn = h3_quinn::Connection::new(cc.clone());
    let qcode = quinn::VarInt::from_u64(code).map_err(|_| hfault("code"))?;
    // an even code is sent with an empty reason phrase (0 with an empty reason is what quinn itself sends when the last
    // handle of a connection is dropped - an application close like any other)
    let reason: &[u8] = if code % 2 == 0 { b"" } else { b"bye" };
    let conn_err = |e: &ConnectionErrorIncoming| -> String { format!("{e:?}") };
    let res: Result<(), String> = match row {
        ErrRow::CloseOnAccept => {
            sc.close(qcode, reason);
            match std::future::poll_fn(|cx| <h3_quinn::Connection as quic::Connection<Bytes>>::poll_accept_bidi(&mut conn, cx)).await {
                Err(ConnectionErrorIncoming::ApplicationClose { error_code }) if error_code == code => {
                    // the driver keeps asking: same answer, no panic
                    let waker = futures_util::task::noop_waker();
                    let again = crate::runner::catch(|| {
                        let mut cx = std::task::Context::from_waker(&waker);
                        (<h3_quinn::Connection as quic::Connection<Bytes>>::poll_accept_bidi(&mut conn, &mut cx).map(|r| r.map(|_| ())), <h3_quinn::Connection as quic::Connection<Bytes>>::poll_accept_recv(&mut conn, &mut cx).map(|r| r.map(|_| ())))
                    });
                    match again {
                        Err(p) => Err(format!("accepting again after the close was reported panicked: {p}")),
                        Ok((Poll::Ready(Err(ConnectionErrorIncoming::ApplicationClose { error_code: a })), _)) if a != code => Err(format!("a later poll_accept_bidi reports ApplicationClose {{ {a:#x} }}, the peer's code is {code:#x}")),
                        Ok((_, Poll::Ready(Err(ConnectionErrorIncoming::ApplicationClose { error_code: a })))) if a != code => Err(format!("a later poll_accept_recv reports ApplicationClose {{ {a:#x} }}, the peer's code is {code:#x}")),
                        Ok(_) => Ok(()),
                    }
                }
                Err(e) => Err(format!("peer closed with {code:#x}; poll_accept_bidi gave {}", conn_err(&e))),
                Ok(_) => Err("a stream was accepted".into()),
            }
        }
        ErrRow::CloseOnOpen | ErrRow::TimeoutOnOpen => {
            use quic::Connection as _;
            let timeout = row == ErrRow::TimeoutOnOpen;
            if !timeout {
                sc.close(qcode, reason);
            }
            // wait until quinn has registered the loss of the connection
            let _ = cc.closed().await;
            let mut op = <h3_quinn::Connection as quic::Connection<Bytes>>::opener(&conn);
            let mut op2 = op.clone();
            let ok = |e: &StreamErrorIncoming| match e {
                StreamErrorIncoming::ConnectionErrorIncoming { connection_error: ConnectionErrorIncoming::ApplicationClose { error_code } } => !timeout && *error_code == code,
                StreamErrorIncoming::ConnectionErrorIncoming { connection_error: ConnectionErrorIncoming::Timeout } => timeout,
                _ => false,
            };
            let what = if timeout { "the idle timeout".to_string() } else { format!("the peer's close({code:#x})") };
            let mut out = Ok(());
            let r1 = std::future::poll_fn(|cx| <h3_quinn::Connection as OpenStreams<Bytes>>::poll_open_bidi(&mut conn, cx)).await.map(|_| ());
            let r2 = std::future::poll_fn(|cx| <h3_quinn::Connection as OpenStreams<Bytes>>::poll_open_send(&mut conn, cx)).await.map(|_| ());
            let r3 = std::future::poll_fn(|cx| OpenStreams::<Bytes>::poll_open_bidi(&mut op, cx)).await.map(|_| ());
            let r4 = std::future::poll_fn(|cx| OpenStreams::<Bytes>::poll_open_send(&mut op, cx)).await.map(|_| ());
            let r5 = std::future::poll_fn(|cx| OpenStreams::<Bytes>::poll_open_send(&mut op2, cx)).await.map(|_| ());
            let r6 = std::future::poll_fn(|cx| OpenStreams::<Bytes>::poll_open_bidi(&mut op2, cx)).await.map(|_| ());
            for (name, r) in [("Connection::poll_open_bidi", r1), ("Connection::poll_open_send", r2), ("opener().poll_open_bidi", r3), ("opener().poll_open_send", r4), ("opener().clone().poll_open_send", r5), ("opener().clone().poll_open_bidi", r6)] {
                match r {
                    Err(e) if ok(&e) => {}
                    Err(e) => {
                        out = Err(format!("after {what}: {name} gave {e:?}"));
                        break;
                    }
                    Ok(()) => {
                        out = Err(format!("after {what}: {name} opened a stream"));
                        break;
                    }
                }
            }
            out
        }
        ErrRow::Timeout => {
            // nothing is sent any more: both ends run into the idle timeout
            match std::future::poll_fn(|cx| <h3_quinn::Connection as quic::Connection<Bytes>>::poll_accept_bidi(&mut conn, cx)).await {
                Err(ConnectionErrorIncoming::Timeout) => Ok(()),
                Err(e) => Err(format!("idle timeout surfaced as {}", conn_err(&e))),
                Ok(_) => Err("a stream was accepted".into()),
            }
        }
        _ => {
            let mut bi = std::future::poll_fn(|cx| <h3_quinn::Connection as OpenStreams<Bytes>>::poll_open_bidi(&mut conn, cx)).await.map_err(|e| hfault(format!("open: {e}")))?;
            bi.send_data(WriteBuf::from(Frame::Data(Bytes::from_static(b"hello")))).map_err(|e| hfault(format!("{e}")))?;
            std::future::poll_fn(|cx| bi.poll_ready(cx)).await.map_err(|e| hfault(format!("{e}")))?;
            let (mut ptx, mut prx) = sc.accept_bi().await.map_err(|e| hfault(format!("{e}")))?;
            match row {
                ErrRow::CloseOnRead => {
                    sc.close(qcode, reason);
                    match std::future::poll_fn(|cx| bi.poll_data(cx)).await {
                        Err(StreamErrorIncoming::ConnectionErrorIncoming { connection_error: ConnectionErrorIncoming::ApplicationClose { error_code } }) if error_code == code => asked_again(&mut bi, code, true),
                        other => Err(format!("peer closed with {code:#x}; poll_data gave {other:?}")),
                    }
                }
                ErrRow::CloseOnWrite => {
                    sc.close(qcode, reason);
                    // wait until the close arrived
                    let _ = cc.closed().await;
                    let r = match bi.send_data(WriteBuf::from(Frame::Data(Bytes::from(vec![0u8; 100])))) {
                        Err(e) => Err(e),
                        Ok(()) => std::future::poll_fn(|cx| bi.poll_ready(cx)).await,
                    };
                    match r {
                        Err(StreamErrorIncoming::ConnectionErrorIncoming { connection_error: ConnectionErrorIncoming::ApplicationClose { error_code } }) if error_code == code => Ok(()),
                        other => Err(format!("peer closed with {code:#x}; writing gave {other:?}")),
                    }
                }
                ErrRow::ResetOnRead => {
                    let _ = ptx.reset(qcode);
                    let mut out = Err("no error".to_string());
                    for _ in 0..4 {
                        match std::future::poll_fn(|cx| bi.poll_data(cx)).await {
                            Ok(Some(_)) => continue,
                            Err(StreamErrorIncoming::StreamTerminated { error_code }) if error_code == code => {
                                out = asked_again(&mut bi, code, false);
                                break;
                            }
                            other => {
                                out = Err(format!("peer reset with {code:#x}; poll_data gave {other:?}"));
                                break;
                            }
                        }
                    }
                    out
                }
                ErrRow::OwnStop | ErrRow::OwnStopDeferred => {
                    // drain what was sent so far, so that a read in flight is really waiting
                    let mut five = [0u8; 5 + 2];
                    let _ = prx.read_exact(&mut five).await;
                    if row == ErrRow::OwnStopDeferred {
                        let waker = futures_util::task::noop_waker();
                        let mut cx = std::task::Context::from_waker(&waker);
                        if !matches!(bi.poll_data(&mut cx), Poll::Pending) {
                            return Err(hfault("the read was expected to wait"));
                        }
                    }
                    bi.stop_sending(code);
                    if row == ErrRow::OwnStopDeferred {
                        // the read in flight completes with the peer's next bytes; the stop takes effect then at the latest
                        let _ = ptx.write_all(b"x").await;
                        let _ = std::future::poll_fn(|cx| bi.poll_data(cx)).await;
                    }
                    let mut out = Err("the peer's write never failed".to_string());
                    for _ in 0..200 {
                        match ptx.write_all(&[7u8; 500]).await {
                            Ok(()) => tokio::time::sleep(Duration::from_millis(2)).await,
                            Err(quinn::WriteError::Stopped(c)) if c.into_inner() == code => {
                                out = Ok(());
                                break;
                            }
                            Err(other) => {
                                out = Err(format!("stop_sending({code:#x}) through the adapter; the peer's write gave {other:?}"));
                                break;
                            }
                        }
                    }
                    out
                }
                ErrRow::OwnReset => {
                    bi.reset(code);
                    let mut buf = [0u8; 64];
                    let mut out = Err("the peer's read never failed".to_string());
                    for _ in 0..50 {
                        match prx.read(&mut buf).await {
                            Ok(Some(_)) => continue,
                            Ok(None) => {
                                out = Err(format!("reset({code:#x}) through the adapter; the peer saw a clean end of the stream"));
                                break;
                            }
                            Err(quinn::ReadError::Reset(c)) if c.into_inner() == code => {
                                out = Ok(());
                                break;
                            }
                            Err(other) => {
                                out = Err(format!("reset({code:#x}) through the adapter; the peer's read gave {other:?}"));
                                break;
                            }
                        }
                    }
                    out
                }
                ErrRow::OwnClose => {
                    <h3_quinn::Connection as OpenStreams<Bytes>>::close(&mut conn, h3::error::Code::from(code), b"the reason");
                    match sc.closed().await {
                        quinn::ConnectionError::ApplicationClosed(ac) if ac.error_code.into_inner() == code && ac.reason.as_ref() == b"the reason" => Ok(()),
                        other => Err(format!("close({code:#x}, \"the reason\") through the adapter; the peer's connection ended with {other:?}")),
                    }
                }
                _ => {
                    let _ = prx.stop(qcode);
                    // write until the stop is noticed
                    let mut out = Err("the write never failed".to_string());
                    for _ in 0..200 {
                        let r = match bi.send_data(WriteBuf::from(Frame::Data(Bytes::from(vec![0u8; 2000])))) {
                            Err(e) => Err(e),
                            Ok(()) => std::future::poll_fn(|cx| bi.poll_ready(cx)).await,
                        };
                        match r {
                            Ok(()) => tokio::time::sleep(Duration::from_millis(2)).await,
                            Err(StreamErrorIncoming::StreamTerminated { error_code }) if error_code == code => {
                                out = Ok(());
                                // the application may try again (trailers, finish, a retry): the stop is a property of that
                                // stream and keeps surfacing as such - not as an error of the whole connection
                                for k in 0..3 {
                                    let r = match bi.send_data(WriteBuf::from(Frame::Data(Bytes::from(vec![1u8; 10])))) {
                                        Err(e) => Err(e),
                                        Ok(()) => std::future::poll_fn(|cx| bi.poll_ready(cx)).await,
                                    };
                                    match r {
                                        Err(StreamErrorIncoming::StreamTerminated { error_code }) if error_code == code => {}
                                        other => {
                                            out = Err(format!("peer sent STOP_SENDING({code:#x}) and the first write reported it; write attempt #{} after that gave {other:?}", k + 2));
                                            break;
                                        }
                                    }
                                }
                                break;
                            }
                            Err(other) => {
                                out = Err(format!("peer sent STOP_SENDING({code:#x}); writing gave {other:?}"));
                                break;
                            }
                        }
                    }
                    out
                }
            }
        }
    };
    cc.close(0u32.into(), b"done");
    sc.close(0u32.into(), b"done");
    Ok(res)
}

fn run_err(row: ErrRow, code: u64, ctx: &mut Ctx) -> Verdict {
    ctx.eval();
    let r = with_fixture(|fx| block(err_case(fx, row, code), fx)).map_err(Failure::fault)?;
    match r?? {
        Ok(()) => {
            ctx.class("error_table_row");
            ctx.nontrivial(&(format!("{row:?}"), code));
            Ok(())
        }
        Err(m) => Err(Failure::direct(m, json!({"kind": "err", "row": format!("{row:?}"), "code": code.to_string()}))),
    }
}

fn exhaustive(ctx: &mut Ctx, shard: usize, nshards: usize) -> Verdict {
    let mut idx = 0usize;
    for st in ID_STATES {
        for accepted in [false, true] {
            for (nth, flip) in [(0u64, false), (1, false), (0, true), (2, true)] {
                idx += 1;
                if idx % nshards == shard {
                    run_id(st, accepted, nth, flip, ctx)?;
                }
            }
        }
    }
    for bidi in [true, false] {
        for peer_is_server in [false, true] {
            for nth in [0u64, 2] {
                for (poke, reset) in [(false, None), (true, None), (true, Some(0x10cu64))] {
                    idx += 1;
                    if idx % nshards == shard {
                        run_recv(&RecvCase { windows: Windows { stream_rx: if poke { 17 } else { 1 << 20 }, conn_rx: 1 << 20, send: 1 << 20 }, bidi, peer_is_server, nth, writes: vec![1, 0, 100, 40, 3], poke, reset }, ctx)?;
                    }
                }
            }
        }
    }
    for row in ROWS {
        for code in [0u64, 0x100, 0x10c, 1 << 30, 0x52e4_a40f_a8db, (1 << 62) - 1] {
            if matches!(row, ErrRow::Timeout | ErrRow::TimeoutOnOpen) && code != 0 {
                continue;
            }
            idx += 1;
            if idx % nshards == shard {
                run_err(row, code, ctx)?;
            }
        }
    }
    // fixed write cases: every frame kind x window class
    for (wi, w) in [Windows { stream_rx: 1, conn_rx: 1 << 20, send: 1 << 20 }, Windows { stream_rx: 1000, conn_rx: 1500, send: 1 << 20 }, Windows { stream_rx: 1 << 20, conn_rx: 1 << 20, send: 700 }, Windows { stream_rx: 1 << 22, conn_rx: 1 << 22, send: 1 << 22 }].into_iter().enumerate() {
        for bidi in [true, false] {
            idx += 1;
            if idx % nshards != shard {
                continue;
            }
            let frames = vec![FrameSpec::Headers(300), FrameSpec::Data(0), FrameSpec::Data(if wi == 0 { 300 } else { 70_000 }), FrameSpec::Grease, FrameSpec::Goaway(8), FrameSpec::TypedData(0x21, 10), FrameSpec::Raw(if wi == 0 { 50 } else { 5000 })];
            run_write(&WriteCase { windows: w, bidi, frames: frames.clone(), double_send: wi % 2 == 0, early_finish: false, split_before_finish: false }, ctx)?;
            // the same without the trailing raw write, the last frame polled once only before the stream is finished
            let mut frames = frames;
            frames.pop();
            frames.push(FrameSpec::Data(if wi == 0 { 300 } else { 70_000 }));
            run_write(&WriteCase { windows: w, bidi, frames: frames.clone(), double_send: false, early_finish: true, split_before_finish: false }, ctx)?;
            if bidi {
                // the same again, the stream split into its halves while that write is still unfinished
                run_write(&WriteCase { windows: w, bidi, frames, double_send: false, early_finish: true, split_before_finish: true }, ctx)?;
            }
        }
    }
    if shard == 0 {
        ctx.subspace("id queries in 8 states x opened/accepted side x {first, later} stream x {client, server}-initiated; receive direction: bidi/uni x peer role x nth x read-in-flight/reset; 6 error rows x 4 codes; 7 frame kinds x 4 window classes x bidi/uni", idx as u64);
    }
    Ok(())
}

fn gen_write(t: &mut Tape) -> WriteCase {
    let stream_rx = *t.choose(&[1u64, 2, 17, 500, 1200, 4096, 65536, 1 << 20, 1 << 24]);
    let conn_rx = *t.choose(&[1200u64, 5000, 65536, 1 << 20, 1 << 24]).max(&stream_rx.min(1 << 20));
    let send = *t.choose(&[300u64, 1500, 10_000, 1 << 20, 1 << 24]);
    // a window of w bytes moves w bytes per acknowledgement round (up to ~25 ms with delayed ACKs): bound the work
    let minw = stream_rx.min(conn_rx).min(send);
    let n = t.int(1, 6) as usize;
    let frames = (0..n)
        .map(|_| {
            let size = |t: &mut Tape| -> usize {
                match t.pick(5) {
                    0 => 0,
                    1 => t.int(1, 100) as usize,
                    2 => t.int(100, 5000) as usize,
                    3 => t.int(5000, 70_000) as usize,
                    _ => t.int(70_000, 262_144) as usize,
                }
            };
            // byte-sized stream windows make large payloads take very long: cap them there
            let cap = (minw.saturating_mul(12)).min(usize::MAX as u64) as usize;
            match t.pick(7) {
                0 | 1 | 2 => FrameSpec::Data(size(t).min(cap)),
                3 => FrameSpec::Headers(size(t).min(cap).min(100_000)),
                4 => FrameSpec::Goaway(t.u64() >> 2),
                5 => {
                    if t.bool() {
                        FrameSpec::Grease
                    } else {
                        FrameSpec::TypedData(t.u64() >> 2 >> t.pick(60), size(t).min(cap).min(5000))
                    }
                }
                _ => FrameSpec::Raw(size(t).min(cap).max(1)),
            }
        })
        .collect();
    WriteCase { windows: Windows { stream_rx, conn_rx, send }, bidi: t.bool(), frames, double_send: t.bool(), early_finish: t.chance(1, 3), split_before_finish: t.chance(1, 3) }
}

fn run_tape(tape: &[u16], ctx: &mut Ctx) -> Verdict {
    let mut t = Tape::new(tape);
    match t.pick(10) {
        0 => run_id(ID_STATES[t.pick(8)], t.bool(), t.pick(3) as u64, t.bool(), ctx),
        2 | 3 => run_recv(&gen_recv(&mut t), ctx),
        1 => {
            let row = ROWS[t.pick(12)];
            let code = if matches!(row, ErrRow::Timeout | ErrRow::TimeoutOnOpen) { 0 } else { t.u64() >> 2 >> t.pick(62) };
            run_err(row, code, ctx)
        }
        _ => run_write(&gen_write(&mut t), ctx),
    }
}

fn run_direct(d: &Value, ctx: &mut Ctx) -> Verdict {
    match d["kind"].as_str() {
        Some("id") => {
            let st = ID_STATES.iter().copied().find(|s| Some(format!("{s:?}").as_str()) == d["state"].as_str()).unwrap_or(IdState::Fresh);
            run_id(st, d["accepted"].as_bool().unwrap_or(false), d["nth"].as_u64().unwrap_or(0), d["flip"].as_bool().unwrap_or(false), ctx)
        }
        Some("recv") => {
            let w = &d["windows"];
            run_recv(
                &RecvCase {
                    windows: Windows { stream_rx: w[0].as_u64().unwrap_or(1 << 20), conn_rx: w[1].as_u64().unwrap_or(1 << 20), send: w[2].as_u64().unwrap_or(1 << 20) },
                    bidi: d["bidi"].as_bool().unwrap_or(true),
                    peer_is_server: d["peer_is_server"].as_bool().unwrap_or(false),
                    nth: d["nth"].as_u64().unwrap_or(0),
                    writes: d["writes"].as_array().map(|a| a.iter().map(|x| x.as_u64().unwrap_or(0) as usize).collect()).unwrap_or_default(),
                    poke: d["poke"].as_bool().unwrap_or(false),
                    reset: d["reset"].as_str().and_then(|s| s.parse().ok()),
                },
                ctx,
            )
        }
        Some("err") => {
            let row = ROWS.iter().copied().find(|s| Some(format!("{s:?}").as_str()) == d["row"].as_str()).unwrap_or(ErrRow::CloseOnRead);
            run_err(row, d["code"].as_str().and_then(|s| s.parse().ok()).unwrap_or(0), ctx)
        }
        Some("write") => {
            let w = &d["windows"];
            let frames: Vec<FrameSpec> = d["frames"]
                .as_array()
                .map(|a| {
                    a.iter()
                        .filter_map(|x| {
                            let s = x.as_str()?;
                            let nums: Vec<u64> = s.split(|c: char| !c.is_ascii_digit()).filter(|x| !x.is_empty()).filter_map(|x| x.parse().ok()).collect();
                            Some(if s.starts_with("Data") {
                                FrameSpec::Data(*nums.first()? as usize)
                            } else if s.starts_with("Headers") {
                                FrameSpec::Headers(*nums.first()? as usize)
                            } else if s.starts_with("Goaway") {
                                FrameSpec::Goaway(*nums.first()?)
                            } else if s.starts_with("TypedData") {
                                FrameSpec::TypedData(*nums.first()?, *nums.get(1)? as usize)
                            } else if s.starts_with("Raw") {
                                FrameSpec::Raw(*nums.first()? as usize)
                            } else {
                                FrameSpec::Grease
                            })
                        })
                        .collect()
                })
                .unwrap_or_default();
            run_write(&WriteCase { windows: Windows { stream_rx: w[0].as_u64().unwrap_or(1 << 20), conn_rx: w[1].as_u64().unwrap_or(1 << 20), send: w[2].as_u64().unwrap_or(1 << 20) }, bidi: d["bidi"].as_bool().unwrap_or(true), frames, double_send: d["double_send"].as_bool().unwrap_or(false), early_finish: d["early_finish"].as_bool().unwrap_or(false), split_before_finish: d["split_before_finish"].as_bool().unwrap_or(false) }, ctx)
        }
        _ => Err(Failure::fault("unknown direct case")),
    }
}
