//! C07 - Faults confined to one request never harm the connection or other requests.

use bytes::{Buf, Bytes};
use serde_json::{json, Value};

use crate::reference::frames::{self as rf, Ev};
use crate::reference::qpack as rq;
use crate::runner::{Ctx, Failure, PropDef, Verdict};
use crate::simnet::app::*;
use crate::simnet::exec::{shared, Exec, RunEnd, Shared, Spawner, Style};
use crate::simnet::peer::{self, PeerOp, RawPeer};
use crate::simnet::{Net, Side, UNLIMITED};
use crate::tape::{prf_bytes, prf_cells, Tape};

pub static PROP: PropDef = PropDef {
    id: "C07",
    rule: "case = role x 2..4 concurrent requests, any subset faulty with exactly one of {RESET(any code) at any byte offset, STOP_SENDING(code) on the other direction at any moment, validly encoded but malformed message, a well-formed message with a bad trailer section (uppercase name / unknown pseudo-header / request or response pseudo-header / over the limit), \
           section over the limit, FIN before HEADERS, stream opened and abandoned} (the last two only towards a server), the rest healthy with generated bodies; operations of all streams merged in tape order; the h3 end's streams start with unlimited / zero / small send credit (grants are scheduler moves), so that faults also arrive while a write is blocked; a raw server acts on a request stream as soon as the client opened it; schedule from the tape. \
           oracle: healthy requests: the application sees exactly its own body bytes and end of message, and the bytes h3 wrote back on that stream parse (reference) to exactly HEADERS + DATA(own echo) and FIN; \
           faulty requests: the first error reported on that request, if any, is stream-level with the right code (RemoteTerminate{peer's code} / StreamError H3_MESSAGE_ERROR / HeaderTooBig / StreamError H3_REQUEST_INCOMPLETE) and a fault that must surface does (a STOP_SENDING because of which the transport refused one of h3's writes must have been reported by the end of the run); \
           connection: zero close calls, the driver never reports an error, every announced request is accepted, and one more request started after everything settled is served (both roles). non-trivial = >= 1 faulty and >= 1 healthy request whose operations interleave; distinct by (scenario, schedule)",
    assumptions: &["simulated transport, see C01", "a STOP_SENDING that arrives after the endpoint finished writing is not observable: then no error is expected"],
    tape_len: 260,
    random_cases: |t| t.pick(120_000, 6_000_000),
    run_tape,
    exhaustive: Some(exhaustive),
    run_direct: Some(run_direct),
    min_classes: &[("nontrivial", 5000), ("fault_reset", 3000), ("fault_stop", 3000), ("stop_hit_a_write", 1000), ("fault_malformed", 2000), ("fault_oversized", 2000), ("fault_bad_trailers", 2000), ("follow_up_request_served", 5000), ("fault_fin_before_headers", 1000), ("fault_abandoned", 1000), ("role_client", 5000), ("role_server", 5000), ("healthy_verified", 20000)],
    extra: None,
};

#[derive(Debug, Clone, Copy, PartialEq, Eq, Hash)]
pub enum Fault {
    None,
    Reset { code: u64, offset: usize },
    Stop { code: u64, after_ops: usize },
    Malformed,
    Oversized,
    FinBeforeHeaders,
    Abandoned,
    /// a well-formed message whose trailer section is the problem: 0 = uppercase field name, 1 = unknown pseudo-header
    /// field, 2 = a request / response pseudo-header field, 3 = over the size limit
    BadTrailers(u8),
}

#[derive(Debug, Clone, PartialEq, Eq, Hash)]
pub struct Req {
    pub fault: Fault,
    pub body_len: usize,
    pub pieces: usize,
}

#[derive(Debug, Clone)]
pub struct Scn {
    pub server: bool,
    pub reqs: Vec<Req>,
    pub style: Style,
    /// send credit every stream of the h3 end starts with (further credit is granted by scheduler moves)
    pub credit: u64,
    /// the transport hands out waiting request streams newest first
    pub newest_first: bool,
}

const LIMIT: u64 = 400;

fn body_of(k: usize, len: usize, resp: bool) -> Vec<u8> {
    prf_bytes((k as u64) << 8 | resp as u64 | 0x5a00, len)
}

#[derive(Default, Debug, Clone)]
struct ReqObs {
    accepted: bool,
    body: Vec<u8>,
    recv_done: bool,
    send_done: bool,
    first_error: Option<(String, ErrInfo)>,
    /// client, both ends h3: what send_request said to a request the client itself refuses to encode (sent before request k)
    local_refusal: Option<Result<(), ErrInfo>>,
}

#[derive(Default, Debug, Clone)]
struct Obs {
    reqs: Vec<ReqObs>,
    driver: Option<ConnInfo>,
    accept_count: u32,
    /// client role: one more request started after everything else settled: (error of the first failing call | body received)
    follow_up: Option<Result<Vec<u8>, (String, ErrInfo)>>,
}

fn note_err(o: &Shared<Obs>, k: usize, call: &str, e: ErrInfo) {
    let mut g = o.borrow_mut();
    if g.reqs[k].first_error.is_none() {
        g.reqs[k].first_error = Some((call.to_string(), e));
    }
}

async fn server_app(net: Net, o: Shared<Obs>, sp: Spawner, careful: bool) {
    let mut b = h3::server::builder();
    b.send_grease(false).max_field_section_size(LIMIT);
    let mut conn: ServerConn = match b.build(net.conn(Side::Server)).await {
        Ok(c) => c,
        Err(e) => {
            o.borrow_mut().driver = Some(conn_info(&e));
            return;
        }
    };
    loop {
        match conn.accept().await {
            Ok(Some(r)) => {
                let id = r.frame_stream.id().into_inner();
                let k = (id / 4) as usize;
                {
                    let mut g = o.borrow_mut();
                    g.accept_count += 1;
                    if k < g.reqs.len() {
                        g.reqs[k].accepted = true;
                    }
                }
                let o2 = o.clone();
                sp.spawn(format!("handler-{k}"), async move {
                    if k >= o2.borrow().reqs.len() {
                        // the follow-up request that arrives after everything else has settled
                        if let Ok((_q, mut s)) = r.resolve_request().await {
                            let _ = s.send_response(http::Response::builder().status(200).body(()).unwrap()).await;
                            let _ = s.send_data(Bytes::from_static(b"still alive")).await;
                            let _ = s.finish().await;
                            std::future::pending::<()>().await;
                        }
                        return;
                    }
                    let mut s = match r.resolve_request().await {
                        Ok((_q, s)) => s,
                        Err(e) => {
                            note_err(&o2, k, "resolve_request", err_info(&e));
                            return;
                        }
                    };
                    loop {
                        match s.recv_data().await {
                            Ok(Some(mut b)) => {
                                let c = b.copy_to_bytes(b.remaining());
                                o2.borrow_mut().reqs[k].body.extend_from_slice(&c);
                            }
                            Ok(None) => break,
                            Err(e) => {
                                note_err(&o2, k, "recv_data", err_info(&e));
                                if careful {
                                    // an application that gives a request up says so instead of ending its answer without one
                                    s.stop_stream(h3::error::Code::H3_REQUEST_CANCELLED);
                                }
                                return;
                            }
                        }
                    }
                    if let Err(e) = s.recv_trailers().await {
                        note_err(&o2, k, "recv_trailers", err_info(&e));
                        if careful {
                            s.stop_stream(h3::error::Code::H3_REQUEST_CANCELLED);
                        }
                        return;
                    }
                    o2.borrow_mut().reqs[k].recv_done = true;
                    // echo: the response body is a function of the request number and the received length
                    let len = o2.borrow().reqs[k].body.len();
                    let body = body_of(k, len, true);
                    if let Err(e) = s.send_response(http::Response::builder().status(200).body(()).unwrap()).await {
                        note_err(&o2, k, "send_response", err_info(&e));
                        return;
                    }
                    for piece in body.chunks(97.max(body.len() / 3 + 1)) {
                        if let Err(e) = s.send_data(Bytes::copy_from_slice(piece)).await {
                            note_err(&o2, k, "send_data", err_info(&e));
                            // a careful application still tries to end its side of the stream: that must stay that request's business
                            let _ = s.finish().await;
                            return;
                        }
                    }
                    if let Err(e) = s.finish().await {
                        note_err(&o2, k, "finish", err_info(&e));
                        return;
                    }
                    o2.borrow_mut().reqs[k].send_done = true;
                });
            }
            Ok(None) => break,
            Err(e) => {
                o.borrow_mut().driver = Some(conn_info(&e));
                break;
            }
        }
    }
    std::future::pending::<()>().await;
    drop(conn);
}

async fn client_app(net: Net, reqs: Vec<Req>, o: Shared<Obs>, sp: Spawner, go: crate::simnet::exec::Signal, e2e: bool) {
    let mut b = h3::client::builder();
    b.send_grease(false).max_field_section_size(LIMIT);
    let Ok((conn, sr)): Result<(ClientConn, SendReq), _> = b.build(net.conn(Side::Client)).await else { return };
    let o2 = o.clone();
    sp.spawn("client-driver", async move {
        let mut conn = conn;
        let e = std::future::poll_fn(|cx| conn.poll_close(cx)).await;
        o2.borrow_mut().driver = Some(conn_info(&e));
        std::future::pending::<()>().await;
        drop(conn);
    });
    // requests are started one after the other (so that request k is stream 4k) but run concurrently
    let mut sr = sr;
    for (k, r) in reqs.iter().enumerate() {
        #[allow(unused_mut)]
        let mut req = http::Request::builder().method("POST").uri("https://example.com/up").body(()).unwrap();
        if e2e && r.fault == Fault::Malformed {
            if k % 2 == 0 {
                // every field is valid on its own and h3's client sends it; the message as a whole is malformed (RFC 9114
                // 4.3.1: neither :authority nor a non-empty Host), which the server finds only when it assembles the request
                req = http::Request::builder().method("POST").uri("/up").header("host", "").body(()).unwrap();
            } else {
                // Host and :authority disagree: h3's client refuses to encode this request and nothing is sent; the
                // well-formed request k follows on the same handle
                let mut bad = http::Request::builder().method("POST").uri("https://example.com/up").body(()).unwrap();
                bad.headers_mut().insert("host", http::HeaderValue::from_static("other.example"));
                let said = match sr.send_request(bad).await {
                    Ok(_) => Ok(()),
                    Err(e) => Err(err_info(&e)),
                };
                o.borrow_mut().reqs[k].local_refusal = Some(said);
            }
        }
        // every other request goes through a clone of the handle, dropped right after: the request keeps the client's limits
        let started = if k % 2 == 1 { sr.clone().send_request(req).await } else { sr.send_request(req).await };
        let s = match started {
            Ok(s) => s,
            Err(e) => {
                note_err(&o, k, "send_request", err_info(&e));
                continue;
            }
        };
        o.borrow_mut().reqs[k].accepted = true;
        let o3 = o.clone();
        let r = r.clone();
        sp.spawn(format!("client-req-{k}"), async move {
            let mut s = s;
            let body = body_of(k, r.body_len, false);
            let n = r.pieces.max(1);
            let mut ok = true;
            for (pi, piece) in body.chunks((body.len() / n).max(1)).enumerate() {
                if let (true, Fault::Reset { code, offset }) = (e2e, r.fault) {
                    if pi >= offset {
                        // the application cancels its own request and, as documented, still looks at the response
                        s.stop_stream(h3::error::Code::from(code));
                        ok = false;
                        break;
                    }
                }
                if let Err(e) = s.send_data(Bytes::copy_from_slice(piece)).await {
                    note_err(&o3, k, "send_data", err_info(&e));
                    let _ = s.finish().await;
                    ok = false;
                    break;
                }
            }
            if let (true, true, Fault::Reset { code, .. }) = (e2e, ok, r.fault) {
                // (an empty body, or a cancel point behind the last piece)
                s.stop_stream(h3::error::Code::from(code));
                ok = false;
            }
            if ok {
                match s.finish().await {
                    Ok(()) => o3.borrow_mut().reqs[k].send_done = true,
                    Err(e) => note_err(&o3, k, "finish", err_info(&e)),
                }
            }
            // the documented pattern: read the response whatever happened to the upload
            match s.recv_response().await {
                Ok(_) => {}
                Err(e) => {
                    note_err(&o3, k, "recv_response", err_info(&e));
                    std::future::pending::<()>().await;
                }
            }
            loop {
                match s.recv_data().await {
                    Ok(Some(mut b)) => {
                        let c = b.copy_to_bytes(b.remaining());
                        o3.borrow_mut().reqs[k].body.extend_from_slice(&c);
                    }
                    Ok(None) => break,
                    Err(e) => {
                        note_err(&o3, k, "recv_data", err_info(&e));
                        std::future::pending::<()>().await;
                    }
                }
            }
            match s.recv_trailers().await {
                Ok(_) => o3.borrow_mut().reqs[k].recv_done = true,
                Err(e) => note_err(&o3, k, "recv_trailers", err_info(&e)),
            }
            std::future::pending::<()>().await;
        });
    }
    // the connection must still take new work after the faults: one more request once everything has settled
    go.wait(0).await;
    let req = http::Request::builder().method("GET").uri("https://example.com/after").body(()).unwrap();
    let r: Result<Vec<u8>, (String, ErrInfo)> = async {
        let mut s = sr.send_request(req).await.map_err(|e| ("send_request".to_string(), err_info(&e)))?;
        s.finish().await.map_err(|e| ("finish".to_string(), err_info(&e)))?;
        s.recv_response().await.map_err(|e| ("recv_response".to_string(), err_info(&e)))?;
        let mut body = Vec::new();
        while let Some(mut b) = s.recv_data().await.map_err(|e| ("recv_data".to_string(), err_info(&e)))? {
            let c = b.copy_to_bytes(b.remaining());
            body.extend_from_slice(&c);
        }
        Ok(body)
    }
    .await;
    o.borrow_mut().follow_up = Some(r);
    std::future::pending::<()>().await;
    drop(sr);
}

fn malformed_section(request: bool) -> Vec<u8> {
    let mut f: Vec<rq::Field> = if request {
        vec![(b":method".to_vec(), b"POST".to_vec()), (b":scheme".to_vec(), b"https".to_vec()), (b":authority".to_vec(), b"example.com".to_vec()), (b":path".to_vec(), b"/".to_vec())]
    } else {
        vec![(b":status".to_vec(), b"200".to_vec())]
    };
    f.push((b"Bad-Name".to_vec(), b"x".to_vec()));
    rf::frame(rf::T_HEADERS, &rq::encode_section_literal(&f, false))
}

fn oversized_section(request: bool) -> Vec<u8> {
    let mut f: Vec<rq::Field> = if request {
        vec![(b":method".to_vec(), b"POST".to_vec()), (b":scheme".to_vec(), b"https".to_vec()), (b":authority".to_vec(), b"example.com".to_vec()), (b":path".to_vec(), b"/".to_vec())]
    } else {
        vec![(b":status".to_vec(), b"200".to_vec())]
    };
    f.push((b"x-big".to_vec(), vec![b'b'; 500]));
    rf::frame(rf::T_HEADERS, &rq::encode_section_simple(&f))
}

/// the byte string the raw peer sends for message k (request towards a server, response towards a client)
fn peer_message(server_role: bool, k: usize, r: &Req) -> Vec<u8> {
    let mut b = match r.fault {
        Fault::Malformed => malformed_section(server_role),
        Fault::Oversized => oversized_section(server_role),
        _ => {
            if server_role {
                peer::post_request_headers()
            } else {
                peer::simple_response_headers("200")
            }
        }
    };
    let body = body_of(k, r.body_len, !server_role);
    let n = r.pieces.max(1);
    for piece in body.chunks((body.len() / n).max(1)) {
        b.extend(peer::data_frame(piece));
    }
    if let Fault::BadTrailers(v) = r.fault {
        let f: Vec<rq::Field> = match v {
            0 => vec![(b"Bad-Name".to_vec(), b"x".to_vec())],
            1 => vec![(b"x-ok".to_vec(), b"1".to_vec()), (b":foo".to_vec(), b"bar".to_vec())],
            2 => vec![(if server_role { b":path".to_vec() } else { b":status".to_vec() }, if server_role { b"/x".to_vec() } else { b"200".to_vec() }), (b"x-ok".to_vec(), b"1".to_vec())],
            _ => vec![(b"x-big".to_vec(), vec![b't'; 500])],
        };
        b.extend(rf::frame(rf::T_HEADERS, &rq::encode_section_literal(&f, false)));
    }
    b
}

fn scn_json(s: &Scn) -> Value {
    json!({"role": if s.server { "server" } else { "client" }, "style": format!("{:?}", s.style), "credit": if s.credit == UNLIMITED { -1 } else { s.credit as i64 }, "newest_first": s.newest_first, "reqs": s.reqs.iter().map(|r| format!("{:?} body={} pieces={}", r.fault, r.body_len, r.pieces)).collect::<Vec<_>>()})
}

pub fn run_scn(s: &Scn, merge: &mut Tape, sched: &mut Tape, ctx: &mut Ctx) -> Verdict {
    ctx.eval();
    fastrand::seed(23);
    let net = Net::new();
    let side = if s.server { Side::Server } else { Side::Client };
    let raw = side.other();
    net.set_raw(raw);
    net.lock().default_credit[side.idx()] = s.credit;
    net.lock().ends[side.idx()].accept_newest_first = s.newest_first;
    let o: Shared<Obs> = shared(Obs { reqs: vec![ReqObs::default(); s.reqs.len()], ..Default::default() });
    let mut ex = Exec::new();
    let sp = ex.spawner.clone();
    let go = crate::simnet::exec::Signal::new();
    if s.server {
        ex.spawn("server", server_app(net.clone(), o.clone(), sp.clone(), false));
    } else {
        ex.spawn("client", client_app(net.clone(), s.reqs.clone(), o.clone(), sp.clone(), go.clone(), false));
    }
    // per request op lists
    let mut lists: Vec<std::collections::VecDeque<PeerOp>> = Vec::new();
    for (k, r) in s.reqs.iter().enumerate() {
        let key = k + 1;
        let mut ops: Vec<PeerOp> = Vec::new();
        if !s.server {
            // the raw server can act on a request stream as soon as the client has opened it (also in the middle of the
            // client's upload)
            ops.push(PeerOp::AdoptOpen(key, 4 * k as u64));
        }
        let msg = peer_message(s.server, k, r);
        // split the message into a few writes so that other streams' operations can interleave
        let writes: Vec<Vec<u8>> = msg.chunks((msg.len() / 4).max(1)).map(|c| c.to_vec()).collect();
        match r.fault {
            Fault::FinBeforeHeaders => ops.push(PeerOp::Fin(key)),
            Fault::Abandoned => ops.push(PeerOp::Write(key, msg[..msg.len().min(3)].to_vec())),
            Fault::Reset { code, offset } => {
                let off = offset.min(msg.len());
                let mut sent = 0;
                for w in &writes {
                    if sent + w.len() <= off {
                        ops.push(PeerOp::Write(key, w.clone()));
                        sent += w.len();
                    } else {
                        if off > sent {
                            ops.push(PeerOp::Write(key, w[..off - sent].to_vec()));
                        }
                        break;
                    }
                }
                ops.push(PeerOp::Reset(key, code));
            }
            Fault::Stop { code, after_ops } => {
                for (i, w) in writes.iter().enumerate() {
                    if i == after_ops.min(writes.len()) {
                        ops.push(PeerOp::Stop(key, code));
                    }
                    ops.push(PeerOp::Write(key, w.clone()));
                }
                if after_ops >= writes.len() {
                    ops.push(PeerOp::Stop(key, code));
                }
                ops.push(PeerOp::Fin(key));
            }
            _ => {
                for w in writes {
                    ops.push(PeerOp::Write(key, w));
                }
                ops.push(PeerOp::Fin(key));
            }
        }
        lists.push(ops.into());
    }
    let mut ops = vec![PeerOp::OpenUni(0), PeerOp::Write(0, peer::control_preamble(&[]))];
    if s.server {
        // open the streams in id order (QUIC), then merge the rest
        for k in 0..s.reqs.len() {
            ops.push(PeerOp::OpenBidi(k + 1));
        }
    }
    let mut interleaved = false;
    let mut last: Option<usize> = None;
    let mut switches = 0;
    loop {
        let live: Vec<usize> = (0..lists.len()).filter(|i| !lists[*i].is_empty()).collect();
        if live.is_empty() {
            break;
        }
        let i = live[merge.pick(live.len())];
        if last.is_some() && last != Some(i) {
            switches += 1;
        }
        last = Some(i);
        ops.push(lists[i].pop_front().unwrap());
    }
    if switches >= s.reqs.len() {
        interleaved = true;
    }
    if s.server {
        // the follow-up request: one more request once everything has settled
        let key = s.reqs.len() + 1;
        ops.extend([PeerOp::Barrier, PeerOp::OpenBidi(key), PeerOp::Write(key, peer::simple_request_headers()), PeerOp::Fin(key)]);
    }
    if !s.server {
        // the follow-up request: the raw server answers it with a small body
        let key = s.reqs.len() + 1;
        let mut resp = peer::simple_response_headers("200");
        resp.extend(peer::data_frame(b"still alive"));
        ops.extend([PeerOp::Barrier, PeerOp::Signal(0), PeerOp::AdoptOpen(key, 4 * s.reqs.len() as u64), PeerOp::Write(key, resp), PeerOp::Fin(key)]);
    }
    let mut peer = RawPeer::new(raw, ops);
    peer.signals.push(go.clone());
    peer.net = Some(net.clone());
    let end = ex.run(&net, &mut peer, sched, s.style, 400_000);
    let obs = o.borrow().clone();
    let closes = net.close_calls(side);
    let case = || json!({"scenario": scn_json(s), "observed": obs.reqs.iter().map(|r| format!("accepted={} body={} recv_done={} send_done={} first_error={:?}", r.accepted, r.body.len(), r.recv_done, r.send_done, r.first_error)).collect::<Vec<_>>(), "driver": format!("{:?}", obs.driver), "closes": format!("{closes:?}"), "steps": ex.steps});
    if end == RunEnd::StepBound {
        return Err(Failure::fault("step bound"));
    }
    if let Some((task, p)) = ex.panics().first() {
        return Err(Failure::new(format!("panic in task {task}: {p}"), case()));
    }
    let fail = |m: String| Err(Failure::new(m, case()));
    if !closes.is_empty() {
        return fail(format!("a stream-scoped fault closed the connection with {:#x}", closes[0].code));
    }
    if obs.driver.is_some() {
        return fail(format!("the driver reported {:?}", obs.driver));
    }
    for (k, r) in s.reqs.iter().enumerate() {
        let ro = &obs.reqs[k];
        let stream = 4 * k as u64;
        // a stream the peer never sent anything on (reset at offset 0 is still announced by the reset) exists
        if s.server && !ro.accepted {
            return fail(format!("request {k} (stream {stream}) was never handed out by accept()"));
        }
        let conn_err = matches!(&ro.first_error, Some((_, ErrInfo::Conn(_))));
        if conn_err {
            return fail(format!("request {k}: a connection-level error was reported: {:?}", ro.first_error));
        }
        match r.fault {
            Fault::None => {
                if let Some(e) = &ro.first_error {
                    return fail(format!("healthy request {k} failed: {e:?}"));
                }
                let want_in = body_of(k, r.body_len, !s.server);
                if ro.body != want_in || !ro.recv_done {
                    return fail(format!("healthy request {k}: received {} body bytes (complete: {}), the peer sent {}", ro.body.len(), ro.recv_done, want_in.len()));
                }
                if !ro.send_done {
                    return fail(format!("healthy request {k}: sending did not complete"));
                }
                // what h3 wrote on that stream
                let g = net.lock();
                let p = g.pipes.get(&(stream, side)).expect("pipe");
                let seg = rf::segment(&p.written);
                if !matches!(seg.end, rf::End::Boundary) || !p.fin_issued {
                    return fail(format!("healthy request {k}: h3's side of the stream is not a complete, finished message"));
                }
                let data: Vec<u8> = seg.events.iter().filter_map(|e| if let Ev::Data(d) = e { Some(d.clone()) } else { None }).flatten().collect();
                let want_out = if s.server { body_of(k, r.body_len, true) } else { body_of(k, r.body_len, false) };
                if data != want_out {
                    return fail(format!("healthy request {k}: h3 wrote {} body bytes on the stream, expected exactly its own {}", data.len(), want_out.len()));
                }
                ctx.class("healthy_verified");
            }
            Fault::Reset { code, .. } => {
                match &ro.first_error {
                    Some((_, ErrInfo::RemoteTerminate { code: c })) if *c == code => {}
                    other => return fail(format!("request {k} was reset by the peer with code {code:#x}; first error: {other:?}")),
                }
                ctx.class("fault_reset");
            }
            Fault::Stop { code, .. } => {
                // did the transport refuse one of h3's data writes on that stream because of the STOP_SENDING?
                let refused = net.lock().pipes.get(&(stream, side)).map(|p| p.stop_refusals).unwrap_or(0);
                match &ro.first_error {
                    None if refused == 0 => ctx.class("stop_unobservable"),
                    None => return fail(format!("request {k}: the transport refused {refused} write(s) because of STOP_SENDING({code:#x}), but no call on that request reported it")),
                    Some((_, ErrInfo::RemoteTerminate { code: c })) if *c == code => {
                        if refused > 0 {
                            ctx.class("stop_hit_a_write");
                        }
                    }
                    other => return fail(format!("request {k} got STOP_SENDING({code:#x}); first error: {other:?}")),
                }
                // the other direction is unaffected: everything the peer sent was received
                let want_in = body_of(k, r.body_len, !s.server);
                if ro.recv_done && ro.body != want_in {
                    return fail(format!("request {k}: STOP_SENDING must not disturb the receive direction"));
                }
                ctx.class("fault_stop");
            }
            Fault::Malformed => {
                match &ro.first_error {
                    Some((_, ErrInfo::Stream { code: c })) if *c == code::MESSAGE_ERROR => {}
                    other => return fail(format!("request {k} carried a malformed message; first error: {other:?}")),
                }
                ctx.class("fault_malformed");
            }
            Fault::Oversized => {
                match &ro.first_error {
                    Some((_, ErrInfo::HeaderTooBig { .. })) => {}
                    other => return fail(format!("request {k} carried an oversized section; first error: {other:?}")),
                }
                ctx.class("fault_oversized");
            }
            Fault::FinBeforeHeaders => {
                match &ro.first_error {
                    Some((_, ErrInfo::Stream { code: c })) if *c == code::REQUEST_INCOMPLETE => {}
                    other => return fail(format!("request {k} was finished before HEADERS; first error: {other:?}")),
                }
                ctx.class("fault_fin_before_headers");
            }
            Fault::Abandoned => {
                if let Some(e) = &ro.first_error {
                    return fail(format!("abandoned request {k} reported {e:?}"));
                }
                ctx.class("fault_abandoned");
            }
            Fault::BadTrailers(v) => {
                // whether each of these trailer sections is refused at all is C12's / C10's business; here: whatever is
                // reported is reported on that request, at stream level, with the code of a malformed / oversized message
                match (&ro.first_error, v) {
                    (None, _) => ctx.class("bad_trailers_tolerated"),
                    (Some((_, ErrInfo::Stream { code: c })), 0..=2) if *c == code::MESSAGE_ERROR => ctx.class("bad_trailers_refused"),
                    (Some((_, ErrInfo::HeaderTooBig { .. })), 3) => ctx.class("bad_trailers_refused"),
                    (other, _) => return fail(format!("request {k} carried a bad trailer section (kind {v}); first error: {other:?}")),
                }
                // the body before the trailers is that request's own
                let want_in = body_of(k, r.body_len, !s.server);
                if ro.body != want_in {
                    return fail(format!("request {k}: {} body bytes delivered before the bad trailers, the peer sent {}", ro.body.len(), want_in.len()));
                }
                ctx.class("fault_bad_trailers");
            }
        }
    }
    if s.server {
        let written = net.written(4 * s.reqs.len() as u64, Side::Server);
        let seg = rf::segment(&written);
        let data: Vec<u8> = seg.events.iter().filter_map(|e| if let Ev::Data(d) = e { Some(d.clone()) } else { None }).flatten().collect();
        if data != b"still alive" {
            return fail(format!("after the stream-scoped faults the connection must still serve a new request; on the follow-up request's stream the server wrote {} body bytes ({} frames)", data.len(), seg.events.len()));
        }
        ctx.class("follow_up_request_served");
    }
    if !s.server {
        match &obs.follow_up {
            Some(Ok(b)) if b == b"still alive" => ctx.class("follow_up_request_served"),
            other => return fail(format!("after the stream-scoped faults the connection must still carry a new request; the follow-up request: {other:?}")),
        }
    }
    let faulty = s.reqs.iter().filter(|r| r.fault != Fault::None).count();
    let healthy = s.reqs.len() - faulty;
    ctx.class(if s.server { "role_server" } else { "role_client" });
    if faulty >= 1 && healthy >= 1 && (interleaved || s.style != Style::Eager) {
        ctx.class("nontrivial");
        ctx.nontrivial(&(format!("{:?}", scn_json(s)), ex.steps));
    }
    ctx.sample(|| case());
    Ok(())
}


// ------------------------------------------------------------------------------------------------
// both ends h3: the client application cancels some of its own requests (RESET_STREAM from h3 to h3)

struct QuietSignal {
    go: crate::simnet::exec::Signal,
    fired: bool,
}
impl crate::simnet::exec::Actor for QuietSignal {
    fn ready(&mut self, quiet: bool) -> bool {
        quiet && !self.fired
    }
    fn step(&mut self, _net: &Net, _sp: &Spawner) {
        self.fired = true;
        self.go.raise();
    }
}

/// Both ends are h3 and neither application misuses the API: the client cancels request k with `stop_stream(code)` after
/// `offset` body pieces and keeps waiting for a response (a server may answer early); the server application answers
/// what it can read and gives a request up with `stop_stream` when it cannot. Whatever the schedule - the reset may reach
/// the server before, inside or after the headers - the fault stays on that request: no connection error on either end,
/// the other requests deliver exactly their own bytes, and a request sent afterwards is served.
pub fn run_e2e(reqs: &[Req], style: Style, sched: &mut Tape, ctx: &mut Ctx) -> Verdict {
    ctx.eval();
    fastrand::seed(29);
    let net = Net::new();
    let so: Shared<Obs> = shared(Obs { reqs: vec![ReqObs::default(); reqs.len()], ..Default::default() });
    let co: Shared<Obs> = shared(Obs { reqs: vec![ReqObs::default(); reqs.len()], ..Default::default() });
    let mut ex = Exec::new();
    let sp = ex.spawner.clone();
    let go = crate::simnet::exec::Signal::new();
    ex.spawn("server", server_app(net.clone(), so.clone(), sp.clone(), true));
    ex.spawn("client", client_app(net.clone(), reqs.to_vec(), co.clone(), sp.clone(), go.clone(), true));
    let mut actor = QuietSignal { go, fired: false };
    let end = ex.run(&net, &mut actor, sched, style, 400_000);
    let (sobs, cobs) = (so.borrow().clone(), co.borrow().clone());
    let closes = (net.close_calls(Side::Client), net.close_calls(Side::Server));
    let show = |o: &Obs| o.reqs.iter().map(|r| format!("accepted={} body={} recv_done={} send_done={} first_error={:?} local_refusal={:?}", r.accepted, r.body.len(), r.recv_done, r.send_done, r.first_error, r.local_refusal)).collect::<Vec<_>>();
    let case = || json!({"e2e": true, "reqs": reqs.iter().map(req_json).collect::<Vec<_>>(), "style": format!("{style:?}"), "client": show(&cobs), "server": show(&sobs), "client_driver": format!("{:?}", cobs.driver), "server_driver": format!("{:?}", sobs.driver), "closes": format!("{closes:?}"), "follow_up": format!("{:?}", cobs.follow_up), "steps": ex.steps});
    if end == RunEnd::StepBound {
        return Err(Failure::fault("step bound"));
    }
    if let Some((task, p)) = ex.panics().first() {
        return Err(Failure::new(format!("panic in task {task}: {p}"), case()));
    }
    let fail = |m: String| Err(Failure::new(m, case()));
    if let Some(c) = closes.0.first().or(closes.1.first()) {
        return fail(format!("a request-scoped fault (cancelled by its own client / malformed) closed the connection with {:#x}", c.code));
    }
    if cobs.driver.is_some() || sobs.driver.is_some() {
        return fail(format!("a driver reported an error: client {:?}, server {:?}", cobs.driver, sobs.driver));
    }
    for (k, r) in reqs.iter().enumerate() {
        for (who, o) in [("client", &cobs.reqs[k]), ("server", &sobs.reqs[k])] {
            if let Some((call, ErrInfo::Conn(c))) = &o.first_error {
                return fail(format!("request {k}: {call} on the {who} reported the connection-level error {c:?}"));
            }
        }
        if r.fault == Fault::Malformed && k % 2 == 1 {
            match &cobs.reqs[k].local_refusal {
                Some(Err(ErrInfo::Stream { .. })) => {}
                other => return fail(format!("before request {k}: a request whose Host and :authority disagree is refused by the client before anything is sent - an error of that request only; send_request reported {other:?}")),
            }
            ctx.class("e2e_request_refused_by_its_own_client");
            ctx.class("fault_malformed");
        }
        match r.fault {
            Fault::None | Fault::Malformed if r.fault == Fault::None || k % 2 == 1 => {
                let (c, s) = (&cobs.reqs[k], &sobs.reqs[k]);
                if let Some(e) = c.first_error.as_ref().or(s.first_error.as_ref()) {
                    return fail(format!("healthy request {k} failed: {e:?}"));
                }
                if s.body != body_of(k, r.body_len, false) || !s.recv_done {
                    return fail(format!("healthy request {k}: the server received {} body bytes (complete: {}), the client sent {}", s.body.len(), s.recv_done, r.body_len));
                }
                if c.body != body_of(k, r.body_len, true) || !c.recv_done {
                    return fail(format!("healthy request {k}: the client received {} body bytes (complete: {}), the server sent {}", c.body.len(), c.recv_done, r.body_len));
                }
                ctx.class("healthy_verified");
            }
            Fault::Malformed => {
                let (c, s) = (&cobs.reqs[k], &sobs.reqs[k]);
                match &s.first_error {
                    Some((call, ErrInfo::Stream { code: x })) if call == "resolve_request" && *x == code::MESSAGE_ERROR => {}
                    other => return fail(format!("request {k} (no :authority, empty Host) must be refused by the server as malformed; the server saw {other:?}")),
                }
                match &c.first_error {
                    Some((_, ErrInfo::Stream { code: x } | ErrInfo::RemoteTerminate { code: x })) if *x == code::MESSAGE_ERROR => {}
                    other => return fail(format!("request {k} (no :authority, empty Host): the client must see a stream error with H3_MESSAGE_ERROR; it saw {other:?}")),
                }
                ctx.class("e2e_malformed_as_a_whole");
                ctx.class("fault_malformed");
            }
            _ => {
                let s = &sobs.reqs[k];
                ctx.class(match &s.first_error {
                    Some((call, _)) if call == "resolve_request" => "e2e_cancel_seen_before_the_request_was_resolved",
                    Some(_) => "e2e_cancel_seen_by_the_handler",
                    None if !s.accepted => "e2e_cancelled_request_never_accepted",
                    None => "e2e_cancel_not_noticed",
                });
            }
        }
    }
    match &cobs.follow_up {
        Some(Ok(b)) if b == b"still alive" => ctx.class("follow_up_request_served"),
        other => return fail(format!("after the cancelled requests the connection must still carry a new request; the follow-up request: {other:?}")),
    }
    ctx.class("e2e");
    ctx.nontrivial(&(format!("{:?}", reqs.iter().map(req_json).collect::<Vec<_>>()), ex.steps, 7u8));
    ctx.sample(|| case());
    Ok(())
}

fn e2e_family(ctx: &mut Ctx, shard: usize, nshards: usize) -> Verdict {
    let mut idx = 0usize;
    for n in 2..=3usize {
        for subset in 1..((1u32 << n) - 1) {
            for (code, offset) in [(0x10cu64, 0usize), (0x10c, 1), (0x100, 0), (0x33, 2), (0x10c, 9)] {
                for body in [0usize, 33, 3000] {
                    idx += 1;
                    if idx % nshards != shard {
                        continue;
                    }
                    let reqs: Vec<Req> = (0..n).map(|k| Req { fault: if subset & (1 << k) != 0 { Fault::Reset { code, offset } } else { Fault::None }, body_len: body + k, pieces: 1 + k % 3 }).collect();
                    for (si, style) in [Style::Eager, Style::Tiny, Style::Random, Style::Random, Style::Random].into_iter().enumerate() {
                        let cells = prf_cells((idx * 5 + si) as u64 + 77_000, 200);
                        let mut sched = Tape::new(if style == Style::Random { &cells } else { &[] });
                        run_e2e(&reqs, style, &mut sched, ctx).map_err(|mut e| {
                            e.direct = Some(json!({"e2e": true, "style": format!("{style:?}"), "cells": cells, "reqs": reqs.iter().map(req_json).collect::<Vec<_>>(), "decoded": e.case}));
                            e
                        })?;
                    }
                }
            }
        }
    }
    // a request that only the assembled message shows to be malformed, sent by h3's own client
    let mut idx2 = 0usize;
    for n in 2..=3usize {
        for subset in 1..((1u32 << n) - 1) {
            for body in [0usize, 33, 3000] {
                idx2 += 1;
                if idx2 % nshards != shard {
                    continue;
                }
                let reqs: Vec<Req> = (0..n).map(|k| Req { fault: if subset & (1 << k) != 0 { Fault::Malformed } else { Fault::None }, body_len: body + k, pieces: 1 + k % 3 }).collect();
                for (si, style) in [Style::Eager, Style::Tiny, Style::Random, Style::Random].into_iter().enumerate() {
                    let cells = prf_cells((idx2 * 4 + si) as u64 + 99_000, 200);
                    let mut sched = Tape::new(if style == Style::Random { &cells } else { &[] });
                    run_e2e(&reqs, style, &mut sched, ctx).map_err(|mut e| {
                        e.direct = Some(json!({"e2e": true, "style": format!("{style:?}"), "cells": cells, "reqs": reqs.iter().map(req_json).collect::<Vec<_>>(), "decoded": e.case}));
                        e
                    })?;
                }
            }
        }
    }
    if shard == 0 {
        ctx.subspace("both ends h3: every proper victim subset of 2..3 requests that are malformed only as a whole (even k: no :authority and an empty Host, sent by h3's client and refused by the server; odd k: a request whose Host and :authority disagree, refused by the client itself, precedes the well-formed request k) x 3 body sizes x 4 schedules", idx2 as u64 * 4);
        ctx.subspace("both ends h3: every proper victim subset of 2..3 requests x 5 (code, cancel point) x 3 body sizes x 5 schedules", idx as u64 * 5);
    }
    Ok(())
}

fn gen_fault(t: &mut Tape, server: bool, msg_len_hint: usize) -> Fault {
    let codes = [0x10cu64, 0x100, 0x10b, 0, 0x101, 0x10d, 0x33, 0xdead_beef, (1 << 62) - 1];
    match t.pick(if server { 8 } else { 6 }) {
        0 => Fault::None,
        5 if !server => Fault::BadTrailers(t.pick(4) as u8),
        7 => Fault::BadTrailers(t.pick(4) as u8),
        1 => Fault::Reset { code: *t.choose(&codes), offset: t.pick(msg_len_hint + 60) },
        2 => Fault::Stop { code: *t.choose(&codes), after_ops: t.pick(6) },
        3 => Fault::Malformed,
        4 => Fault::Oversized,
        5 => Fault::FinBeforeHeaders,
        _ => Fault::Abandoned,
    }
}

fn gen(t: &mut Tape) -> Scn {
    let server = t.bool();
    let n = t.int(2, 4) as usize;
    let mut reqs: Vec<Req> = (0..n)
        .map(|_| {
            let body_len = match t.pick(4) {
                0 => 0,
                1 => t.int(1, 50) as usize,
                2 => t.int(1, 2000) as usize,
                _ => t.int(1, 20000) as usize,
            };
            let fault = if t.chance(1, 2) { Fault::None } else { gen_fault(t, server, body_len) };
            Req { fault, body_len, pieces: t.int(1, 4) as usize }
        })
        .collect();
    if reqs.iter().all(|r| r.fault == Fault::None) {
        let i = t.pick(n);
        reqs[i].fault = gen_fault(t, server, reqs[i].body_len);
    }
    let style = [Style::Eager, Style::Tiny, Style::Random][t.pick(3)];
    let credit = match t.pick(6) {
        0 | 1 | 2 => UNLIMITED,
        3 => 0,
        4 => t.int(1, 16),
        _ => t.int(1, 3000),
    };
    Scn { server, reqs, style, credit, newest_first: t.chance(1, 4) }
}

fn exhaustive(ctx: &mut Ctx, shard: usize, nshards: usize) -> Verdict {
    e2e_family(ctx, shard, nshards)?;
    // every (fault kind x victim subset) for 2..3 requests, both roles
    let faults_server = [Fault::Reset { code: 0x10c, offset: 0 }, Fault::Reset { code: 0x77, offset: 5 }, Fault::Reset { code: 0x10c, offset: 40 }, Fault::Reset { code: 0x10c, offset: 100_000 }, Fault::Stop { code: 0x10c, after_ops: 0 }, Fault::Stop { code: 0x99, after_ops: 2 }, Fault::Stop { code: 0x10c, after_ops: 9 }, Fault::Stop { code: 0x100, after_ops: 1 }, Fault::Reset { code: 0x100, offset: 30 }, Fault::Stop { code: 0x10b, after_ops: 0 }, Fault::Reset { code: 0x10b, offset: 30 }, Fault::Malformed, Fault::Oversized, Fault::BadTrailers(0), Fault::BadTrailers(1), Fault::BadTrailers(2), Fault::BadTrailers(3), Fault::FinBeforeHeaders, Fault::Abandoned];
    let mut idx = 0usize;
    for server in [true, false] {
        let faults: &[Fault] = if server { &faults_server } else { &faults_server[..17] };
        for n in 2..=3usize {
            for subset in 1..(1u32 << n) {
                for f in faults {
                    for body in [0usize, 33, 3000] {
                        idx += 1;
                        if idx % nshards != shard {
                            continue;
                        }
                        let reqs: Vec<Req> = (0..n).map(|k| Req { fault: if subset & (1 << k) != 0 { *f } else { Fault::None }, body_len: body + k, pieces: 1 + k % 3 }).collect();
                        for (si, style) in [Style::Eager, Style::Tiny, Style::Random].into_iter().enumerate() {
                            let cells = prf_cells((idx * 3 + si) as u64, 160);
                            let (a, b) = cells.split_at(40);
                            let mut merge = Tape::new(a);
                            let mut sched = Tape::new(if style == Style::Random { b } else { &[] });
                            for credit in [UNLIMITED, 5] {
                                let mut merge = Tape::new(a);
                                let mut sched = Tape::new(if style == Style::Random { b } else { &[] });
                                run_scn(&Scn { server, reqs: reqs.clone(), style, credit, newest_first: credit != UNLIMITED && si == 2 }, &mut merge, &mut sched, ctx).map_err(|mut e| {
                                    e.direct = Some(json!({"server": server, "style": format!("{style:?}"), "credit": credit.to_string(), "newest_first": credit != UNLIMITED && si == 2, "cells": cells, "reqs": reqs.iter().map(req_json).collect::<Vec<_>>(), "decoded": e.case}));
                                    e
                                })?;
                            }
                        }
                    }
                }
            }
        }
    }
    if shard == 0 {
        ctx.subspace("every (fault kind x victim subset) for 2..3 requests x 3 body sizes x 3 styles x send credit unlimited / 5 bytes, both roles", idx as u64 * 6);
    }
    Ok(())
}

fn run_tape(tape: &[u16], ctx: &mut Ctx) -> Verdict {
    let mut t = Tape::new(tape);
    if t.chance(1, 5) {
        let n = 2 + t.pick(3);
        let codes = [0x10cu64, 0x100, 0x10b, 0, 0x33, (1 << 62) - 1];
        let mut reqs: Vec<Req> = (0..n).map(|_| Req { fault: if t.chance(1, 2) { Fault::Reset { code: codes[t.pick(codes.len())], offset: t.pick(4) } } else { Fault::None }, body_len: [0usize, 1, 33, 700, 3000][t.pick(5)], pieces: 1 + t.pick(4) }).collect();
        reqs[0].fault = match reqs[0].fault {
            Fault::None if reqs.iter().all(|r| r.fault == Fault::None) => Fault::Reset { code: 0x10c, offset: 0 },
            f => f,
        };
        let style = [Style::Eager, Style::Tiny, Style::Random, Style::Random][t.pick(4)];
        let pos = t.position().min(tape.len());
        let mut sched = Tape::new(&tape[pos..]);
        return run_e2e(&reqs, style, &mut sched, ctx);
    }
    let s = gen(&mut t);
    let pos = t.position().min(tape.len());
    let (a, b) = tape[pos..].split_at((tape.len() - pos).min(40));
    let mut merge = Tape::new(a);
    let mut sched = Tape::new(b);
    run_scn(&s, &mut merge, &mut sched, ctx)
}

fn req_json(r: &Req) -> Value {
    let (kind, a, b) = match r.fault {
        Fault::None => ("None", 0, 0),
        Fault::Reset { code, offset } => ("Reset", code, offset as u64),
        Fault::Stop { code, after_ops } => ("Stop", code, after_ops as u64),
        Fault::Malformed => ("Malformed", 0, 0),
        Fault::BadTrailers(v) => ("BadTrailers", v as u64, 0),
        Fault::Oversized => ("Oversized", 0, 0),
        Fault::FinBeforeHeaders => ("FinBeforeHeaders", 0, 0),
        Fault::Abandoned => ("Abandoned", 0, 0),
    };
    json!({"fault": kind, "a": a.to_string(), "b": b, "body_len": r.body_len, "pieces": r.pieces})
}

fn run_direct(d: &Value, ctx: &mut Ctx) -> Verdict {
    let reqs: Vec<Req> = d["reqs"]
        .as_array()
        .map(|a| {
            a.iter()
                .map(|x| {
                    let code: u64 = x["a"].as_str().and_then(|s| s.parse().ok()).unwrap_or(0);
                    let b = x["b"].as_u64().unwrap_or(0) as usize;
                    let fault = match x["fault"].as_str() {
                        Some("Reset") => Fault::Reset { code, offset: b },
                        Some("Stop") => Fault::Stop { code, after_ops: b },
                        Some("Malformed") => Fault::Malformed,
                        Some("BadTrailers") => Fault::BadTrailers(code as u8),
                        Some("Oversized") => Fault::Oversized,
                        Some("FinBeforeHeaders") => Fault::FinBeforeHeaders,
                        Some("Abandoned") => Fault::Abandoned,
                        _ => Fault::None,
                    };
                    Req { fault, body_len: x["body_len"].as_u64().unwrap_or(0) as usize, pieces: x["pieces"].as_u64().unwrap_or(1) as usize }
                })
                .collect()
        })
        .unwrap_or_default();
    let style = match d["style"].as_str() {
        Some("Eager") => Style::Eager,
        Some("Tiny") => Style::Tiny,
        _ => Style::Random,
    };
    let cells: Vec<u16> = d["cells"].as_array().map(|a| a.iter().map(|x| x.as_u64().unwrap_or(0) as u16).collect()).unwrap_or_default();
    if d["e2e"].as_bool() == Some(true) {
        let mut sched = Tape::new(if style == Style::Random { &cells } else { &[] });
        return run_e2e(&reqs, style, &mut sched, ctx);
    }
    let (a, b) = cells.split_at(40.min(cells.len()));
    let mut merge = Tape::new(a);
    let mut sched = Tape::new(if style == Style::Random { b } else { &[] });
    let credit = d["credit"].as_str().and_then(|s| s.parse().ok()).unwrap_or(UNLIMITED);
    run_scn(&Scn { server: d["server"].as_bool().unwrap_or(true), reqs, style, credit, newest_first: d["newest_first"].as_bool().unwrap_or(false) }, &mut merge, &mut sched, ctx)
}
