//! C04 - Control and unidirectional stream rules are enforced with the right error.

use std::sync::Arc;

use h3::{ConnectionState, SharedState};
use serde_json::{json, Value};

use crate::reference::frames as rf;
use crate::reference::varint as rv;
use crate::runner::{Ctx, Failure, PropDef, Verdict};
use crate::simnet::app::*;
use crate::simnet::exec::{shared, Exec, RunEnd, Shared, Signal, Spawner, Style};
use crate::simnet::peer::{self, PeerOp, RawPeer};
use crate::simnet::{Net, Side, UNLIMITED};
use crate::tape::{Odometer, Tape};

pub static PROP: PropDef = PropDef {
    id: "C04",
    rule: "case = role x peer behaviour (control stream: type varint form, frame sequence over {SETTINGS, 2nd SETTINGS, GOAWAY, CANCEL_PUSH, MAX_PUSH_ID, DATA, HEADERS, PUSH_PROMISE, H2-reserved, unknown(0/n)}, FIN/RESET at any position; \
           further uni streams typed control/encoder/decoder (duplicates), push, WebTransport-uni, grease, unknown, or ended before/inside the type varint; arrival order and chunking from the tape) \
           x the h3 end's own outgoing side starved (uni stream credit 0..3 then granted by the scheduler, send credit 0/small/unlimited). oracle: reference control/uni-stream machine: first frame not SETTINGS => H3_MISSING_SETTINGS; \
           2nd SETTINGS/DATA/HEADERS/PUSH_PROMISE/MAX_PUSH_ID->client/H2-reserved => H3_FRAME_UNEXPECTED; control FIN/RESET => H3_CLOSED_CRITICAL_STREAM; 2nd control/encoder/decoder => H3_STREAM_CREATION_ERROR; \
           unknown frames / unknown stream types / streams ended before their type => no close and driver still pending; every legal control frame acted on exactly once (SETTINGS visible in settings(), GOAWAY => server accept()==None / client send_request fails RemoteClosing, and no such effect without it) regardless of back-pressure. \
           at most one violating element (two => code in the set of both). non-trivial = >= 2 streams or >= 2 control frames, and (a type varint split across chunks or a withheld credit that was actually hit or a violation); distinct by scenario+schedule hash",
    assumptions: &[
        "push streams, CANCEL_PUSH and push-id validation are not covered by the statement: either behaviour passes",
        "where two clauses collide (unknown or H2-reserved frame before SETTINGS; FIN/RESET that also truncates a frame) either code passes",
        "simulated transport, see C01",
    ],
    tape_len: 220,
    random_cases: |t| t.pick(240_000, 20_000_000),
    run_tape,
    exhaustive: Some(exhaustive),
    run_direct: Some(run_direct),
    min_classes: &[("violation_missing_settings", 500), ("violation_frame_unexpected", 500), ("violation_closed_critical", 500), ("violation_stream_creation", 300), ("no_violation", 3000), ("goaway_effect_checked", 1000), ("credit_starved_hit", 1000), ("type_varint_split", 500)],
    extra: None,
};

#[derive(Debug, Clone, Copy, PartialEq, Eq, Hash)]
pub enum CF {
    Settings,
    Goaway,
    CancelPush,
    MaxPushId,
    Data,
    Headers,
    PushPromise,
    H2Reserved,
    Unknown0,
    UnknownN,
}

const CFS: [CF; 10] = [CF::Settings, CF::Goaway, CF::CancelPush, CF::MaxPushId, CF::Data, CF::Headers, CF::PushPromise, CF::H2Reserved, CF::Unknown0, CF::UnknownN];

#[derive(Debug, Clone, Copy, PartialEq, Eq, Hash)]
pub enum End {
    Open,
    Fin,
    Reset,
}

#[derive(Debug, Clone, PartialEq, Eq, Hash)]
pub enum Kind {
    Control { frames: Vec<CF>, end: End },
    Encoder,
    Decoder,
    Push { id: u64 },
    WtUni { session: u64 },
    Grease,
    Unknown(u64),
    /// closed before (cut = 0) or inside (cut >= 1) the type varint of the given form
    Early { form: usize, cut: usize, reset: bool },
    /// stays open with an incomplete header for ever: `what` 0 = `cut` bytes of a `form`-byte type varint,
    /// 1 = push stream type and a cut push id, 2 = WebTransport stream type and a cut session id
    Stalled { what: u8, form: usize, cut: usize },
}

#[derive(Debug, Clone, PartialEq, Eq, Hash)]
pub struct UniStream {
    pub kind: Kind,
    pub type_form: usize,
    pub end_after: End,
}

#[derive(Debug, Clone)]
pub struct Scn {
    pub server: bool,
    pub grease: bool,
    pub webtransport: bool,
    pub uni_credit: u64,
    /// the peer never grants more unidirectional streams than `uni_credit` (only with uni_credit == 3: control, encoder and
    /// decoder stream can be opened, the optional grease stream waits for ever)
    pub uni_frozen: bool,
    /// the code the peer uses whenever it resets one of its streams in this scenario
    pub reset_code: u64,
    /// the transport hands out waiting streams newest first (no order is promised by the h3::quic traits)
    pub newest_first: bool,
    /// server role: the application drives the connection with the poll API (`poll_accept_request_stream`, the way
    /// h3-webtransport does) instead of the async `accept()`
    pub poll_api: bool,
    pub send_credit: u64,
    pub streams: Vec<UniStream>,
    pub style: Style,
    /// settings signature sent in the (first) SETTINGS frame
    pub sig: (bool, bool),
}

#[derive(Debug, Clone, Copy, PartialEq, Eq, Hash, PartialOrd, Ord)]
pub enum Viol {
    MissingSettings,
    FrameUnexpected,
    ClosedCritical,
    StreamCreation,
    /// statement silent: any outcome
    Unspecified,
}

fn viol_code(v: Viol) -> u64 {
    match v {
        Viol::MissingSettings => code::MISSING_SETTINGS,
        Viol::FrameUnexpected => code::FRAME_UNEXPECTED,
        Viol::ClosedCritical => code::CLOSED_CRITICAL_STREAM,
        Viol::StreamCreation => code::STREAM_CREATION_ERROR,
        Viol::Unspecified => 0,
    }
}

#[derive(Debug, Default, Clone)]
pub struct Expect {
    /// each element: set of acceptable codes for that violating element
    pub violations: Vec<Vec<Viol>>,
    pub settings_applied: bool,
    pub goaway: bool,
    pub unspecified: bool,
}

/// All outcomes the reference machine allows. A RESET discards bytes that were not read yet, so a
/// stream that ends with RESET may have shown the endpoint any prefix of its frames - or nothing at
/// all (reset before the type was known): one alternative per possibility.
pub fn model_alternatives(s: &Scn) -> Vec<Expect> {
    // which of several control streams is "the" control stream and which the surplus one depends on the order in which
    // their types become known (chunking), not on the order in which they were opened: one ordering per candidate
    let controls: Vec<usize> = s.streams.iter().enumerate().filter(|(_, st)| matches!(st.kind, Kind::Control { .. })).map(|(i, _)| i).collect();
    if controls.len() < 2 {
        return alternatives_in_order(s);
    }
    let mut out = Vec::new();
    for ci in controls {
        let mut s2 = s.clone();
        let c = s2.streams.remove(ci);
        s2.streams.insert(0, c);
        let a = alternatives_in_order(&s2);
        if a.is_empty() {
            return Vec::new();
        }
        out.extend(a);
    }
    out
}

fn alternatives_in_order(s: &Scn) -> Vec<Expect> {
    // positions with a choice: (stream index, number of options)
    let mut choice_points: Vec<(usize, usize)> = Vec::new();
    for (i, st) in s.streams.iter().enumerate() {
        match &st.kind {
            Kind::Control { frames, end: End::Reset } => choice_points.push((i, frames.len() + 2)),
            Kind::Encoder | Kind::Decoder | Kind::Control { .. } if st.end_after == End::Reset && !matches!(st.kind, Kind::Control { .. }) => choice_points.push((i, 2)),
            _ => {}
        }
    }
    let mut out = Vec::new();
    let total: usize = choice_points.iter().map(|(_, n)| *n).product::<usize>().max(1);
    // more combinations than are worth enumerating: no verdict (an empty list; the caller does not judge the case)
    if total > 4096 {
        return Vec::new();
    }
    for code in 0..total {
        let mut c = code;
        let mut s2 = s.clone();
        let mut remove: Vec<usize> = Vec::new();
        for (i, n) in &choice_points {
            let k = c % n;
            c /= n;
            match &mut s2.streams[*i].kind {
                Kind::Control { frames, .. } => {
                    // k == 0: everything visible; k in 1..=len: only the first k-1 frames; k == len+1: stream invisible
                    if k == frames.len() + 1 {
                        remove.push(*i);
                    } else if k >= 1 {
                        frames.truncate(k - 1);
                    }
                }
                _ => {
                    if k == 1 {
                        remove.push(*i);
                    }
                }
            }
        }
        remove.sort();
        for i in remove.into_iter().rev() {
            s2.streams.remove(i);
        }
        out.push(model(&s2));
    }
    out
}

pub fn model(s: &Scn) -> Expect {
    let mut e = Expect::default();
    let mut controls = 0;
    let mut encoders = 0;
    let mut decoders = 0;
    for st in &s.streams {
        match &st.kind {
            Kind::Control { frames, end } => {
                controls += 1;
                if controls > 1 {
                    e.violations.push(vec![Viol::StreamCreation]);
                    continue;
                }
                let mut got_settings = false;
                let mut violated = false;
                for f in frames {
                    if !got_settings {
                        match f {
                            CF::Settings => {
                                got_settings = true;
                                e.settings_applied = true;
                            }
                            CF::Unknown0 | CF::UnknownN => {
                                // collision: unknown frame before SETTINGS: ignore, or missing settings
                                // (h3 skips it); keep going but allow both
                                e.violations.push(vec![Viol::MissingSettings, Viol::Unspecified]);
                                e.unspecified = true;
                            }
                            CF::H2Reserved => {
                                e.violations.push(vec![Viol::MissingSettings, Viol::FrameUnexpected]);
                                violated = true;
                            }
                            _ => {
                                e.violations.push(vec![Viol::MissingSettings]);
                                violated = true;
                            }
                        }
                    } else {
                        match f {
                            CF::Settings | CF::Data | CF::Headers | CF::PushPromise | CF::H2Reserved => {
                                e.violations.push(vec![Viol::FrameUnexpected]);
                                violated = true;
                            }
                            CF::MaxPushId if !s.server => {
                                e.violations.push(vec![Viol::FrameUnexpected]);
                                violated = true;
                            }
                            CF::MaxPushId => {}
                            CF::CancelPush => {
                                // not in the statement
                                e.unspecified = true;
                            }
                            CF::Goaway => e.goaway = true,
                            CF::Unknown0 | CF::UnknownN => {}
                        }
                    }
                    if violated {
                        break;
                    }
                }
                if !violated && *end != End::Open {
                    e.violations.push(vec![Viol::ClosedCritical]);
                }
            }
            Kind::Encoder => {
                encoders += 1;
                if encoders > 1 {
                    e.violations.push(vec![Viol::StreamCreation]);
                }
            }
            Kind::Decoder => {
                decoders += 1;
                if decoders > 1 {
                    e.violations.push(vec![Viol::StreamCreation]);
                }
            }
            Kind::Push { .. } => e.unspecified = true,
            Kind::WtUni { .. } | Kind::Grease | Kind::Unknown(_) | Kind::Early { .. } | Kind::Stalled { .. } => {}
        }
    }
    e
}

fn cf_bytes(f: CF, i: usize, first_settings: bool, sig: (bool, bool), server: bool) -> Vec<u8> {
    match f {
        CF::Settings => {
            if first_settings {
                rf::settings_frame(&[(0x33, sig.0 as u64), (0x8, sig.1 as u64), (0x21 + 0x1f * 3, 7)])
            } else {
                rf::settings_frame(&[(0x6, 1 << 20)])
            }
        }
        // a client receives a request stream id, a server a push id
        CF::Goaway => rf::varint_frame(rf::T_GOAWAY, if server { 3 } else { 400 }),
        CF::CancelPush => rf::varint_frame(rf::T_CANCEL_PUSH, 0),
        CF::MaxPushId => rf::varint_frame(rf::T_MAX_PUSH_ID, 5),
        CF::Data => rf::frame(rf::T_DATA, b"data"),
        CF::Headers => peer::simple_request_headers(),
        CF::PushPromise => rf::frame(rf::T_PUSH_PROMISE, &[0x01, 0x00, 0x00]),
        CF::H2Reserved => rf::frame(rf::H2_RESERVED[i % 4], &[]),
        CF::Unknown0 => rf::frame(0x21 + 0x1f * (i as u64 + 1), &[]),
        CF::UnknownN => rf::frame(0x4d, b"whatever"),
    }
}

fn type_bytes(ty: u64, form: usize) -> Vec<u8> {
    let f = form.max(rv::min_len(ty).unwrap());
    rv::encode_len(ty, f).unwrap()
}

fn stream_ops(st: &UniStream, key: usize, sig: (bool, bool), server: bool, first_control: &mut bool, reset_code: u64) -> Vec<PeerOp> {
    let mut ops = vec![PeerOp::OpenUni(key)];
    match &st.kind {
        Kind::Control { frames, end } => {
            ops.push(PeerOp::Write(key, type_bytes(0x00, st.type_form)));
            // every control stream the peer opens starts its own SETTINGS with the signature: when an earlier
            // control stream was reset before its type was seen, a later one legitimately becomes "the" control stream
            let mut first_settings = true;
            *first_control = false;
            // a long run of frames is written in one go (one flight of the peer): h3 finds all of it readable in one poll
            let coalesce = frames.len() > 12;
            let mut flight = type_bytes(0x00, st.type_form);
            if coalesce {
                ops.pop();
            }
            for (i, f) in frames.iter().enumerate() {
                let b = cf_bytes(*f, i, first_settings && *f == CF::Settings, sig, server);
                if coalesce {
                    flight.extend(b);
                } else {
                    ops.push(PeerOp::Write(key, b));
                }
                if *f == CF::Settings {
                    first_settings = false;
                }
            }
            if coalesce {
                ops.push(PeerOp::Write(key, flight));
            }
            match end {
                End::Open => {}
                End::Fin => ops.push(PeerOp::Fin(key)),
                End::Reset => ops.push(PeerOp::Reset(key, reset_code)),
            }
        }
        Kind::Encoder => ops.push(PeerOp::Write(key, type_bytes(0x02, st.type_form))),
        Kind::Decoder => ops.push(PeerOp::Write(key, type_bytes(0x03, st.type_form))),
        Kind::Push { id } => {
            let mut b = type_bytes(0x01, st.type_form);
            b.extend(rv::encode(*id).unwrap());
            ops.push(PeerOp::Write(key, b));
            ops.push(PeerOp::Write(key, b"push payload".to_vec()));
        }
        Kind::WtUni { session } => {
            let mut b = type_bytes(0x54, st.type_form);
            b.extend(rv::encode(*session).unwrap());
            ops.push(PeerOp::Write(key, b));
            ops.push(PeerOp::Write(key, b"wt payload".to_vec()));
        }
        Kind::Grease => {
            ops.push(PeerOp::Write(key, type_bytes(0x21 + 0x1f * 1000, st.type_form)));
            ops.push(PeerOp::Write(key, b"grease stream payload".to_vec()));
        }
        Kind::Unknown(t) => {
            ops.push(PeerOp::Write(key, type_bytes(*t, st.type_form)));
            ops.push(PeerOp::Write(key, vec![0; 9]));
        }
        Kind::Stalled { what, form, cut } => {
            let form = (*form).max(2);
            let b = match what {
                0 => {
                    let full = rv::encode_len(0x21 + 0x1f * 3, form).unwrap();
                    full[..(*cut).clamp(1, form - 1)].to_vec()
                }
                w => {
                    let mut b = type_bytes(if *w == 1 { 0x01 } else { 0x54 }, st.type_form);
                    let id = rv::encode_len(64, form).unwrap();
                    b.extend_from_slice(&id[..(*cut).clamp(1, form - 1)]);
                    b
                }
            };
            ops.push(PeerOp::Write(key, b));
            return ops;
        }
        Kind::Early { form, cut, reset } => {
            let full = rv::encode_len(0x21 + 0x1f * 2, (*form).max(2)).unwrap();
            let cut = (*cut).min(full.len() - 1);
            if cut > 0 {
                ops.push(PeerOp::Write(key, full[..cut].to_vec()));
            }
            if *reset {
                ops.push(PeerOp::Reset(key, reset_code));
            } else {
                ops.push(PeerOp::Fin(key));
            }
            return ops;
        }
    }
    if !matches!(st.kind, Kind::Control { .. }) {
        match st.end_after {
            End::Open => {}
            End::Fin => ops.push(PeerOp::Fin(key)),
            End::Reset => ops.push(PeerOp::Reset(key, reset_code)),
        }
    }
    ops
}

#[derive(Default, Clone, Debug)]
struct Obs {
    built: bool,
    build_error: Option<ConnInfo>,
    accepts: Vec<Result<Option<u64>, ConnInfo>>,
    driver: Option<ConnInfo>,
    probe: Option<Result<u64, ErrInfo>>,
}

async fn server_app(net: Net, grease: bool, wt: bool, o: Shared<Obs>, sh: Shared<Option<Arc<SharedState>>>, poll_api: bool) {
    let mut b = h3::server::builder();
    b.send_grease(grease).enable_webtransport(wt).enable_extended_connect(wt).enable_datagram(wt);
    let mut conn: ServerConn = match b.build(net.conn(Side::Server)).await {
        Ok(c) => c,
        Err(e) => {
            o.borrow_mut().build_error = Some(conn_info(&e));
            return;
        }
    };
    o.borrow_mut().built = true;
    *sh.borrow_mut() = Some(conn.inner.shared.clone());
    if poll_api {
        let mut keep = Vec::new();
        loop {
            match std::future::poll_fn(|cx| conn.poll_accept_request_stream(cx)).await {
                Ok(Some(st)) => {
                    let id = h3::quic::SendStream::<bytes::Bytes>::send_id(&st).into_inner();
                    o.borrow_mut().accepts.push(Ok(Some(id)));
                    keep.push(st);
                }
                Ok(None) => {
                    o.borrow_mut().accepts.push(Ok(None));
                    break;
                }
                Err(e) => {
                    o.borrow_mut().accepts.push(Err(conn_info(&e)));
                    break;
                }
            }
        }
        std::future::pending::<()>().await;
        drop((conn, keep));
        return;
    }
    loop {
        match conn.accept().await {
            Ok(Some(r)) => {
                let id = r.frame_stream.id().into_inner();
                o.borrow_mut().accepts.push(Ok(Some(id)));
            }
            Ok(None) => {
                o.borrow_mut().accepts.push(Ok(None));
                break;
            }
            Err(e) => {
                o.borrow_mut().accepts.push(Err(conn_info(&e)));
                break;
            }
        }
    }
    // keep the connection object alive: dropping it closes the connection with H3_NO_ERROR
    std::future::pending::<()>().await;
    drop(conn);
}

async fn client_app(net: Net, grease: bool, o: Shared<Obs>, sh: Shared<Option<Arc<SharedState>>>, probe: Signal, sp: Spawner) {
    let mut b = h3::client::builder();
    b.send_grease(grease);
    let (conn, mut sr): (ClientConn, SendReq) = match b.build(net.conn(Side::Client)).await {
        Ok(x) => x,
        Err(e) => {
            o.borrow_mut().build_error = Some(conn_info(&e));
            return;
        }
    };
    o.borrow_mut().built = true;
    *sh.borrow_mut() = Some(conn.inner.shared.clone());
    let o2 = o.clone();
    sp.spawn("client-driver", async move {
        let mut conn = conn;
        let e = std::future::poll_fn(|cx| conn.poll_close(cx)).await;
        o2.borrow_mut().driver = Some(conn_info(&e));
        std::future::pending::<()>().await;
        drop(conn);
    });
    probe.wait(0).await;
    let req = http::Request::builder().method("GET").uri("https://example.com/").body(()).unwrap();
    match sr.send_request(req).await {
        Ok(s) => {
            o.borrow_mut().probe = Some(Ok(s.id().into_inner()));
            std::future::pending::<()>().await;
            drop(s);
        }
        Err(e) => o.borrow_mut().probe = Some(Err(err_info(&e))),
    }
    std::future::pending::<()>().await;
    drop(sr);
}

fn scn_json(s: &Scn) -> Value {
    json!({
        "role": if s.server { "server" } else { "client" }, "grease": s.grease, "webtransport": s.webtransport,
        "uni_credit": if s.uni_credit == UNLIMITED { -1 } else { s.uni_credit as i64 }, "uni_frozen": s.uni_frozen, "reset_code": s.reset_code.to_string(), "newest_first": s.newest_first, "poll_api": s.poll_api, "send_credit": if s.send_credit == UNLIMITED { -1 } else { s.send_credit as i64 },
        "style": format!("{:?}", s.style), "streams": s.streams.iter().map(|st| format!("{:?} form={} end={:?}", st.kind, st.type_form, st.end_after)).collect::<Vec<_>>(),
    })
}


fn judge(s: &Scn, want: &Expect, obs: &Obs, closes: &[crate::simnet::CloseRecord], driver_err: &Option<ConnInfo>, shared_state: &Arc<SharedState>) -> Result<Vec<&'static str>, String> {
    let mut classes: Vec<&'static str> = Vec::new();
    let hard: Vec<&Vec<Viol>> = want.violations.iter().filter(|v| !v.contains(&Viol::Unspecified)).collect();
    let soft = want.violations.len() != hard.len();
    if want.unspecified && hard.is_empty() {
        // statement silent about part of this behaviour: only "no panic, setup completes" is demanded
        return Ok(vec!["unspecified_only"]);
    }
    if hard.is_empty() {
        // ---- no violation: no close, driver alive, frames acted on
        if !closes.is_empty() {
            return Err((format!("peer behaviour is legal but the connection was closed with {:#x}", closes[0].code)));
        }
        if let Some(e) = &driver_err {
            return Err((format!("peer behaviour is legal but the driver reported {e:?}")));
        }
        let settings = shared_state.settings();
        if want.settings_applied {
            if settings.enable_datagram() != s.sig.0 || settings.enable_extended_connect() != s.sig.1 {
                return Err((format!("SETTINGS not applied: datagram {} extended_connect {}, sent {:?}", settings.enable_datagram(), settings.enable_extended_connect(), s.sig)));
            }
        } else if settings.enable_datagram() || settings.enable_extended_connect() {
            return Err("settings() differs from the protocol defaults although no SETTINGS frame was sent".to_string());
        }
        if s.server {
            let none = obs.accepts.iter().any(|a| matches!(a, Ok(None)));
            if want.goaway && !none {
                return Err("GOAWAY was sent on the control stream (no request outstanding) but accept() never reported the end of the connection: the frame was not acted upon".to_string());
            }
            if !want.goaway && none {
                return Err("accept() returned None although the peer never sent GOAWAY".to_string());
            }
        } else {
            match (&obs.probe, want.goaway) {
                (Some(Err(ErrInfo::RemoteClosing)), true) => {}
                (Some(Ok(_)), false) => {}
                (p, g) => return Err((format!("send_request after the peer's control frames were processed: {p:?}, GOAWAY sent: {g}"))),
            }
            if obs.driver.is_some() {
                return Err((format!("client driver ended: {:?}", obs.driver)));
            }
        }
        if want.goaway {
            classes.push("goaway_effect_checked");
        }
        classes.push("no_violation");
    } else {
        // ---- violation(s): close with one of the acceptable codes, same code at the driver
        let mut allowed: Vec<u64> = Vec::new();
        for v in &want.violations {
            for x in v {
                if *x != Viol::Unspecified {
                    allowed.push(viol_code(*x));
                }
            }
        }
        // FIN/RESET that also truncates nothing here (frames are whole), so no extra collision
        if closes.is_empty() && s.server && want.goaway && obs.accepts.iter().any(|a| matches!(a, Ok(None))) {
            // the peer's GOAWAY ended the accept loop (documented pattern: stop calling accept after None); nothing
            // polls the connection any more, so a later violation cannot be observed
            classes.push("goaway_ended_accept_loop_before_violation");
            return Ok(classes);
        }
        let Some(first) = closes.first() else {
            return Err((format!("peer violated the stream rules (expected close with one of {allowed:x?}) but the connection was not closed; driver: {driver_err:?}")));
        };
        // an element the statement is silent about (CANCEL_PUSH, push stream, ...) may legitimately have ended the
        // connection first, with whatever code
        if !allowed.contains(&first.code) && !want.unspecified {
            return Err((format!("connection closed with {:#x}, expected one of {allowed:x?}", first.code)));
        }
        match &driver_err {
            Some(ConnInfo::Local { code }) if *code == first.code => {}
            other => return Err((format!("transport closed with {:#x} but the driver reported {other:?}", first.code))),
        }
        for v in &hard {
            match v[0] {
                Viol::MissingSettings => classes.push("violation_missing_settings"),
                Viol::FrameUnexpected => classes.push("violation_frame_unexpected"),
                Viol::ClosedCritical => classes.push("violation_closed_critical"),
                Viol::StreamCreation => classes.push("violation_stream_creation"),
                Viol::Unspecified => {}
            }
        }
        if hard.len() + soft as usize > 1 {
            classes.push("two_violations");
        }
    }
    Ok(classes)
}

pub fn run_scn(s: &Scn, merge: &mut Tape, sched: &mut Tape, ctx: &mut Ctx) -> Verdict {
    ctx.eval();
    fastrand::seed(5);
    let net = Net::new();
    let h3_side = if s.server { Side::Server } else { Side::Client };
    let raw = h3_side.other();
    net.set_raw(raw);
    {
        let mut g = net.lock();
        g.default_credit[h3_side.idx()] = s.send_credit;
        g.ends[h3_side.idx()].stream_credit[1] = s.uni_credit;
        g.ends[h3_side.idx()].grants_frozen = s.uni_frozen && s.uni_credit == 3;
        g.ends[h3_side.idx()].accept_newest_first = s.newest_first;
    }
    let o: Shared<Obs> = shared(Obs::default());
    let sh: Shared<Option<Arc<SharedState>>> = shared(None);
    let probe = Signal::new();
    let mut ex = Exec::new();
    let sp = ex.spawner.clone();
    if s.server {
        ex.spawn("server", server_app(net.clone(), s.grease, s.webtransport, o.clone(), sh.clone(), s.poll_api));
    } else {
        ex.spawn("client", client_app(net.clone(), s.grease, o.clone(), sh.clone(), probe.clone(), sp.clone()));
    }
    // per stream op lists, merged in an order chosen by the tape (per-stream order preserved)
    let mut first_control = true;
    let mut lists: Vec<std::collections::VecDeque<PeerOp>> = s.streams.iter().enumerate().map(|(k, st)| stream_ops(st, k, s.sig, s.server, &mut first_control, s.reset_code).into()).collect();
    let mut ops = Vec::new();
    loop {
        let live: Vec<usize> = (0..lists.len()).filter(|i| !lists[*i].is_empty()).collect();
        if live.is_empty() {
            break;
        }
        let i = live[merge.pick(live.len())];
        ops.push(lists[i].pop_front().unwrap());
    }
    // after everything settled: probe (client: try a request)
    ops.push(PeerOp::Barrier);
    ops.push(PeerOp::Signal(0));
    let mut peer = RawPeer::new(raw, ops);
    peer.signals.push(probe.clone());
    let end = ex.run(&net, &mut peer, sched, s.style, 200_000);
    let obs = o.borrow().clone();
    let closes = net.close_calls(h3_side);
    let case = || {
        json!({"scenario": scn_json(s), "observed": format!("{obs:?}"), "closes": format!("{closes:?}"), "model": format!("{:?}", model(s)), "steps": ex.steps, "pending": ex.pending_tasks()})
    };
    if end == RunEnd::StepBound {
        return Err(Failure::fault("step bound"));
    }
    if let Some((task, p)) = ex.panics().first() {
        return Err(Failure::new(format!("panic in task {task}: {p}"), case()));
    }
    if !obs.built {
        return Err(Failure::new(format!("connection setup did not complete: {:?}", obs.build_error), case()));
    }
    let driver_err: Option<ConnInfo> = if s.server { obs.accepts.iter().find_map(|a| a.as_ref().err().cloned()) } else { obs.driver.clone() };
    let shared_state = sh.borrow().clone().expect("shared state");
    let alts = model_alternatives(s);
    if alts.is_empty() {
        ctx.class("too_many_reset_alternatives_not_judged");
        return Ok(());
    }
    let mut first_err: Option<String> = None;
    let mut matched: Option<(Expect, Vec<&'static str>)> = None;
    for a in &alts {
        match judge(s, a, &obs, &closes, &driver_err, &shared_state) {
            Ok(classes) => {
                matched = Some((a.clone(), classes));
                break;
            }
            Err(m) => {
                if first_err.is_none() {
                    first_err = Some(m);
                }
            }
        }
    }
    let Some((want, classes)) = matched else {
        return Err(Failure::new(format!("{} ({} alternative outcomes considered)", first_err.unwrap_or_default(), alts.len()), case()));
    };
    for c in &classes {
        ctx.class(c);
    }
    if classes.contains(&"unspecified_only") {
        return Ok(());
    }
    let hard: Vec<&Vec<Viol>> = want.violations.iter().filter(|v| !v.contains(&Viol::Unspecified)).collect();
    // ---- classification
    let g = net.lock();
    let mut varint_split = false;
    let mut starved = false;
    for ((stream, writer), p) in g.pipes.iter() {
        if *writer == raw && stream & 2 != 0 {
            if let (Some(first), Some(b0)) = (p.chunk_sizes.first(), p.written.first()) {
                if (*first as usize) < rv::len_of_first(*b0) {
                    varint_split = true;
                }
            }
        }
        if *writer == h3_side && p.write_pendings > 0 {
            starved = true;
        }
    }
    if s.uni_credit != UNLIMITED && s.uni_credit < 4 {
        starved = true;
    }
    drop(g);
    if varint_split {
        ctx.class("type_varint_split");
    }
    if starved {
        ctx.class("credit_starved_hit");
    }
    if s.poll_api {
        ctx.class("server_driven_through_the_poll_api");
    }
    if s.uni_frozen && s.uni_credit == 3 && s.grease {
        ctx.class("grease_stream_blocked_for_ever");
    }
    let nframes: usize = s.streams.iter().map(|st| if let Kind::Control { frames, .. } = &st.kind { frames.len() } else { 0 }).sum();
    if (s.streams.len() >= 2 || nframes >= 2) && (varint_split || starved || !hard.is_empty()) {
        ctx.nontrivial(&(format!("{:?}", scn_json(s)), ex.steps));
    }
    ctx.sample(|| case());
    Ok(())
}

fn gen_control(t: &mut Tape, maxf: usize, uniform: bool) -> Kind {
    let n = t.pick(maxf + 1);
    let mut frames = Vec::new();
    let with_settings = if uniform { t.bool() } else { t.chance(5, 6) };
    if with_settings {
        frames.push(CF::Settings);
    }
    for _ in 0..n {
        let f = if uniform {
            CFS[t.pick(CFS.len())]
        } else {
            match t.pick(8) {
                0 | 1 => CF::Goaway,
                2 => CF::UnknownN,
                3 => CF::Unknown0,
                4 => CF::MaxPushId,
                _ => CFS[t.pick(CFS.len())],
            }
        };
        frames.push(f);
    }
    let end = match t.pick(if uniform { 3 } else { 6 }) {
        1 => End::Fin,
        2 => End::Reset,
        _ => End::Open,
    };
    Kind::Control { frames, end }
}

fn gen_extra_bounded(t: &mut Tape) -> Option<UniStream> {
    let kind = match t.pick(11) {
        0 => return None,
        1 => Kind::Control { frames: vec![CF::Settings], end: End::Open },
        2 => Kind::Encoder,
        3 => Kind::Decoder,
        4 => Kind::Push { id: 64 },
        5 => Kind::WtUni { session: 16384 },
        6 => Kind::Grease,
        7 => Kind::Unknown(0x53),
        8 => Kind::Early { form: 2, cut: 1, reset: true },
        9 => Kind::Stalled { what: 0, form: 2, cut: 1 },
        _ => Kind::Early { form: 1, cut: 0, reset: false },
    };
    Some(UniStream { kind, type_form: 2, end_after: End::Open })
}

fn gen_extra(t: &mut Tape) -> Option<UniStream> {
    let kind = match t.pick(10) {
        0 => return None,
        1 => Kind::Control { frames: vec![CF::Settings], end: End::Open },
        2 => Kind::Encoder,
        3 => Kind::Decoder,
        4 => Kind::Push { id: *t.choose(&[0u64, 1, 63, 64, 16384]) },
        5 => Kind::WtUni { session: *t.choose(&[0u64, 4, 60, 64, 68, 16384, 1 << 30]) },
        6 => Kind::Grease,
        7 => Kind::Unknown(*t.choose(&[0x04u64, 0x05, 0x40, 0x53, 0x55, 0xffff, (1 << 62) - 1])),
        8 => Kind::Stalled { what: t.pick(3) as u8, form: *t.choose(&[2usize, 4, 8]), cut: 1 + t.pick(7) },
        _ => Kind::Early { form: *t.choose(&[1usize, 2, 4, 8]), cut: t.pick(4), reset: t.bool() },
    };
    Some(UniStream { kind, type_form: *t.choose(&[1usize, 1, 2, 4, 8]), end_after: *t.choose(&[End::Open, End::Open, End::Fin, End::Reset]) })
}

fn gen(t: &mut Tape, bounded: bool) -> Scn {
    let server = t.bool();
    let mut streams = Vec::new();
    let has_control = if bounded { true } else { t.chance(9, 10) };
    if has_control {
        streams.push(UniStream { kind: gen_control(t, if bounded { 2 } else { 8 }, bounded), type_form: if bounded { *t.choose(&[1usize, 2]) } else { *t.choose(&[1usize, 1, 2, 4, 8]) }, end_after: End::Open });
    }
    let extra = if bounded { 1 } else { t.pick(6) };
    for _ in 0..extra {
        if let Some(s) = if bounded { gen_extra_bounded(t) } else { gen_extra(t) } {
            streams.push(s);
        }
    }
    // the control stream is not always the first stream the peer opens
    if has_control && streams.len() >= 2 && (if bounded { t.bool() } else { t.chance(1, 2) }) {
        let pos = if bounded { 1 } else { 1 + t.pick(streams.len() - 1) };
        let c = streams.remove(0);
        streams.insert(pos, c);
    }
    // QPACK streams of a well behaved peer (most of the time)
    if !bounded && t.chance(1, 2) {
        streams.push(UniStream { kind: Kind::Encoder, type_form: 1, end_after: End::Open });
        streams.push(UniStream { kind: Kind::Decoder, type_form: 1, end_after: End::Open });
    }
    // keep scenarios to at most two violating elements
    loop {
        let m = model(&Scn { server, grease: false, webtransport: false, uni_credit: UNLIMITED, uni_frozen: false, reset_code: 0x10c, newest_first: false, poll_api: false, send_credit: UNLIMITED, streams: streams.clone(), style: Style::Eager, sig: (false, false) });
        if m.violations.len() <= 2 || streams.len() <= 1 {
            break;
        }
        streams.pop();
    }
    let credit_mode = t.pick(4);
    if bounded {
        return Scn {
            server,
            grease: true,
            webtransport: false,
            uni_credit: [UNLIMITED, 3, 0, 3][credit_mode],
            uni_frozen: credit_mode == 3,
            reset_code: [0x10cu64, 0x100][credit_mode % 2],
            newest_first: credit_mode == 1,
            poll_api: server && credit_mode == 2,
            send_credit: [UNLIMITED, 0, 5, UNLIMITED][credit_mode],
            streams,
            style: if t.bool() { Style::Tiny } else { Style::Eager },
            sig: (true, false),
        };
    }
    Scn {
        server,
        grease: if bounded { true } else { t.chance(3, 4) },
        webtransport: server && t.chance(1, 3),
        uni_credit: match credit_mode {
            0 => UNLIMITED,
            1 | 3 => 3,
            _ => t.pick(3) as u64,
        },
        uni_frozen: credit_mode == 3,
        reset_code: *t.choose(&[0x10cu64, 0x100, 0, 0x104, 0x101, 0x77, (1 << 62) - 1]),
        newest_first: t.chance(1, 4),
        poll_api: server && t.chance(1, 3),
        send_credit: match credit_mode {
            0 => UNLIMITED,
            1 => 0,
            3 => *t.choose(&[UNLIMITED, 0, 5]),
            _ => *t.choose(&[0u64, 1, 5, 40]),
        },
        streams,
        style: match t.pick(3) {
            0 => Style::Eager,
            1 => Style::Tiny,
            _ => Style::Random,
        },
        sig: (t.bool(), t.bool()),
    }
}


/// A long run of permitted frames in one flight, then something that has to be acted upon: whatever bound an
/// implementation puts on the work of one poll, nothing that was received may be left lying.
fn long_run_scn(n: usize, tail: u8, style: Style, poll_api: bool) -> Scn {
    let mut frames = vec![CF::Settings];
    frames.extend(std::iter::repeat(CF::MaxPushId).take(n));
    let end = match tail {
        0 => {
            frames.push(CF::Data);
            End::Open
        }
        1 => End::Fin,
        2 => End::Reset,
        3 => {
            frames.push(CF::Settings);
            End::Open
        }
        _ => {
            frames.push(CF::H2Reserved);
            End::Open
        }
    };
    Scn { server: true, grease: false, webtransport: false, uni_credit: UNLIMITED, uni_frozen: false, reset_code: 0x10c, newest_first: false, poll_api, send_credit: UNLIMITED, streams: vec![UniStream { kind: Kind::Control { frames, end }, type_form: 1, end_after: End::Open }], style, sig: (true, false) }
}

fn long_run_family(ctx: &mut Ctx, shard: usize, nshards: usize) -> Verdict {
    let mut idx = 0usize;
    let empty: [u16; 0] = [];
    for n in [12usize, 14, 15, 16, 17, 18, 31, 32, 33, 64, 100] {
        for tail in 0..5u8 {
            for (si, style) in [Style::Eager, Style::Tiny].into_iter().enumerate() {
                for poll_api in [false, true] {
                    idx += 1;
                    if idx % nshards != shard {
                        continue;
                    }
                    let s = long_run_scn(n, tail, style, poll_api);
                    let mut merge = Tape::new(&empty);
                    let mut sched = Tape::new(&empty);
                    run_scn(&s, &mut merge, &mut sched, ctx).map_err(|mut e| {
                        e.direct = Some(json!({"long_run": {"n": n, "tail": tail, "style": si, "poll_api": poll_api}, "decoded": e.case}));
                        e
                    })?;
                    ctx.class("long_run_of_control_frames_in_one_flight");
                }
            }
        }
    }
    if shard == 0 {
        ctx.subspace("server: SETTINGS + n x MAX_PUSH_ID written in one flight (n = 12..100, around 16 / 32 / 64), then DATA / FIN / RESET / a second SETTINGS / an HTTP/2 type x 2 styles x accept() / poll API", idx as u64);
    }
    Ok(())
}

fn exhaustive(ctx: &mut Ctx, shard: usize, nshards: usize) -> Verdict {
    long_run_family(ctx, shard, nshards)?;
    let mut o = Odometer::new();
    let mut i = 0usize;
    let empty: [u16; 0] = [];
    loop {
        i += 1;
        let mine = i % nshards == shard;
        let digits = o.current_digits().to_vec();
        let r = o.step(|t| {
            let s = gen(t, true);
            if !mine {
                return Ok(());
            }
            let mut merge = Tape::new(&empty);
            let mut sched = Tape::new(&empty);
            run_scn(&s, &mut merge, &mut sched, ctx)
        });
        match r {
            None => break,
            Some(Err(mut e)) => {
                e.direct = Some(json!({"digits": digits, "decoded": e.case}));
                return Err(e);
            }
            Some(Ok(())) => {}
        }
    }
    if shard == 0 {
        ctx.subspace("bounded generator enumerated by odometer: role x control stream (SETTINGS or not + <= 2 frames over the 10-symbol alphabet) x FIN/RESET/open x type form x one extra stream kind x credit pattern x style x settings signature", o.count);
    }
    Ok(())
}

fn run_tape(tape: &[u16], ctx: &mut Ctx) -> Verdict {
    let mut t = Tape::new(tape);
    let s = gen(&mut t, false);
    let pos = t.position().min(tape.len());
    let (a, b) = tape[pos..].split_at((tape.len() - pos).min(24));
    let mut merge = Tape::new(a);
    let mut sched = Tape::new(b);
    run_scn(&s, &mut merge, &mut sched, ctx)
}

fn run_direct(d: &Value, ctx: &mut Ctx) -> Verdict {
    if let Some(l) = d.get("long_run") {
        let s = long_run_scn(l["n"].as_u64().unwrap_or(17) as usize, l["tail"].as_u64().unwrap_or(0) as u8, if l["style"].as_u64() == Some(1) { Style::Tiny } else { Style::Eager }, l["poll_api"].as_bool().unwrap_or(false));
        let empty: [u16; 0] = [];
        let mut merge = Tape::new(&empty);
        let mut sched = Tape::new(&empty);
        return run_scn(&s, &mut merge, &mut sched, ctx);
    }
    let digits: Vec<u32> = d["digits"].as_array().map(|a| a.iter().map(|x| x.as_u64().unwrap_or(0) as u32).collect()).unwrap_or_default();
    let mut t = Tape::from_digits(&digits);
    let s = gen(&mut t, true);
    let empty: [u16; 0] = [];
    let mut merge = Tape::new(&empty);
    let mut sched = Tape::new(&empty);
    run_scn(&s, &mut merge, &mut sched, ctx)
}
