//! C06 - No peer behaviour makes h3 panic or leaves a call pending forever.

use bytes::{Buf, Bytes};
use serde_json::{json, Value};

use crate::reference::frames as rf;
use crate::reference::varint as rv;
use crate::runner::{Ctx, Failure, PropDef, Verdict};
use crate::simnet::app::*;
use crate::simnet::exec::{Exec, RunEnd, Spawner, Style};
use crate::simnet::peer::{self, PeerOp, RawPeer};
use crate::simnet::{Net, Side, UNLIMITED};
use crate::tape::{prf_cells, Tape};

pub static PROP: PropDef = PropDef {
    id: "C06",
    rule: "case = role x adversarial peer script: a well-formed template (request(s) with body and trailers, concurrent requests, control traffic with GOAWAY, QPACK / push / unknown / grease uni streams) with \
           (a) one fault {FIN, RESET(code), STOP_SENDING(code), connection close(code), idle timeout} injected at a step index (every index in the exhaustive tier), (b) byte mutations (flip / insert / delete / truncate / varint-length tweak) at generated positions, \
           (c) arbitrary bytes on request, control, QPACK, push and unknown streams; x delivery schedule from the tape x unidirectional-stream credit for the h3 end (unlimited, or exactly three for ever so that its optional grease stream never opens); every script ends with one of two epilogues: the peer closes the connection, or it finishes / resets every request-stream direction it writes on. \
           oracle (validity predicate): no poll panics (h3 is built with overflow checks and debug assertions) and at quiescence no h3 future is left pending: after a close every task has completed; after the streams-only epilogue every task except the connection-level waits (accept(), poll_close) has - and those too once the peer has finished its control stream. \
           non-trivial = the fault or mutation lands before the scenario's last byte and at least one frame had been decoded; distinct by (script hash, schedule)",
    assumptions: &["applications follow the documented call patterns (read to the end, then trailers; respond; finish); quiescence of the closed system decides 'forever'", "send credit of the h3 end: unlimited, zero or a few bytes at the start of every stream, further credit by scheduler moves (always granted eventually)"],
    tape_len: 300,
    random_cases: |t| t.pick(2_000_000, 30_000_000),
    run_tape,
    exhaustive: Some(exhaustive),
    run_direct: Some(run_direct),
    min_classes: &[("fault_injected", 20000), ("bytes_mutated", 20000), ("arbitrary_bytes", 10000), ("epilogue_close", 30000), ("epilogue_streams", 30000), ("role_client", 30000), ("role_server", 30000), ("h3_closed_with_error", 10000)],
    extra: None,
};

async fn server_app(net: Net, sp: Spawner) {
    let Ok(mut conn): Result<ServerConn, _> = h3::server::builder().build(net.conn(Side::Server)).await else { return };
    loop {
        match conn.accept().await {
            Ok(Some(r)) => {
                sp.spawn("handler", async move {
                    let Ok((_req, mut s)) = r.resolve_request().await else { return };
                    let mut n = 0usize;
                    loop {
                        match s.recv_data().await {
                            Ok(Some(b)) => n += b.remaining(),
                            Ok(None) => break,
                            Err(_) => return,
                        }
                    }
                    if s.recv_trailers().await.is_err() {
                        return;
                    }
                    if s.send_response(http::Response::builder().status(200).body(()).unwrap()).await.is_err() {
                        return;
                    }
                    if s.send_data(Bytes::from(vec![7u8; n.min(100) + 1])).await.is_err() {
                        return;
                    }
                    let _ = s.finish().await;
                });
            }
            Ok(None) => break,
            Err(_) => break,
        }
    }
}

async fn client_app(net: Net, nreq: usize, sp: Spawner) {
    let Ok((conn, sr)): Result<(ClientConn, SendReq), _> = h3::client::builder().build(net.conn(Side::Client)).await else { return };
    sp.spawn("conn-driver", async move {
        let mut conn = conn;
        let _ = std::future::poll_fn(|cx| conn.poll_close(cx)).await;
    });
    let mut sr = sr;
    for _ in 0..nreq {
        let req = http::Request::builder().method("POST").uri("https://example.com/x").body(()).unwrap();
        let Ok(mut s) = sr.send_request(req).await else { continue };
        sp.spawn("request", async move {
            if s.send_data(Bytes::from_static(b"request body")).await.is_err() {
                // keep reading: the documented pattern reads the response in any case
            }
            let _ = s.finish().await;
            if s.recv_response().await.is_err() {
                return;
            }
            loop {
                match s.recv_data().await {
                    Ok(Some(_)) => {}
                    Ok(None) => break,
                    Err(_) => return,
                }
            }
            let _ = s.recv_trailers().await;
        });
    }
    // the application keeps its SendRequest until the connection ends (conn-level wait)
    sp.spawn("conn-holder", async move {
        let _sr = sr;
        std::future::pending::<()>().await;
    });
}

#[derive(Debug, Clone)]
pub struct Script {
    pub server: bool,
    pub ops: Vec<PeerOp>,
    pub close_epilogue: Option<u64>,
    pub timeout_epilogue: bool,
    pub style: Style,
    pub nreq: usize,
    pub label: &'static str,
    /// the peer grants exactly three unidirectional streams and never more (RFC 9114 6.2 minimum): h3's optional grease
    /// stream can never be opened
    pub uni_frozen: bool,
    /// send credit every stream of the h3 end starts with (the peer's flow control; more is granted by scheduler moves)
    pub credit: u64,
}

/// well-formed templates; keys: 0 = control, 1.. = request streams, 10.. other uni streams
fn template(server: bool, which: usize) -> (Vec<PeerOp>, usize) {
    let mut ops = vec![PeerOp::OpenUni(0), PeerOp::Write(0, peer::control_preamble(&[(0x6, 1 << 20), (0x21 + 0x1f * 9, 1)]))];
    let msg_head = || if server { peer::post_request_headers() } else { peer::simple_response_headers("200") };
    let mut nreq = 1;
    let open = |ops: &mut Vec<PeerOp>, k: usize| {
        if server {
            ops.push(PeerOp::OpenBidi(k));
        } else {
            ops.push(PeerOp::Barrier);
            ops.push(PeerOp::Adopt(k, 4 * (k as u64 - 1)));
        }
    };
    match which % 5 {
        0 => {
            open(&mut ops, 1);
            ops.extend([PeerOp::Write(1, msg_head()), PeerOp::Write(1, peer::data_frame(b"hello ")), PeerOp::Write(1, rf::frame(0x21, b"grease")), PeerOp::Write(1, peer::data_frame(b"world")), PeerOp::Write(1, peer::trailers_frame()), PeerOp::Fin(1)]);
        }
        1 => {
            nreq = 2;
            if server {
                ops.extend([PeerOp::OpenBidi(1), PeerOp::OpenBidi(2)]);
            } else {
                ops.extend([PeerOp::Barrier, PeerOp::Adopt(1, 0), PeerOp::Adopt(2, 4)]);
            }
            ops.extend([PeerOp::Write(1, msg_head()), PeerOp::Write(2, msg_head()), PeerOp::Write(2, peer::data_frame(&[1; 300])), PeerOp::Write(1, peer::data_frame(&[2; 20])), PeerOp::Fin(2), PeerOp::Write(1, peer::data_frame(&[])), PeerOp::Fin(1)]);
        }
        2 => {
            ops.push(PeerOp::Write(0, rf::frame(0x21 + 0x1f * 2, b"xx")));
            open(&mut ops, 1);
            ops.extend([PeerOp::Write(1, msg_head()), PeerOp::Write(0, peer::goaway_frame(if server { 0 } else { 8 })), PeerOp::Write(1, peer::data_frame(b"abc")), PeerOp::Fin(1), PeerOp::Write(0, rf::varint_frame(if server { rf::T_MAX_PUSH_ID } else { rf::T_GOAWAY }, 4))]);
        }
        3 => {
            ops.extend([PeerOp::OpenUni(10), PeerOp::Write(10, vec![0x02]), PeerOp::Write(10, vec![0x3f, 0xe1, 0x1f]), PeerOp::OpenUni(11), PeerOp::Write(11, vec![0x03, 0x80, 0x81]), PeerOp::OpenUni(12), PeerOp::Write(12, vec![0x21, 1, 2, 3]), PeerOp::Fin(12), PeerOp::OpenUni(13), PeerOp::Write(13, vec![0x01, 0x00, 0x01, 0x02])]);
            open(&mut ops, 1);
            ops.extend([PeerOp::Write(1, msg_head()), PeerOp::Fin(1)]);
        }
        _ => {
            // webtransport-ish and odd stream types
            ops.extend([PeerOp::OpenUni(10), PeerOp::Write(10, vec![0x40, 0x54, 0x40, 0x04, 9, 9]), PeerOp::OpenUni(11), PeerOp::Write(11, rv::encode_len(0x1f * 77 + 0x21, 8).unwrap())]);
            open(&mut ops, 1);
            let mut wt = vec![0x40, 0x41, 0x00];
            wt.extend_from_slice(b"stream payload");
            ops.extend([PeerOp::Write(1, if server { wt } else { msg_head() }), PeerOp::Write(1, peer::data_frame(b"tail"))]);
        }
    }
    (ops, nreq)
}

/// A HEADERS frame whose (valid QPACK) field section has `n` field lines on top of the message head: `shape` 0 = one-byte
/// indexed static lines (`accept: */*`), 1 = the head's own pseudo-header line repeated, 2 = literal lines with `n`
/// distinct names. Sizes around the limits of the containers an implementation may collect fields in are the point.
fn big_section(server: bool, trailers: bool, n: usize, shape: u8) -> Vec<u8> {
    use crate::reference::qpack as rq;
    let mut block = Vec::new();
    rq::put_prefix(&mut block, 0, 0);
    if !trailers {
        let head: Vec<rq::Field> = if server {
            vec![(b":method".to_vec(), b"POST".to_vec()), (b":scheme".to_vec(), b"https".to_vec()), (b":authority".to_vec(), b"example.com".to_vec()), (b":path".to_vec(), b"/".to_vec())]
        } else {
            vec![(b":status".to_vec(), b"200".to_vec())]
        };
        for f in &head {
            rq::put_field(&mut block, f, rq::Spelling::Indexed { which: 0, redundant: 0 });
        }
    }
    match shape {
        0 => block.extend(std::iter::repeat(0xc0 | 29).take(n)),
        1 => block.extend(std::iter::repeat(if trailers { 0xc0 | 29 } else if server { 0xc0 | 20 } else { 0xc0 | 25 }).take(n)),
        _ => {
            for i in 0..n {
                let name = format!("x{i:x}");
                rq::put_field(&mut block, &(name.into_bytes(), b"1".to_vec()), rq::Spelling::Literal { never_index: false, huff_name: false, huff_value: false, redundant: 0 });
            }
        }
    }
    rf::frame(rf::T_HEADERS, &block)
}

/// (n, shape) pairs of the large-section family
const BIG: [(usize, u8); 9] = [(1000, 0), (24576, 0), (24577, 0), (32768, 0), (32769, 1), (24577, 1), (24577, 2), (32768, 2), (32769, 2)];

fn big_script(server: bool, trailers: bool, n: usize, shape: u8) -> (Vec<PeerOp>, usize) {
    let mut ops = vec![PeerOp::OpenUni(0), PeerOp::Write(0, peer::control_preamble(&[]))];
    if server {
        ops.push(PeerOp::OpenBidi(1));
    } else {
        ops.extend([PeerOp::Barrier, PeerOp::Adopt(1, 0)]);
    }
    if trailers {
        ops.push(PeerOp::Write(1, if server { peer::post_request_headers() } else { peer::simple_response_headers("200") }));
        ops.push(PeerOp::Write(1, peer::data_frame(b"body")));
    }
    ops.push(PeerOp::Write(1, big_section(server, trailers, n, shape)));
    ops.push(PeerOp::Fin(1));
    (ops, 1)
}

fn stream_keys(ops: &[PeerOp]) -> Vec<usize> {
    let mut k = Vec::new();
    for o in ops {
        match o {
            PeerOp::OpenUni(x) | PeerOp::OpenBidi(x) | PeerOp::Adopt(x, _) => {
                if !k.contains(x) {
                    k.push(*x)
                }
            }
            _ => {}
        }
    }
    k
}

fn inject(ops: &mut Vec<PeerOp>, at: usize, fault: usize, code: u64) -> bool {
    let at = at.min(ops.len());
    let keys = stream_keys(&ops[..at]);
    let key = |i: usize| keys.get(i % keys.len().max(1)).copied();
    let op = match fault % 5 {
        0 => key(code as usize).map(PeerOp::Fin),
        1 => key(code as usize).map(|k| PeerOp::Reset(k, code)),
        2 => key(code as usize).map(|k| PeerOp::Stop(k, code)),
        3 => Some(PeerOp::Close(code)),
        _ => Some(PeerOp::Timeout),
    };
    match op {
        Some(o) => {
            ops.insert(at, o);
            true
        }
        None => false,
    }
}

fn mutate_bytes(t: &mut Tape, b: &mut Vec<u8>) {
    if b.is_empty() {
        b.push(t.u8());
        return;
    }
    let i = t.pick(b.len());
    match t.pick(7) {
        0 => b[i] ^= 1 << t.pick(8),
        1 => b.insert(i, t.u8()),
        2 => {
            b.remove(i);
        }
        3 => b.truncate(i),
        4 => b[i] = *t.choose(&[0x00u8, 0xff, 0x3f, 0x40, 0x7f, 0x80, 0xc0]),
        5 => {
            // lengthen: turn a 1-byte varint into a huge one
            b[i] |= 0xc0;
        }
        _ => {
            let n = t.int(1, 12) as usize;
            let extra = t.bulk(n);
            for (k, x) in extra.into_iter().enumerate() {
                b.insert((i + k).min(b.len()), x);
            }
        }
    }
}

fn ops_json(ops: &[PeerOp]) -> Value {
    json!(ops
        .iter()
        .map(|o| match o {
            PeerOp::Write(k, b) => format!("Write({k}, {})", crate::runner::hex(b)),
            other => format!("{other:?}"),
        })
        .collect::<Vec<_>>())
}

pub fn run_script(s: &Script, sched: &[u16], ctx: &mut Ctx) -> Verdict {
    ctx.eval();
    fastrand::seed(29);
    let net = Net::new();
    let side = if s.server { Side::Server } else { Side::Client };
    let raw = side.other();
    net.set_raw(raw);
    net.lock().default_credit[side.idx()] = s.credit;
    if s.uni_frozen {
        let mut g = net.lock();
        g.ends[side.idx()].stream_credit[1] = 3;
        g.ends[side.idx()].grants_frozen = true;
    }
    let mut ex = Exec::new();
    let sp = ex.spawner.clone();
    if s.server {
        ex.spawn("conn-accept", server_app(net.clone(), sp.clone()));
    } else {
        ex.spawn("conn-client-main", client_app(net.clone(), s.nreq, sp.clone()));
    }
    let mut ops = s.ops.clone();
    // epilogue
    ops.push(PeerOp::Barrier);
    if s.timeout_epilogue {
        ops.push(PeerOp::Timeout);
    } else if let Some(c) = s.close_epilogue {
        ops.push(PeerOp::Close(c));
    } else {
        // finish every request-stream direction the peer writes on. A stream that was reset stays reset, FIN on a finished one is a no-op
        for k in stream_keys(&s.ops) {
            if (1..10).contains(&k) {
                ops.push(PeerOp::Fin(k));
            }
        }
        if !s.server {
            // also answer (with nothing but FIN) requests the script never touched
            ops.push(PeerOp::Hook(1));
        }
    }
    let mut peer = FinishAll { peer: RawPeer::new(raw, ops), raw, done: false };
    let mut t = Tape::new(sched);
    let end = ex.run(&net, &mut peer, &mut t, s.style, 300_000);
    let closes = net.close_calls(side);
    let case = || json!({"role": if s.server { "server" } else { "client" }, "label": s.label, "ops": ops_json(&s.ops), "close_epilogue": s.close_epilogue, "timeout_epilogue": s.timeout_epilogue, "style": format!("{:?}", s.style), "nreq": s.nreq, "uni_frozen": s.uni_frozen, "credit": if s.credit == UNLIMITED { -1 } else { s.credit as i64 }, "sched": sched, "closes": format!("{closes:?}")});
    if end == RunEnd::StepBound {
        return Err(Failure::fault("step bound"));
    }
    if let Some((task, p)) = ex.panics().first() {
        return Err(Failure::direct(format!("panic in task {task}: {p}"), case()));
    }
    // the peer finished its control stream (key 0, first varint = stream type 0, not reset): the connection-level calls wait
    // on that stream too, so they must have completed (H3_CLOSED_CRITICAL_STREAM or an earlier error)
    let control_finished = {
        let g = net.lock();
        peer.peer.stream(0).and_then(|id| g.pipes.get(&(id, raw))).map(|p| p.fin_issued && p.reset.is_none() && matches!(rv::decode(&p.written), rv::Dec::Ok(0, _))).unwrap_or(false)
    };
    if control_finished {
        ctx.class("peer_finished_its_control_stream");
    }
    let conn_over = s.close_epilogue.is_some() || s.timeout_epilogue || !closes.is_empty() || net.lock().ends[side.idx()].dead() || control_finished;
    let pending: Vec<String> = ex.pending_tasks().into_iter().filter(|n| n != "conn-holder" && (conn_over || !n.starts_with("conn-"))).collect();
    if !pending.is_empty() {
        // lost wake-up or genuinely waiting? one spurious poll of everything tells
        ex.spurious_poll_all();
        let still: Vec<String> = ex.pending_tasks().into_iter().filter(|n| n != "conn-holder" && (conn_over || !n.starts_with("conn-"))).collect();
        let why = if still.is_empty() { "a spurious poll completes them: lost wake-up" } else { "still pending after a spurious poll: the call waits for something that will never come" };
        return Err(Failure::direct(format!("tasks left pending forever after the peer {}: {pending:?} ({why})", if control_finished && closes.is_empty() { "finished its control stream" } else if conn_over { "closed the connection" } else { "finished or reset every request stream" }), case()));
    }
    ctx.class(if s.server { "role_server" } else { "role_client" });
    ctx.class(if s.close_epilogue.is_some() || s.timeout_epilogue { "epilogue_close" } else { "epilogue_streams" });
    ctx.class(s.label);
    if s.uni_frozen {
        ctx.class("grease_stream_blocked_for_ever");
    }
    if s.credit != UNLIMITED {
        ctx.class("limited_send_credit");
    }
    if !closes.is_empty() && closes[0].code != code::NO_ERROR {
        ctx.class("h3_closed_with_error");
    }
    if s.label != "template" {
        ctx.nontrivial(&(format!("{:?}", ops_json(&s.ops)), s.close_epilogue, sched.to_vec()));
    }
    ctx.sample(|| case());
    Ok(())
}

/// wraps the raw peer: Hook(1) finishes every response direction of streams the client opened
struct FinishAll {
    peer: RawPeer,
    raw: Side,
    done: bool,
}
impl crate::simnet::exec::Actor for FinishAll {
    fn ready(&mut self, quiet: bool) -> bool {
        self.peer.ready(quiet)
    }
    fn step(&mut self, net: &Net, sp: &Spawner) {
        self.peer.step(net, sp);
        if !self.done && self.peer.hooks_run.contains(&1) {
            self.done = true;
            let streams: Vec<u64> = net.lock().pipes.keys().filter(|(s, w)| *w == self.raw && s & 3 == 0).map(|(s, _)| *s).collect();
            for s in streams {
                net.raw_fin(self.raw, s);
            }
        }
    }
}

fn exhaustive(ctx: &mut Ctx, shard: usize, nshards: usize) -> Verdict {
    let mut idx = 0usize;
    for server in [true, false] {
        for which in 0..5 {
            let (ops, nreq) = template(server, which);
            for epi in [None, Some(0x100u64), Some(0x101)] {
                // the untouched template
                idx += 1;
                if idx % nshards == shard {
                    for style in [Style::Eager, Style::Tiny] {
                        for uni_frozen in [false, true] {
                            run_script(&Script { server, ops: ops.clone(), close_epilogue: epi, timeout_epilogue: false, style, nreq, label: "template", uni_frozen, credit: if uni_frozen { 1 } else { UNLIMITED } }, &[], ctx)?;
                        }
                    }
                }
                // one fault at every step index
                for at in 0..=ops.len() {
                    for fault in 0..5 {
                        for code in [0u64, 1, 0x100, 0x10c] {
                            idx += 1;
                            if idx % nshards != shard {
                                continue;
                            }
                            let mut o = ops.clone();
                            if !inject(&mut o, at, fault, code) {
                                continue;
                            }
                            let cells = prf_cells(idx as u64, 80);
                            for (style, sch) in [(Style::Eager, &[][..]), (Style::Random, &cells[..])] {
                                for uni_frozen in [false, true] {
                                    run_script(&Script { server, ops: o.clone(), close_epilogue: epi, timeout_epilogue: false, style, nreq, label: "fault_injected", uni_frozen, credit: [UNLIMITED, 0, 1, 2, 6][(at + fault) % 5] }, sch, ctx)?;
                                }
                            }
                        }
                    }
                }
                // every truncation of every write
                for (i, op) in ops.iter().enumerate() {
                    if let PeerOp::Write(k, b) = op {
                        for cut in 0..b.len() {
                            idx += 1;
                            if idx % nshards != shard {
                                continue;
                            }
                            let mut o = ops.clone();
                            o[i] = PeerOp::Write(*k, b[..cut].to_vec());
                            // what followed on that stream would be misaligned garbage: keep it (that is the point)
                            run_script(&Script { server, ops: o, close_epilogue: epi, timeout_epilogue: false, style: if cut % 2 == 0 { Style::Eager } else { Style::Tiny }, nreq, label: "bytes_mutated", uni_frozen: cut % 3 == 1, credit: [UNLIMITED, 1, 3][cut % 3] }, &[], ctx)?;
                        }
                    }
                }
            }
        }
    }
    // large field sections
    for server in [true, false] {
        for trailers in [false, true] {
            for (n, shape) in BIG {
                idx += 1;
                if idx % nshards != shard {
                    continue;
                }
                let (ops, nreq) = big_script(server, trailers, n, shape);
                run_script(&Script { server, ops, close_epilogue: if n % 2 == 0 { None } else { Some(0x100) }, timeout_epilogue: false, style: Style::Eager, nreq, label: "large_field_section", uni_frozen: false, credit: UNLIMITED }, &[], ctx)?;
            }
        }
    }
    if shard == 0 {
        ctx.subspace("5 templates x 2 roles x 3 epilogues x (fault kind x code x every step index | every truncation of every write) x uni-stream credit unlimited / frozen at three", idx as u64);
    }
    Ok(())
}

fn run_tape(tape: &[u16], ctx: &mut Ctx) -> Verdict {
    let mut t = Tape::new(tape);
    let server = t.bool();
    let (mut ops, nreq) = template(server, t.pick(5));
    let mode = t.pick(4);
    let label = match mode {
        0 => {
            let at = t.pick(ops.len() + 1);
            let fault = t.pick(5);
            let code = *t.choose(&[0u64, 1, 2, 3, 0x100, 0x10c, 0x33, (1 << 62) - 1]);
            inject(&mut ops, at, fault, code);
            if t.chance(1, 3) {
                let at = t.pick(ops.len() + 1);
                inject(&mut ops, at, t.pick(5), t.pick(4) as u64);
            }
            "fault_injected"
        }
        1 | 2 => {
            let n = t.int(1, 3);
            for _ in 0..n {
                let writes: Vec<usize> = ops.iter().enumerate().filter(|(_, o)| matches!(o, PeerOp::Write(..))).map(|(i, _)| i).collect();
                let i = writes[t.pick(writes.len())];
                if let PeerOp::Write(_, b) = &mut ops[i] {
                    mutate_bytes(&mut t, b);
                }
            }
            if mode == 2 {
                let at = t.pick(ops.len() + 1);
                inject(&mut ops, at, t.pick(5), t.pick(300) as u64);
            }
            "bytes_mutated"
        }
        _ => {
            // arbitrary bytes on streams of every kind
            let n = t.int(1, 5);
            for j in 0..n {
                let key = 20 + j as usize;
                match t.pick(3) {
                    0 => {
                        ops.push(PeerOp::OpenUni(key));
                        let mut b = match t.pick(6) {
                            0 => vec![0x00],
                            1 => vec![0x01],
                            2 => vec![0x02],
                            3 => vec![0x03],
                            4 => vec![0x40, 0x54],
                            _ => vec![],
                        };
                        b.extend(t.bytes(24));
                        ops.push(PeerOp::Write(key, b));
                    }
                    1 if server => {
                        ops.push(PeerOp::OpenBidi(5 + j as usize));
                        let b = t.bytes(32);
                        ops.push(PeerOp::Write(5 + j as usize, b));
                    }
                    _ => {
                        let keys = stream_keys(&ops);
                        let k = keys[t.pick(keys.len())];
                        let b = t.bytes(24);
                        ops.push(PeerOp::Write(k, b));
                    }
                }
                if t.chance(1, 3) {
                    let keys = stream_keys(&ops);
                    let k = keys[t.pick(keys.len())];
                    ops.push(if t.bool() { PeerOp::Fin(k) } else { PeerOp::Reset(k, t.pick(1000) as u64) });
                }
            }
            "arbitrary_bytes"
        }
    };
    let epi = t.pick(4);
    let s = Script {
        server,
        ops,
        close_epilogue: match epi {
            0 => Some(0x100),
            1 => Some(*t.choose(&[0u64, 0x101, 0x10c, (1 << 62) - 1])),
            _ => None,
        },
        timeout_epilogue: epi == 2 && t.chance(1, 4),
        style: [Style::Eager, Style::Tiny, Style::Random][t.pick(3)],
        nreq,
        label,
        uni_frozen: t.chance(1, 4),
        credit: match t.pick(6) {
            0 | 1 | 2 => UNLIMITED,
            3 => 0,
            4 => t.int(1, 8),
            _ => t.int(1, 300),
        },
    };
    let sched: Vec<u16> = tape[t.position().min(tape.len())..].to_vec();
    run_script(&s, &sched, ctx)
}

fn parse_op(s: &str) -> Option<PeerOp> {
    let inner = |p: &str| s.strip_prefix(p).and_then(|r| r.strip_suffix(')'));
    let nums = |r: &str| -> Vec<u64> { r.split(',').filter_map(|x| x.trim().parse().ok()).collect() };
    if let Some(r) = inner("Write(") {
        let (k, hex) = r.split_once(',')?;
        return Some(PeerOp::Write(k.trim().parse().ok()?, crate::runner::unhex(hex)));
    }
    if let Some(r) = inner("OpenUni(") {
        return Some(PeerOp::OpenUni(r.parse().ok()?));
    }
    if let Some(r) = inner("OpenBidi(") {
        return Some(PeerOp::OpenBidi(r.parse().ok()?));
    }
    if let Some(r) = inner("Adopt(") {
        let n = nums(r);
        return Some(PeerOp::Adopt(*n.first()? as usize, *n.get(1)?));
    }
    if let Some(r) = inner("Fin(") {
        return Some(PeerOp::Fin(r.parse().ok()?));
    }
    if let Some(r) = inner("Reset(") {
        let n = nums(r);
        return Some(PeerOp::Reset(*n.first()? as usize, *n.get(1)?));
    }
    if let Some(r) = inner("Stop(") {
        let n = nums(r);
        return Some(PeerOp::Stop(*n.first()? as usize, *n.get(1)?));
    }
    if let Some(r) = inner("Close(") {
        return Some(PeerOp::Close(r.parse().ok()?));
    }
    match s {
        "Timeout" => Some(PeerOp::Timeout),
        "Barrier" => Some(PeerOp::Barrier),
        _ => None,
    }
}

fn run_direct(d: &Value, ctx: &mut Ctx) -> Verdict {
    let ops: Vec<PeerOp> = d["ops"].as_array().map(|a| a.iter().filter_map(|x| x.as_str().and_then(parse_op)).collect()).unwrap_or_default();
    let style = match d["style"].as_str() {
        Some("Eager") => Style::Eager,
        Some("Tiny") => Style::Tiny,
        _ => Style::Random,
    };
    let sched: Vec<u16> = d["sched"].as_array().map(|a| a.iter().map(|x| x.as_u64().unwrap_or(0) as u16).collect()).unwrap_or_default();
    let s = Script { server: d["role"].as_str() == Some("server"), ops, close_epilogue: d["close_epilogue"].as_u64(), timeout_epilogue: d["timeout_epilogue"].as_bool().unwrap_or(false), style, nreq: d["nreq"].as_u64().unwrap_or(1) as usize, label: "replay", uni_frozen: d["uni_frozen"].as_bool().unwrap_or(false), credit: d["credit"].as_i64().map(|c| if c < 0 { UNLIMITED } else { c as u64 }).unwrap_or(UNLIMITED) };
    run_script(&s, &sched, ctx)
}
