//! C18 - HTTP Datagrams carry their stream ID and payload unchanged.

use std::convert::TryFrom;

use bytes::{Buf, Bytes};
use h3::error::{Code, LocalError};
use h3::quic::StreamId;
use h3_datagram::datagram::Datagram;
use serde_json::{json, Value};

use crate::reference::varint as rv;
use crate::runner::{catch, hex, unhex, Ctx, Failure, PropDef, Tier, Verdict};
use crate::tape::Tape;

pub static PROP: PropDef = PropDef {
    id: "C18",
    rule: "API level (h3-datagram DatagramReader / DatagramSender on an h3 client or server connection over the simulated transport): QUIC datagrams sent by a raw peer are read in order as (stream id, payload) until the first invalid one (every string of <= 1 byte, every cut of every boundary id), which is the connection error H3_DATAGRAM_ERROR with that close code; send_datagram puts exactly varint(S/4) || payload on the wire. Codec level: every decode is repeated from a buffer of several chunks and must give the same stream id, payload or refusal; encode cases: (quarter id k, payload, consumption pattern of the encoded Buf) -> bytes must equal varint(k) || payload and decode back to (4k, payload); \
           decode cases: byte string -> accepted iff the varint is complete and 4*q <= 2^62-1, else H3_DATAGRAM_ERROR. exhaustive: all k < 2^16 with three consumption patterns, \
           every varint form boundary, all strings of <= 2 bytes (3 in thorough); random k, payloads 0..1500 and strings 0..9(+payload) from the tape. \
           non-trivial = quarter id needing >= 2 bytes, or a consumption pattern that splits the header, or a rejected input; distinct by (k, payload hash, pattern) / input bytes",
    assumptions: &[
        "reference varint (RFC 9000 section 16)",
        "the error code of a refused datagram is read through LocalError::from(InternalConnectionError), the conversion h3 itself uses",
    ],
    tape_len: 64,
    random_cases: |t| t.pick(1_200_000, 50_000_000),
    run_tape,
    exhaustive: Some(exhaustive),
    run_direct: Some(run_direct),
    min_classes: &[("header_split", 1000), ("multi_byte_id", 10000), ("decode_rejected", 100), ("decode_accepted", 1000), ("payload_of_several_chunks", 10000), ("api_refused_datagram", 200), ("api_valid_datagrams_read", 200), ("api_send_checked", 200)],
    extra: None,
};

/// how the encoded buffer is drained
#[derive(Clone, Debug)]
enum Consume {
    CopyAll,
    /// repeatedly take min(step, chunk.len()) bytes from chunk() then advance
    Steps(Vec<usize>),
    /// advance across chunk borders: read chunk(), advance by more than the chunk when possible (header+payload in one advance)
    Jump(usize),
    Vectored,
    /// raw advance(cnt) calls (each may cross the header/payload boundary, as Buf::advance allows), then the rest
    /// is drained chunk by chunk and must equal the wire bytes from that offset on
    Skips(Vec<usize>),
}

fn drain<B: Buf>(mut b: B, how: &Consume) -> Result<(Vec<u8>, bool), String> {
    let total = b.remaining();
    let mut out = Vec::with_capacity(total);
    let mut split_header = false;
    match how {
        Consume::CopyAll => {
            let all = b.copy_to_bytes(total);
            out.extend_from_slice(&all);
        }
        Consume::Steps(steps) => {
            let mut i = 0;
            let mut guard = 0;
            while b.has_remaining() {
                guard += 1;
                if guard > 100_000 {
                    return Err("drain does not terminate".into());
                }
                let step = steps.get(i % steps.len().max(1)).copied().unwrap_or(1).max(1);
                i += 1;
                let c = b.chunk();
                if c.is_empty() {
                    return Err(format!("chunk() empty with {} bytes remaining", b.remaining()));
                }
                let n = step.min(c.len());
                out.extend_from_slice(&c[..n]);
                b.advance(n);
            }
        }
        Consume::Jump(first) => {
            // first consume `first` bytes by peeking chunk by chunk, but advance in ONE call
            let mut peeked = Vec::new();
            {
                // copy what a vectored writer would see: walk with a clone-free approach: take chunk, then
                // we cannot look past it without advancing, so advance(chunk) is the only portable way.
                // Instead emulate a transport that wrote `first` bytes out of chunk() and then a second
                // write of the rest: advance(first) may cross the header/payload border only if
                // first <= chunk.len(); so clamp.
                let c = b.chunk();
                let n = (*first).min(c.len()).max(1.min(c.len()));
                peeked.extend_from_slice(&c[..n]);
                b.advance(n);
            }
            out.extend_from_slice(&peeked);
            while b.has_remaining() {
                let c = b.chunk();
                if c.is_empty() {
                    return Err(format!("chunk() empty with {} bytes remaining", b.remaining()));
                }
                let n = c.len();
                out.extend_from_slice(c);
                b.advance(n);
            }
        }
        Consume::Skips(skips) => {
            let mut skipped = 0usize;
            for k in skips {
                let k = (*k).min(b.remaining());
                b.advance(k);
                skipped += k;
                if b.remaining() != total - skipped {
                    return Err(format!("after advancing {skipped} bytes remaining() is {} instead of {}", b.remaining(), total - skipped));
                }
            }
            // mark the skipped prefix so that the caller compares only the tail
            out.resize(skipped, 0);
            while b.has_remaining() {
                let c = b.chunk();
                if c.is_empty() {
                    return Err(format!("chunk() empty with {} bytes remaining", b.remaining()));
                }
                let n = c.len();
                out.extend_from_slice(c);
                b.advance(n);
            }
        }
        Consume::Vectored => {
            let mut guard = 0;
            while b.has_remaining() {
                guard += 1;
                if guard > 100_000 {
                    return Err("drain does not terminate".into());
                }
                let mut slices = [std::io::IoSlice::new(&[]); 4];
                let n = b.chunks_vectored(&mut slices);
                if n == 0 {
                    return Err("chunks_vectored returned nothing with bytes remaining".into());
                }
                let mut adv = 0;
                for s in &slices[..n] {
                    out.extend_from_slice(s);
                    adv += s.len();
                }
                if adv == 0 {
                    return Err("chunks_vectored returned empty slices".into());
                }
                b.advance(adv);
            }
        }
    }
    if let Consume::Steps(_) = how {
        split_header = true;
    }
    if b.remaining() != 0 {
        return Err("remaining() != 0 after drain".into());
    }
    Ok((out, split_header))
}

fn check_encode(k: u64, payload: &[u8], how: &Consume, ctx: &mut Ctx) -> Verdict {
    ctx.eval();
    let case = || json!({"kind": "encode", "k": k, "payload": hex(payload), "consume": format!("{how:?}")});
    let sid_raw = k * 4;
    let sid = StreamId::try_from(sid_raw).map_err(|_| Failure::fault("generator produced an invalid stream id"))?;
    let mut want = rv::encode(k).unwrap();
    let hdr_len = want.len();
    want.extend_from_slice(payload);
    let dg = Datagram::new(sid, Bytes::copy_from_slice(payload));
    if dg.stream_id() != sid || dg.payload().as_ref() != payload {
        return Err(Failure::direct("Datagram::new does not report what it was given", case()));
    }
    let enc = dg.encode();
    if enc.remaining() != want.len() {
        return Err(Failure::direct(format!("encoded length {} expected {}", enc.remaining(), want.len()), case()));
    }
    let (mut got, _) = catch(|| drain(enc, how)).map_err(|p| Failure::direct(format!("panic while consuming the encoded datagram: {p}"), case()))?.map_err(|e| Failure::direct(e, case()))?;
    if let Consume::Skips(sk) = how {
        // the skipped prefix was not read: take it from the expectation
        let n: usize = sk.iter().sum::<usize>().min(want.len()).min(got.len());
        got[..n].copy_from_slice(&want[..n]);
    }
    if got != want {
        let n = got.len().min(24);
        return Err(Failure::direct(
            format!("encoded bytes {}.. expected {}.. (quarter stream id {k})", hex(&got[..n]), hex(&want[..n.min(want.len())])),
            case(),
        ));
    }
    // the same payload handed over as a buffer of several chunks (a context id chained in front of a packet, say): the wire
    // image is the same, whichever way the encoded datagram is consumed - in particular through copy_to_bytes, which is
    // how the quinn adapter flattens it
    for cuts in crate::tape::cut_sets(payload) {
        ctx.eval();
        let case = || json!({"kind": "encode", "k": k, "payload": hex(payload), "consume": format!("{how:?}"), "payload_cuts": cuts});
        let enc = Datagram::new(sid, crate::tape::Segs::new(payload, &cuts)).encode();
        if enc.remaining() != want.len() {
            return Err(Failure::direct(format!("chunked payload: encoded length {} expected {}", enc.remaining(), want.len()), case()));
        }
        let total = want.len();
        let first = (hdr_len + cuts.first().copied().unwrap_or(0)).min(total) / 2 + 1;
        let flat = catch(move || {
            let mut enc = enc;
            let mut out = Vec::new();
            // in two steps and then the rest: copy_to_bytes(n) must return exactly n bytes
            for n in [first.min(total), 1usize.min(total - first.min(total))] {
                let b = enc.copy_to_bytes(n);
                if b.len() != n {
                    return Err(format!("copy_to_bytes({n}) returned {} bytes", b.len()));
                }
                out.extend_from_slice(&b);
            }
            let rest = enc.remaining();
            let b = enc.copy_to_bytes(rest);
            if b.len() != rest {
                return Err(format!("copy_to_bytes({rest}) returned {} bytes", b.len()));
            }
            out.extend_from_slice(&b);
            if enc.has_remaining() {
                return Err(format!("{} bytes left after everything was copied", enc.remaining()));
            }
            Ok(out)
        })
        .map_err(|p| Failure::direct(format!("panic while flattening the encoded datagram: {p}"), case()))?
        .map_err(|e| Failure::direct(format!("chunked payload (cuts {cuts:?}): {e}"), case()))?;
        if flat != want {
            return Err(Failure::direct(format!("chunked payload (cuts {cuts:?}) flattened with copy_to_bytes: {} bytes, expected the {} of varint(S/4) || P", flat.len(), want.len()), case()));
        }
        let enc2 = Datagram::new(sid, crate::tape::Segs::new(payload, &cuts)).encode();
        let (mut got2, _) = catch(|| drain(enc2, how)).map_err(|p| Failure::direct(format!("panic while consuming the encoded datagram (chunked payload): {p}"), case()))?.map_err(|e| Failure::direct(e, case()))?;
        if let Consume::Skips(sk) = how {
            let n: usize = sk.iter().sum::<usize>().min(want.len()).min(got2.len());
            got2[..n].copy_from_slice(&want[..n]);
        }
        if got2 != want {
            return Err(Failure::direct(format!("chunked payload (cuts {cuts:?}) consumed as {how:?}: {} bytes, expected {}", got2.len(), want.len()), case()));
        }
        ctx.class("payload_of_several_chunks");
    }
    // and back
    match Datagram::decode(Bytes::from(want.clone())) {
        Ok(d) => {
            if d.stream_id() != sid || d.payload().as_ref() != payload {
                return Err(Failure::direct(format!("decode(encode) gives stream {} payload len {}", d.stream_id().into_inner(), d.payload().len()), case()));
            }
        }
        Err(e) => return Err(Failure::direct(format!("decode(encode) failed: {e:?}"), case())),
    }
    let split = match how {
        Consume::Steps(s) => hdr_len > 1 && s.first().copied().unwrap_or(1) < hdr_len,
        Consume::Jump(n) => *n < hdr_len,
        Consume::Skips(sk) => sk.first().map(|a| *a > 0 && *a < hdr_len).unwrap_or(false),
        _ => false,
    };
    if split {
        ctx.class("header_split");
    }
    if hdr_len >= 2 {
        ctx.class("multi_byte_id");
    }
    if split || hdr_len >= 2 {
        let mut h = std::collections::hash_map::DefaultHasher::new();
        std::hash::Hash::hash(payload, &mut h);
        ctx.nontrivial(&(k, std::hash::Hasher::finish(&h), format!("{how:?}")));
    }
    ctx.sample(|| json!({"stream_id": sid_raw, "payload_len": payload.len(), "consume": format!("{how:?}"), "wire_prefix": hex(&want[..want.len().min(12)])}));
    Ok(())
}

fn code_of(e: h3::error::internal_error::InternalConnectionError) -> Option<Code> {
    match LocalError::from(e) {
        LocalError::Application { code, .. } => Some(code),
        _ => None,
    }
}

fn check_decode(b: &[u8], ctx: &mut Ctx) -> Verdict {
    ctx.eval();
    let case = || json!({"kind": "decode", "bytes": hex(b)});
    let got = Datagram::decode(Bytes::copy_from_slice(b));
    let expect = match rv::decode(b) {
        rv::Dec::Ok(q, n) if q <= ((1u64 << 62) - 1) / 4 => Some((q * 4, n)),
        _ => None,
    };
    match (expect, got) {
        (Some((sid, n)), Ok(d)) => {
            if d.stream_id().into_inner() != sid || d.payload().as_ref() != &b[n..] {
                return Err(Failure::direct(format!("decoded stream id {} payload {} expected {sid} / {}", d.stream_id().into_inner(), hex(d.payload()), hex(&b[n..])), case()));
            }
            ctx.class("decode_accepted");
            if n >= 2 {
                ctx.nontrivial(&(9u8, b.to_vec()));
            }
            ctx.sample(|| json!({"decode": hex(b), "stream_id": sid, "payload_len": b.len() - n}));
        }
        (None, Err(e)) => {
            let dbg = format!("{e:?}");
            let code = code_of(e);
            if code != Some(Code::H3_DATAGRAM_ERROR) {
                return Err(Failure::direct(format!("refused with {dbg}, expected code H3_DATAGRAM_ERROR"), case()));
            }
            ctx.class("decode_rejected");
            ctx.nontrivial(&(8u8, b.to_vec()));
        }
        (Some((sid, _)), Err(e)) => return Err(Failure::direct(format!("valid datagram for stream {sid} refused: {e:?}"), case())),
        (None, Ok(d)) => return Err(Failure::direct(format!("invalid datagram accepted as stream {}", d.stream_id().into_inner()), case())),
    }
    // the same bytes in a buffer of several chunks: same stream, same payload, same refusal
    for cuts in crate::tape::cut_sets(b) {
        ctx.eval();
        let case = || json!({"kind": "decode", "bytes": hex(b), "cuts": cuts});
        let segs = crate::tape::Segs::new(b, &cuts);
        let got = crate::runner::catch(move || Datagram::decode(segs).map(|d| (d.stream_id().into_inner(), d.payload().drain_all())).map_err(code_of)).map_err(|p| Failure::direct(format!("Datagram::decode over a segmented buffer panicked: {p}"), case()))?;
        match (expect, got) {
            (Some((sid, n)), Ok((s2, p2))) => {
                if s2 != sid || p2 != b[n..] {
                    return Err(Failure::direct(format!("from chunks cut at {cuts:?}: decoded stream id {s2} payload {} expected {sid} / {}", hex(&p2), hex(&b[n..])), case()));
                }
                ctx.class("decode_segmented_agrees");
            }
            (None, Err(c)) => {
                if c != Some(Code::H3_DATAGRAM_ERROR) {
                    return Err(Failure::direct(format!("from chunks cut at {cuts:?}: refused with {c:?}, expected code H3_DATAGRAM_ERROR"), case()));
                }
                ctx.class("decode_segmented_agrees");
            }
            (Some((sid, _)), Err(c)) => return Err(Failure::direct(format!("valid datagram for stream {sid} refused ({c:?}) when it comes in chunks cut at {cuts:?}"), case())),
            (None, Ok((s2, _))) => return Err(Failure::direct(format!("invalid datagram accepted as stream {s2} when it comes in chunks cut at {cuts:?}"), case())),
        }
    }
    Ok(())
}


// ------------------------------------------------------------------------------------------------
// the same statement through the connection-level API (h3-datagram's reader / sender over the simulated transport)

use crate::simnet::app::{conn_info, err_info, ClientConn, ConnInfo, ErrInfo, SendReq, ServerConn};
use crate::simnet::exec::{shared, Exec, NoActor, RunEnd, Shared, Style};
use crate::simnet::peer::{self, PeerOp, RawPeer};
use crate::simnet::{Net, Side};
use h3_datagram::datagram_handler::HandleDatagramsExt;

#[derive(Default, Debug, Clone)]
struct ApiObs {
    /// results of successive read_datagram calls (until the first error)
    reads: Vec<Result<(u64, Vec<u8>), ErrInfo>>,
    sends: Vec<Result<(), String>>,
    driver: Option<ConnInfo>,
}

/// `incoming`: QUIC datagram payloads the raw peer sends, in order; `sends`: (quarter id, payload) handed to send_datagram
fn check_api(server: bool, incoming: &[Vec<u8>], sends: &[(u64, Vec<u8>)], sched: &[u16], ctx: &mut Ctx) -> Verdict {
    ctx.eval();
    fastrand::seed(41);
    let case = || json!({"kind": "api", "server": server, "incoming": incoming.iter().map(|d| hex(d)).collect::<Vec<_>>(), "sends": sends.iter().map(|(k, p)| json!([k.to_string(), hex(p)])).collect::<Vec<_>>(), "sched": sched});
    let net = Net::new();
    let side = if server { Side::Server } else { Side::Client };
    let raw = side.other();
    net.set_raw(raw);
    let o: Shared<ApiObs> = shared(ApiObs::default());
    let mut ex = Exec::new();
    let sp = ex.spawner.clone();
    let n_in = incoming.len();
    let sends_v: Vec<(u64, Vec<u8>)> = sends.to_vec();
    if server {
        let (net2, o2, sp2) = (net.clone(), o.clone(), sp.clone());
        ex.spawn("server", async move {
            let mut b = h3::server::builder();
            b.send_grease(false).enable_datagram(true);
            let mut conn: ServerConn = match b.build(net2.conn(Side::Server)).await {
                Ok(c) => c,
                Err(e) => {
                    o2.borrow_mut().driver = Some(conn_info(&e));
                    return;
                }
            };
            let mut rd = conn.get_datagram_reader();
            let o3 = o2.clone();
            sp2.spawn("reader", async move {
                for _ in 0..n_in {
                    match rd.read_datagram().await {
                        Ok(d) => o3.borrow_mut().reads.push(Ok((d.stream_id().into_inner(), d.payload().to_vec()))),
                        Err(e) => {
                            o3.borrow_mut().reads.push(Err(err_info(&e)));
                            break;
                        }
                    }
                }
            });
            for (k, p) in &sends_v {
                let r = match StreamId::try_from(4 * *k) {
                    Ok(id) => conn.get_datagram_sender(id).send_datagram(Bytes::from(p.clone())).map_err(|e| format!("{e}")),
                    Err(_) => Err("stream id out of range".to_string()),
                };
                o2.borrow_mut().sends.push(r);
            }
            loop {
                match conn.accept().await {
                    Ok(Some(_)) => {}
                    Ok(None) => break,
                    Err(e) => {
                        o2.borrow_mut().driver = Some(conn_info(&e));
                        break;
                    }
                }
            }
            // (dropping the connection would add its own H3_NO_ERROR close)
            std::future::pending::<()>().await;
            drop(conn);
        });
    } else {
        let (net2, o2, sp2) = (net.clone(), o.clone(), sp.clone());
        ex.spawn("client", async move {
            let mut b = h3::client::builder();
            b.send_grease(false).enable_datagram(true);
            let (mut conn, sr): (ClientConn, SendReq) = match b.build(net2.conn(Side::Client)).await {
                Ok(x) => x,
                Err(e) => {
                    o2.borrow_mut().driver = Some(conn_info(&e));
                    return;
                }
            };
            let mut rd = conn.get_datagram_reader();
            let o3 = o2.clone();
            sp2.spawn("reader", async move {
                for _ in 0..n_in {
                    match rd.read_datagram().await {
                        Ok(d) => o3.borrow_mut().reads.push(Ok((d.stream_id().into_inner(), d.payload().to_vec()))),
                        Err(e) => {
                            o3.borrow_mut().reads.push(Err(err_info(&e)));
                            break;
                        }
                    }
                }
            });
            for (k, p) in &sends_v {
                let r = match StreamId::try_from(4 * *k) {
                    Ok(id) => conn.get_datagram_sender(id).send_datagram(Bytes::from(p.clone())).map_err(|e| format!("{e}")),
                    Err(_) => Err("stream id out of range".to_string()),
                };
                o2.borrow_mut().sends.push(r);
            }
            let e = std::future::poll_fn(|cx| conn.poll_close(cx)).await;
            o2.borrow_mut().driver = Some(conn_info(&e));
            std::future::pending::<()>().await;
            drop(sr);
        });
    }
    let mut ops = vec![PeerOp::OpenUni(0), PeerOp::Write(0, peer::control_preamble(&[(0x33, 1)])), PeerOp::Barrier];
    for d in incoming {
        ops.push(PeerOp::Datagram(d.clone()));
    }
    let mut rp = RawPeer::new(raw, ops);
    let mut t = Tape::new(sched);
    let end = ex.run(&net, &mut rp, &mut t, if sched.is_empty() { Style::Eager } else { Style::Random }, 100_000);
    let _ = NoActor;
    if end == RunEnd::StepBound {
        return Err(Failure::fault("step bound"));
    }
    if let Some((task, p)) = ex.panics().first() {
        return Err(Failure::direct(format!("panic in task {task}: {p}"), case()));
    }
    let obs = o.borrow().clone();
    let closes = net.close_calls(side);
    let fail = |m: String| Err(Failure::direct(format!("{m}; observed {obs:?}, closes {closes:?}"), case()));
    // sending: exactly varint(k) || payload per accepted datagram, in order
    let sent = net.lock().ends[side.idx()].datagrams_sent.clone();
    let mut want_sent: Vec<Vec<u8>> = Vec::new();
    for ((k, p), r) in sends.iter().zip(obs.sends.iter()) {
        if r.is_ok() {
            let mut w = rv::encode(*k).unwrap();
            w.extend_from_slice(p);
            want_sent.push(w);
        }
    }
    if sent != want_sent {
        return fail(format!("datagrams put on the wire {:?}, expected {:?}", sent.iter().map(|d| hex(d)).collect::<Vec<_>>(), want_sent.iter().map(|d| hex(d)).collect::<Vec<_>>()));
    }
    if !sends.is_empty() && obs.sends.len() == sends.len() {
        ctx.class("api_send_checked");
    }
    // receiving: in order, until the first invalid one, which is a connection error H3_DATAGRAM_ERROR
    let mut expect_err = false;
    for (i, d) in incoming.iter().enumerate() {
        let valid = match rv::decode(d) {
            rv::Dec::Ok(q, n) if q <= ((1u64 << 62) - 1) / 4 => Some((q * 4, d[n..].to_vec())),
            _ => None,
        };
        match (valid, obs.reads.get(i)) {
            (Some(w), Some(Ok(g))) if *g == w => {}
            (Some(w), other) => return fail(format!("datagram #{i} ({}) is valid for stream {} but read_datagram gave {other:?}", hex(d), w.0)),
            (None, Some(Err(ErrInfo::Conn(ConnInfo::Local { code })))) if *code == 0x33 => {
                expect_err = true;
                break;
            }
            (None, other) => return fail(format!("datagram #{i} ({}) must be refused with the connection error H3_DATAGRAM_ERROR, read_datagram gave {other:?}", hex(d))),
        }
    }
    if expect_err {
        if closes.len() != 1 || closes[0].code != 0x33 {
            return fail("a refused datagram closes the connection with H3_DATAGRAM_ERROR".into());
        }
        ctx.class("api_refused_datagram");
        ctx.nontrivial(&(7u8, server, incoming.to_vec()));
    } else {
        if !closes.is_empty() || obs.driver.is_some() {
            return fail("valid datagrams caused a connection error".into());
        }
        if !incoming.is_empty() {
            ctx.class("api_valid_datagrams_read");
        }
    }
    Ok(())
}

const KB: [u64; 12] = [0, 1, 62, 63, 64, 65, 16383, 16384, (1 << 30) - 1, 1 << 30, (1 << 60) - 2, (1 << 60) - 1];

fn exhaustive(ctx: &mut Ctx, shard: usize, nshards: usize) -> Verdict {
    // API level: every byte string of <= 1 byte and a set of boundary strings as the first / second incoming datagram
    if shard == 0 {
        let mut strings: Vec<Vec<u8>> = vec![vec![]];
        for b in 0..=255u8 {
            strings.push(vec![b]);
        }
        for k in KB {
            if let Some(e) = rv::encode(k) {
                let mut with = e.clone();
                with.extend_from_slice(b"pay");
                strings.push(with);
                for cut in 1..e.len() {
                    strings.push(e[..cut].to_vec());
                }
                strings.push(rv::encode_len(k, 8).unwrap());
            }
        }
        strings.push(rv::encode_len(1 << 60, 8).unwrap());
        strings.push(vec![0xff; 8]);
        for server in [true, false] {
            for (i, d) in strings.iter().enumerate() {
                check_api(server, &[d.clone()], &[(KB[i % KB.len()], vec![i as u8; i % 5])], &[], ctx)?;
                check_api(server, &[vec![0x01, b'a'], d.clone(), vec![0x02]], &[], &[], ctx)?;
            }
        }
    }
    let top: u64 = ctx.tier.pick(1 << 16, 1 << 20);
    let pats = [Consume::CopyAll, Consume::Steps(vec![1]), Consume::Vectored];
    for k in 0..top {
        if (k as usize >> 6) % nshards != shard {
            continue;
        }
        let payload = [k as u8, (k >> 8) as u8, 0xa5];
        let plen = (k % 4) as usize;
        for p in &pats {
            check_encode(k, &payload[..plen.min(3)], p, ctx)?;
        }
    }
    ctx.subspace("all quarter ids below bound x 3 consumption patterns", top * 3);
    if shard == 0 {
        for k in KB {
            for plen in [0usize, 1, 2, 7, 1500] {
                let payload = crate::tape::prf_bytes(k ^ plen as u64, plen);
                for p in [Consume::CopyAll, Consume::Steps(vec![1]), Consume::Steps(vec![2, 1, 3]), Consume::Steps(vec![3]), Consume::Steps(vec![7]), Consume::Jump(1), Consume::Jump(3), Consume::Jump(8), Consume::Vectored] {
                    check_encode(k, &payload, &p, ctx)?;
                }
            }
            // every pair of raw advances (a inside the header, b reaching up to 3 bytes into the payload)
            let hdr = rv::min_len(k).unwrap();
            let payload = crate::tape::prf_bytes(k ^ 99, 6);
            for a in 0..=hdr {
                for b in 0..=(hdr - a + 3) {
                    check_encode(k, &payload, &Consume::Skips(vec![a, b]), ctx)?;
                    check_encode(k, &payload, &Consume::Skips(vec![a, 1, b]), ctx)?;
                }
            }
            // decode: every form of k that fits, every truncation, plus tails
            for n in [1usize, 2, 4, 8] {
                if let Some(enc) = rv::encode_len(k, n) {
                    for cut in 0..=enc.len() {
                        check_decode(&enc[..cut], ctx)?;
                    }
                    let mut t = enc.clone();
                    t.extend_from_slice(b"xyz");
                    check_decode(&t, ctx)?;
                }
            }
        }
        for q in [1u64 << 60, (1 << 60) + 1, (1 << 61), (1 << 62) - 1] {
            let mut enc = rv::encode_len(q, 8).unwrap();
            check_decode(&enc, ctx)?;
            enc.push(7);
            check_decode(&enc, ctx)?;
        }
        ctx.subspace("varint form boundaries x payload sizes x 9 consumption patterns; every truncation of every form", KB.len() as u64);
        check_decode(&[], ctx)?;
        for a in 0..=255u8 {
            check_decode(&[a], ctx)?;
        }
    }
    for a in 0..=255u8 {
        if (a as usize) % nshards != shard {
            continue;
        }
        for b in 0..=255u8 {
            check_decode(&[a, b], ctx)?;
            if ctx.tier == Tier::Thorough {
                for c in 0..=255u8 {
                    check_decode(&[a, b, c], ctx)?;
                }
            }
        }
    }
    ctx.subspace("all decode inputs of <= 2 bytes (<= 3 in thorough)", ctx.tier.pick(65793, 16843009));
    Ok(())
}

fn gen_consume(t: &mut Tape) -> Consume {
    match t.pick(6) {
        5 => {
            let n = t.int(1, 4) as usize;
            Consume::Skips((0..n).map(|_| t.int(0, 12) as usize).collect())
        }
        0 => Consume::CopyAll,
        1 => Consume::Vectored,
        2 => Consume::Jump(t.int(1, 9) as usize),
        _ => {
            let n = t.int(1, 4) as usize;
            Consume::Steps((0..n).map(|_| *t.choose(&[1usize, 1, 2, 3, 4, 7, 8, 9, 64, 2000])).collect())
        }
    }
}

fn run_tape(tape: &[u16], ctx: &mut Ctx) -> Verdict {
    let mut t = Tape::new(tape);
    if t.chance(1, 50) {
        // API level (much more expensive than a codec case)
        let server = t.bool();
        let n = t.pick(4);
        let incoming: Vec<Vec<u8>> = (0..n)
            .map(|_| match t.pick(4) {
                0 => t.bytes(3),
                1 => {
                    let mut e = rv::encode(*t.choose(&KB)).unwrap_or_default();
                    let cut = t.pick(e.len() + 1);
                    if t.chance(1, 3) {
                        e.truncate(cut);
                    }
                    e.extend(t.bytes(4));
                    e
                }
                _ => {
                    let mut e = rv::encode(t.int(0, 5000)).unwrap();
                    let n = t.int(0, 1200) as usize;
                    e.extend(t.bulk(n));
                    e
                }
            })
            .collect();
        let m = t.pick(3);
        let sends: Vec<(u64, Vec<u8>)> = (0..m)
            .map(|_| {
                let k = if t.bool() { *t.choose(&KB) } else { t.int(0, 70000) };
                let n = t.int(0, 1000) as usize;
                (k, t.bulk(n))
            })
            .collect();
        let sched: Vec<u16> = tape[t.position().min(tape.len())..].to_vec();
        return check_api(server, &incoming, &sends, &sched, ctx);
    }
    if t.pick(3) < 2 {
        let k = match t.pick(4) {
            0 => t.int(0, 70),
            1 => *t.choose(&KB),
            2 => (t.u64() >> 4) >> t.pick(60),
            _ => t.int(60, 20000),
        };
        let plen = match t.pick(4) {
            0 => 0,
            1 => t.int(1, 16) as usize,
            _ => t.int(0, 1500) as usize,
        };
        let payload = t.bulk(plen);
        let how = gen_consume(&mut t);
        check_encode(k, &payload, &how, ctx)
    } else {
        let mut b = match t.pick(3) {
            0 => t.bytes(9),
            1 => {
                let n = *t.choose(&[1usize, 2, 4, 8]);
                let bits = [6, 14, 30, 62][[1usize, 2, 4, 8].iter().position(|x| *x == n).unwrap()];
                let v = (t.u64() >> (64 - bits)) >> t.pick(bits);
                let mut e = rv::encode_len(v, n).unwrap();
                if t.chance(1, 3) {
                    let cut = t.pick(e.len() + 1);
                    e.truncate(cut);
                }
                e
            }
            _ => {
                // around the 2^60 limit
                let q = ((1u64 << 60) - 1).wrapping_add(t.int(0, 8)).wrapping_sub(4);
                rv::encode_len(q & rv::MAX, 8).unwrap()
            }
        };
        if t.bool() {
            let n = t.int(0, 40) as usize;
            b.extend(t.bulk(n));
        }
        check_decode(&b, ctx)
    }
}

fn run_direct(d: &Value, ctx: &mut Ctx) -> Verdict {
    match d.get("kind").and_then(|k| k.as_str()) {
        Some("decode") => check_decode(&unhex(d["bytes"].as_str().unwrap_or("")), ctx),
        Some("api") => {
            let incoming: Vec<Vec<u8>> = d["incoming"].as_array().map(|a| a.iter().map(|x| unhex(x.as_str().unwrap_or(""))).collect()).unwrap_or_default();
            let sends: Vec<(u64, Vec<u8>)> = d["sends"].as_array().map(|a| a.iter().map(|x| (x[0].as_str().and_then(|s| s.parse().ok()).unwrap_or(0), unhex(x[1].as_str().unwrap_or("")))).collect()).unwrap_or_default();
            let sched: Vec<u16> = d["sched"].as_array().map(|a| a.iter().map(|x| x.as_u64().unwrap_or(0) as u16).collect()).unwrap_or_default();
            check_api(d["server"].as_bool().unwrap_or(true), &incoming, &sends, &sched, ctx)
        }
        Some("encode") => {
            let k = d["k"].as_u64().unwrap_or(0);
            let payload = unhex(d["payload"].as_str().unwrap_or(""));
            // consumption pattern is re-derived from its debug string
            let s = d["consume"].as_str().unwrap_or("CopyAll");
            let how = if s.starts_with("Steps") {
                let nums: Vec<usize> = s.split(|c: char| !c.is_ascii_digit()).filter(|x| !x.is_empty()).map(|x| x.parse().unwrap()).collect();
                Consume::Steps(nums)
            } else if s.starts_with("Jump") {
                let n: usize = s.split(|c: char| !c.is_ascii_digit()).find(|x| !x.is_empty()).map(|x| x.parse().unwrap()).unwrap_or(1);
                Consume::Jump(n)
            } else if s.starts_with("Skips") {
                let nums: Vec<usize> = s.split(|c: char| !c.is_ascii_digit()).filter(|x| !x.is_empty()).map(|x| x.parse().unwrap()).collect();
                Consume::Skips(nums)
            } else if s.starts_with("Vectored") {
                Consume::Vectored
            } else {
                Consume::CopyAll
            };
            check_encode(k, &payload, &how, ctx)
        }
        _ => Err(Failure::fault("unknown direct case")),
    }
}
