//! C14 - Everything h3 writes is valid HTTP/3, however the transport takes it.

use serde_json::json;

use crate::runner::{Ctx, Failure, PropDef, Verdict};
use crate::simnet::exec::{RunEnd, Style};
use crate::simnet::wire::{self, WireSummary};
use crate::simnet::{Side, UNLIMITED};
use crate::tape::Tape;

use super::c01::{self, EndConfig, Scenario};

pub static PROP: PropDef = PropDef {
    id: "C14",
    rule: "case = API program for both roles (1..4 exchanges: send_request/send_response, send_data with buffers 0..64 KiB incl. empty, send_trailers, finish, server shutdown(n) repeated, client shutdown, \
           stream handles dropped between calls) x builder configuration class x transport write acceptance (credits 0,1,2,3,7.. with tape-chosen grants, stream-credit delays, schedule styles). \
           oracle: reference RFC 9114 parser over the complete byte log of every stream each h3 end wrote: legal uni stream types; control stream = SETTINGS first (no id twice, no H2-reserved id, unknown ids of the 0x1f*N+0x21 form) \
           then only GOAWAY/MAX_PUSH_ID/CANCEL_PUSH/reserved frames; request streams only complete HEADERS, DATA and reserved-type frames in message order; GOAWAY ids legal for the role; \
           metamorphic: the frames written under the generated credit pattern equal those written when the transport accepts everything. \
           non-trivial = >= 1 frame whose header and payload were each accepted in >= 2 pieces; distinct by scenario+schedule hash",
    assumptions: &[
        "cancelling a write future in the middle of a frame is outside the documented call patterns and is not generated",
        "a stream whose write was interrupted by the peer (STOP_SENDING) or by the end of the connection may end inside a frame",
        "QPACK encoder/decoder streams: only the stream type is judged (h3 sends no instructions)",
    ],
    tape_len: 700,
    random_cases: |t| t.pick(80_000, 3_000_000),
    run_tape,
    exhaustive: Some(segmented_body_family),
    run_direct: Some(run_direct),
    min_classes: &[("nontrivial", 200), ("server_shutdown", 500), ("abort_between_calls", 500), ("grease_on", 1000), ("config_nondefault", 1000), ("metamorphic_compared", 1000)],
    extra: None,
};

const VALS: [u64; 11] = [0, 1, 63, 64, 16383, 16384, (1 << 30) - 1, 1 << 30, (1 << 62) - 1, 1 << 62, u64::MAX];

pub fn gen_config(t: &mut Tape, server: bool, allow_huge: bool) -> EndConfig {
    let mut c = EndConfig { grease: t.bool(), ..Default::default() };
    if t.chance(1, 2) {
        c.extended_connect = t.bool();
        c.datagram = t.bool();
        if server {
            c.webtransport = t.bool();
            if t.bool() {
                let v = *t.choose(&VALS);
                if allow_huge || v < (1 << 62) {
                    c.max_wt_sessions = Some(v);
                }
            }
        }
    }
    c
}

fn gen(t: &mut Tape) -> Scenario {
    let mut sc = c01::gen_scenario(t);
    // write acceptance is the point here: bias towards tiny credits
    for side in 0..2 {
        if t.chance(2, 3) {
            sc.credit[side] = *t.choose(&[0u64, 1, 2, 3, 7, 8, 9, 64, 1000]);
        }
    }
    sc.config = [gen_config(t, false, false), gen_config(t, true, false)];
    let n = sc.exchanges.len();
    if t.chance(1, 2) {
        let k = t.int(1, 3);
        for _ in 0..k {
            sc.server_shutdowns.push((t.pick(n + 1), if t.chance(1, 4) { *t.choose(&[1000usize, 1 << 30, 1 << 60, (1 << 60) + 1, usize::MAX / 2, usize::MAX]) } else { t.pick(4) }));
        }
    }
    sc.client_shutdown = t.chance(1, 5);
    for e in sc.exchanges.iter_mut() {
        if t.chance(1, 6) {
            e.client_abort = Some(t.pick(e.req.msg.pieces.len() + 1));
        } else if t.chance(1, 6) {
            e.server_abort = Some(t.pick(e.resp.msg.pieces.len() + 1));
        }
    }
    sc
}

fn semantic(sum: &WireSummary) -> (Vec<Vec<(u64, Vec<u8>)>>, Vec<(u64, u64)>, Vec<u64>) {
    let mut streams: Vec<Vec<(u64, Vec<u8>)>> = sum.request_streams.iter().map(|(_, f)| f.clone()).collect();
    streams.sort();
    let mut settings: Vec<(u64, u64)> = sum.settings.clone().unwrap_or_default().into_iter().filter(|(id, _)| crate::reference::settings::is_known(*id)).collect();
    settings.sort();
    (streams, settings, sum.goaways.clone())
}


/// The body type is the caller's choice: a buffer that is not one contiguous slice (a `Chain`, a rope, a ring buffer) must be
/// framed like any other. Unit level: `WriteBuf::from(Frame::Data(body))` drained the way a transport does, in steps of 1, 3
/// or everything offered; oracle: type 0x00, the shortest varint of the *whole* payload length, then exactly the payload.
fn segmented_body_case(len: usize, cuts: &[usize], step: usize, ctx: &mut Ctx) -> Verdict {
    use bytes::Buf;
    ctx.eval();
    let payload = crate::tape::prf_bytes(len as u64 + 5, len);
    let segs = crate::tape::Segs::new(&payload, cuts);
    let nseg = segs.0.len();
    let mut wb = h3::quic::WriteBuf::from(h3::proto::frame::Frame::Data(segs));
    let mut wire = Vec::new();
    let announced = wb.remaining();
    while wb.has_remaining() {
        let c = wb.chunk();
        if c.is_empty() {
            return Err(Failure::direct("chunk() is empty although remaining() > 0", json!({"kind": "segmented_body", "len": len, "cuts": cuts, "step": step})));
        }
        let n = if step == 0 { c.len() } else { step.min(c.len()) };
        wire.extend_from_slice(&c[..n]);
        wb.advance(n);
    }
    let mut want = vec![0u8];
    want.extend(crate::reference::varint::encode(len as u64).unwrap());
    want.extend_from_slice(&payload);
    if wire != want || announced != want.len() {
        let head = &wire[..wire.len().min(12)];
        return Err(Failure::direct(
            format!("a DATA frame for a body of {len} bytes in {nseg} segments: {} bytes written (remaining() announced {announced}), starting {}; expected {} bytes starting {}", wire.len(), crate::simnet::app::hexs(head), want.len(), crate::simnet::app::hexs(&want[..want.len().min(12)])),
            json!({"kind": "segmented_body", "len": len, "cuts": cuts, "step": step}),
        ));
    }
    if nseg >= 2 {
        ctx.class("body_in_several_segments");
        ctx.nontrivial(&("segmented_body", len, cuts.to_vec(), step));
    }
    Ok(())
}

fn segmented_body_family(ctx: &mut Ctx, shard: usize, nshards: usize) -> Verdict {
    let mut idx = 0usize;
    for len in [0usize, 1, 2, 5, 11, 63, 64, 65, 300, 16383, 16384, 70_000] {
        let payload = crate::tape::prf_bytes(len as u64 + 5, len);
        let mut sets: Vec<Vec<usize>> = vec![vec![]];
        sets.extend(crate::tape::cut_sets(&payload).into_iter().take(40));
        for cuts in sets {
            for step in [0usize, 1, 3] {
                if step == 1 && len > 400 {
                    continue;
                }
                idx += 1;
                if idx % nshards == shard {
                    segmented_body_case(len, &cuts, step, ctx)?;
                }
            }
        }
    }
    if shard == 0 {
        ctx.subspace("DATA frames for bodies of 0..70000 bytes held in 1..n segments (up to 40 cut sets each), drained in steps of 1 / 3 / everything", idx as u64);
    }
    Ok(())
}

fn run_direct(d: &serde_json::Value, ctx: &mut Ctx) -> Verdict {
    let cuts: Vec<usize> = d["cuts"].as_array().map(|a| a.iter().map(|x| x.as_u64().unwrap_or(0) as usize).collect()).unwrap_or_default();
    segmented_body_case(d["len"].as_u64().unwrap_or(0) as usize, &cuts, d["step"].as_u64().unwrap_or(0) as usize, ctx)
}

fn run_tape(tape: &[u16], ctx: &mut Ctx) -> Verdict {
    let mut t = Tape::new(tape);
    let sc = gen(&mut t);
    ctx.eval();
    let r = c01::execute(&sc, &mut t);
    let case = || {
        json!({
            "scenario": c01::scenario_json(&sc), "shutdowns": sc.server_shutdowns, "client_shutdown": sc.client_shutdown,
            "aborts": sc.exchanges.iter().map(|e| (e.client_abort, e.server_abort)).collect::<Vec<_>>(),
            "config": format!("{:?}", sc.config), "steps": r.ex.steps, "pending": r.ex.pending_tasks(),
        })
    };
    if r.end == RunEnd::StepBound {
        return Err(Failure::fault(format!("step bound hit {}", r.ex.trace_tail(30))));
    }
    if let Some(f) = r.net.lock().faults.first() {
        return Err(Failure::fault(format!("sim fault: {f}")));
    }
    if let Some((task, p)) = r.ex.panics().first() {
        return Err(Failure::new(format!("panic in task {task}: {p}"), case()));
    }
    let ordered = true;
    let (cs, ss) = {
        let g = r.net.lock();
        let cs = wire::check_written(&g, Side::Client, false, ordered).map_err(|e| Failure::new(format!("client wrote invalid HTTP/3: {e}"), case()))?;
        let ss = wire::check_written(&g, Side::Server, true, ordered).map_err(|e| Failure::new(format!("server wrote invalid HTTP/3: {e}"), case()))?;
        (cs, ss)
    };
    // settings present once the connection was built
    if r.world.client_driver.borrow().built && cs.settings.is_none() {
        return Err(Failure::new("client built its connection but no SETTINGS frame is on its control stream", case()));
    }
    if r.world.server_driver.borrow().built && ss.settings.is_none() {
        return Err(Failure::new("server built its connection but no SETTINGS frame is on its control stream", case()));
    }
    // GOAWAY ids from the server never increase (also C08) - here only legality is asserted
    // ---- metamorphic partner: accept everything, eager. Only meaningful when the programs do not depend on timing:
    // no aborts, no shutdowns (their effect depends on which requests were accepted before).
    let timing_free = sc.server_shutdowns.is_empty() && !sc.client_shutdown && sc.exchanges.iter().all(|e| e.client_abort.is_none() && e.server_abort.is_none());
    if timing_free {
        let mut sc2 = sc.clone();
        sc2.credit = [UNLIMITED, UNLIMITED];
        sc2.client_bidi_credit = UNLIMITED;
        sc2.uni_credit = [UNLIMITED, UNLIMITED];
        sc2.style = Style::Eager;
        let empty: [u16; 0] = [];
        let mut t2 = Tape::new(&empty);
        let r2 = c01::execute(&sc2, &mut t2);
        let g2 = r2.net.lock();
        let cs2 = wire::check_written(&g2, Side::Client, false, ordered).map_err(|e| Failure::new(format!("(accept-everything run) client wrote invalid HTTP/3: {e}"), case()))?;
        let ss2 = wire::check_written(&g2, Side::Server, true, ordered).map_err(|e| Failure::new(format!("(accept-everything run) server wrote invalid HTTP/3: {e}"), case()))?;
        if semantic(&cs) != semantic(&cs2) {
            return Err(Failure::new("client: frames written under the generated write-acceptance pattern differ from the accept-everything run", case()));
        }
        if semantic(&ss) != semantic(&ss2) {
            return Err(Failure::new("server: frames written under the generated write-acceptance pattern differ from the accept-everything run", case()));
        }
        ctx.class("metamorphic_compared");
    }
    // ---- classification: a frame whose header and payload were each accepted in >= 2 pieces
    let mut nt = false;
    {
        let g = r.net.lock();
        for ((stream, _w), p) in g.pipes.iter() {
            if p.sink || stream & 2 != 0 {
                continue;
            }
            let seg = crate::reference::frames::segment(&p.written);
            // acceptance boundaries
            let mut bounds = Vec::new();
            let mut pos = 0usize;
            for a in &p.accept_sizes {
                pos += *a as usize;
                bounds.push(pos);
            }
            for (s, h, e) in &seg.spans {
                let in_h = bounds.iter().filter(|b| **b > *s && **b < *h).count();
                let in_p = bounds.iter().filter(|b| **b > *h && **b < *e).count();
                if in_h >= 1 && in_p >= 1 {
                    nt = true;
                }
            }
        }
    }
    if !sc.server_shutdowns.is_empty() {
        ctx.class("server_shutdown");
    }
    if sc.exchanges.iter().any(|e| e.client_abort.is_some() || e.server_abort.is_some()) {
        ctx.class("abort_between_calls");
    }
    if sc.config.iter().any(|c| c.grease) {
        ctx.class("grease_on");
    }
    if sc.config.iter().any(|c| c.webtransport || c.datagram || c.extended_connect || c.max_wt_sessions.is_some()) {
        ctx.class("config_nondefault");
    }
    if cs.grease_frames + ss.grease_frames > 0 {
        ctx.class("grease_frame_seen");
    }
    if !ss.goaways.is_empty() {
        ctx.class("goaway_seen");
    }
    if nt {
        ctx.class("nontrivial");
        ctx.nontrivial(&(format!("{:?}", c01::scenario_json(&sc)), r.ex.steps));
    }
    ctx.sample(|| json!({"scenario": c01::scenario_json(&sc), "frames_client": cs.frames_total, "frames_server": ss.frames_total, "goaways": ss.goaways, "uni_types_server": ss.uni_types}));
    Ok(())
}
