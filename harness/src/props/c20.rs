//! C20 - Stateful QPACK encoder and decoder stay in agreement (model based, hook re-exports).

use h3::qpack::verif::{ack_header, stream_canceled, Decoder, DynamicTable, Encoder};
use h3::qpack::HeaderField;
use serde_json::{json, Value};

use crate::reference::qpack::Field;
use crate::reference::qpack_dyn::{Applied, DynErr, RefTable};
use crate::runner::{catch, hex, Ctx, Failure, PropDef, Verdict};
use crate::tape::Tape;

pub static PROP: PropDef = PropDef {
    id: "C20",
    rule: "case = workload of 1..40 field sections on a small set of stream ids (ids reused for header + trailer), fields from an alphabet of 4..8 names x 4..8 values (some in the static table by name / name+value), \
           table capacity in {0, 1..32 (nothing fits), 33..64, 100, 256, 64..400, 4096}, blocked-stream limit in {0,1,2,100}, and a delivery schedule from the tape over {encode next section, deliver the next 1..n bytes of the encoder stream, try to decode a pending section, \
           acknowledge a decoded section, deliver bytes of the decoder stream to the encoder, cancel a stream}. oracles: (1) every section handed to h3's Decoder after all encoder-stream bytes produced before it were delivered decodes to exactly the original list; \
           handed earlier it gives that list or 'blocked' (MissingRefs), never another list or error; no encode / on_encoder_recv / on_decoder_recv of a legal exchange fails. (2) the independent RFC 9204 reference decoder, fed the same bytes, decodes every section to the original list. \
           (3) tracked by the reference: the table never exceeds its capacity and no instruction evicts an absolute index referenced by a section whose acknowledgement has not been delivered to the encoder. \
           non-trivial = workload with >= 1 dynamic-table reference on the wire and (an eviction or a decode attempted while blocked); distinct by (workload, schedule)",
    assumptions: &["reference dynamic-table decoder in src/reference/qpack_dyn.rs (self-tested against RFC 9204 Appendix B)", "the stateful encoder/decoder are reached through the cfg-guarded re-export; they are not used on live connections today"],
    tape_len: 400,
    random_cases: |t| t.pick(600_000, 12_000_000),
    run_tape,
    exhaustive: Some(bulk_family),
    run_direct: Some(run_direct),
    min_classes: &[("nontrivial", 10000), ("dynamic_reference", 30000), ("eviction", 10000), ("blocked_attempt", 10000), ("late_delivery", 20000), ("ack_delivered", 20000), ("stream_cancelled", 2000), ("duplicate_instruction", 1000)],
    extra: None,
};

pub const KNOWN_RIC_WINDOW: &str = "C20-encoder-outruns-ric-window";

const NAMES: [&str; 8] = ["x-a", "x-bb", "cookie", "accept", "x-long-header-name", ":path", "q", "content-type"];
const VALUES: [&str; 8] = ["1", "22", "", "*/*", "some-longer-value-0123456789", "/", "text/plain", "v"];

#[derive(Debug, Clone)]
struct Section {
    stream: u64,
    fields: Vec<Field>,
    block: Vec<u8>,
    /// encoder stream length when the section was emitted
    enc_len_at_emit: usize,
    refs: Vec<u64>,
    required: u64,
    decoded: bool,
    acked: bool,
    ack_delivered: bool,
    cancelled: bool,
    attempts_blocked: u32,
}

#[derive(Debug, Clone)]
pub struct Workload {
    pub capacity: usize,
    pub max_blocked: usize,
    pub sections: Vec<(u64, Vec<(usize, usize)>)>,
}

fn gen_workload(t: &mut Tape) -> Workload {
    let capacity = match t.pick(7) {
        0 => 0,
        // below and at the size of the smallest possible entry: nothing fits, every section must still decode
        6 => t.int(1, 32) as usize,
        1 => t.int(33, 64) as usize,
        2 => 100,
        3 => 256,
        4 => t.int(64, 400) as usize,
        _ => 4096,
    };
    let max_blocked = *t.choose(&[0usize, 1, 2, 100, 100]);
    let nn = t.int(4, 8) as usize;
    let nv = t.int(4, 8) as usize;
    let nstreams = t.int(1, 4);
    let n = match t.pick(3) {
        0 => t.int(1, 5),
        1 => t.int(1, 15),
        _ => t.int(1, 40),
    } as usize;
    let sections = (0..n)
        .map(|_| {
            let stream = 4 * t.int(0, nstreams - 1);
            let k = t.int(0, 5) as usize;
            (stream, (0..k).map(|_| (t.pick(nn), t.pick(nv))).collect())
        })
        .collect();
    Workload { capacity, max_blocked, sections }
}

fn wl_json(w: &Workload) -> Value {
    json!({"capacity": w.capacity, "max_blocked": w.max_blocked, "sections": w.sections.iter().map(|(s, f)| json!({"stream": s, "fields": f.iter().map(|(n, v)| format!("{}: {}", NAMES[*n], VALUES[*v])).collect::<Vec<_>>()})).collect::<Vec<_>>()})
}


/// Bulk delivery: `n` sections on `n` streams, each inserting one new entry (capacity 4096 holds them all, blocked limit
/// above n), every encoder-stream byte handed to the decoder in ONE on_encoder_recv call, its answer handed to the encoder in one
/// on_decoder_recv call, then every section decoded. Legal for any n; the interesting values are the limits of the integer
/// types an implementation may count insertions in.
fn bulk_delivery_case(n: usize, ctx: &mut Ctx) -> Verdict {
    ctx.eval();
    let case = || json!({"kind": "bulk_delivery", "sections": n});
    let fail = |m: String| Err(Failure::direct(m, case()));
    let r = catch(|| -> Result<(), String> {
        let mut et = DynamicTable::new();
        let mut dt = DynamicTable::new();
        // the default capacity for the sizes around the 6-bit prefix, a larger table for the sizes around one byte
        let cap = 4096.max(40 * n);
        let period = 90.max(n);
        et.set_max_size(cap).map_err(|e| format!("{e:?}"))?;
        et.set_max_blocked(1000).map_err(|e| format!("{e:?}"))?;
        dt.set_max_size(cap).map_err(|e| format!("{e:?}"))?;
        dt.set_max_blocked(1000).map_err(|e| format!("{e:?}"))?;
        let mut enc = Encoder::from(et);
        let mut dec = Decoder::from(dt);
        let mut enc_stream: Vec<u8> = Vec::new();
        let mut blocks: Vec<(u64, Vec<u8>, Vec<u8>)> = Vec::new();
        // entries of 32 + 1 + len(value) <= 38 bytes: at most 100 fit, older unreferenced ones make room
        for i in 0..n {
            let value = format!("{i}").into_bytes();
            let mut block = Vec::new();
            enc.encode(4 * i as u64, &mut block, &mut enc_stream, vec![HeaderField::new(b"k".to_vec(), value.clone())]).map_err(|e| format!("encode of section {i} failed: {e:?}"))?;
            blocks.push((4 * i as u64, block, value));
            if i % period == period - 1 && i + 1 < n {
                // let the decoder catch up so that entries can be acknowledged and later evicted (not the point here)
                let mut rd: &[u8] = &enc_stream;
                let mut dec_stream = Vec::new();
                dec.on_encoder_recv(&mut rd, &mut dec_stream).map_err(|e| format!("on_encoder_recv failed: {e:?}"))?;
                enc_stream.clear();
                for (st, b, v) in blocks.drain(..) {
                    let mut rb: &[u8] = &b;
                    let got = dec.decode_header(&mut rb).map_err(|e| format!("decode failed: {e:?}"))?;
                    if got.fields.len() != 1 || got.fields[0].value.as_ref() != v.as_slice() {
                        return Err(format!("section on stream {st} decodes to {} fields", got.fields.len()));
                    }
                    ack_header(st, &mut dec_stream);
                }
                let mut rd2: &[u8] = &dec_stream;
                enc.on_decoder_recv(&mut rd2).map_err(|e| format!("on_decoder_recv failed on a legal decoder stream: {e:?}"))?;
            }
        }
        let mut rd: &[u8] = &enc_stream;
        let mut dec_stream = Vec::new();
        dec.on_encoder_recv(&mut rd, &mut dec_stream).map_err(|e| format!("on_encoder_recv failed on a legal encoder stream carrying {} insertions in one read: {e:?}", blocks.len()))?;
        if !rd.is_empty() {
            return Err(format!("{} encoder-stream bytes left unconsumed", rd.len()));
        }
        let mut rd2: &[u8] = &dec_stream;
        enc.on_decoder_recv(&mut rd2).map_err(|e| format!("on_decoder_recv failed on the decoder's own answer ({}) to {} insertions delivered in one read: {e:?}", hex(&dec_stream), blocks.len()))?;
        for (st, b, v) in &blocks {
            let mut rb: &[u8] = b;
            let got = dec.decode_header(&mut rb).map_err(|e| format!("section on stream {st} fails to decode although every instruction was delivered: {e:?}"))?;
            if got.fields.len() != 1 || got.fields[0].name.as_ref() != b"k" || got.fields[0].value.as_ref() != v.as_slice() {
                return Err(format!("section on stream {st} decodes to something else than k: {}", String::from_utf8_lossy(v)));
            }
        }
        Ok(())
    });
    match r {
        Ok(Ok(())) => {
            ctx.class("bulk_delivery");
            ctx.nontrivial(&("bulk", n));
            Ok(())
        }
        Ok(Err(m)) => fail(m),
        Err(p) => fail(format!("panic: {p}")),
    }
}

fn run_direct(d: &Value, ctx: &mut Ctx) -> Verdict {
    match d["kind"].as_str() {
        Some("bulk_delivery") => bulk_delivery_case(d["sections"].as_u64().unwrap_or(65) as usize, ctx),
        _ => Err(Failure::fault("unknown direct case")),
    }
}

fn bulk_family(ctx: &mut Ctx, shard: usize, nshards: usize) -> Verdict {
    for (i, n) in [1usize, 2, 63, 64, 65, 70, 127, 128, 255, 256, 300, 700].into_iter().enumerate() {
        if i % nshards == shard {
            bulk_delivery_case(n, ctx)?;
        }
    }
    if shard == 0 {
        ctx.subspace("bulk delivery of 1, 2, 63, 64, 65, 70, 127, 128, 255, 256, 300, 700 insertions in one read", 12);
    }
    Ok(())
}

fn run_tape(tape: &[u16], ctx: &mut Ctx) -> Verdict {
    let mut t = Tape::new(tape);
    let w = gen_workload(&mut t);
    run_workload(&w, &mut t, ctx)
}

pub fn run_workload(w: &Workload, t: &mut Tape, ctx: &mut Ctx) -> Verdict {
    ctx.eval();
    let mut trace: Vec<String> = Vec::new();
    let res = catch(|| run_inner(w, t, &mut trace, ctx));
    match res {
        Ok(v) => v.map_err(|mut f| {
            f.case = json!({"workload": wl_json(w), "trace": trace, "failure": f.case});
            f
        }),
        Err(p) => Err(Failure::new(format!("panic: {p}"), json!({"workload": wl_json(w), "trace": trace}))),
    }
}

fn run_inner(w: &Workload, t: &mut Tape, trace: &mut Vec<String>, ctx: &mut Ctx) -> Verdict {
    let mut et = DynamicTable::new();
    let mut dt = DynamicTable::new();
    let setup = |e: String| Failure::fault(format!("table setup failed: {e}"));
    et.set_max_size(w.capacity).map_err(|e| setup(format!("{e:?}")))?;
    et.set_max_blocked(w.max_blocked).map_err(|e| setup(format!("{e:?}")))?;
    dt.set_max_size(w.capacity).map_err(|e| setup(format!("{e:?}")))?;
    dt.set_max_blocked(w.max_blocked).map_err(|e| setup(format!("{e:?}")))?;
    let mut enc = Encoder::from(et);
    let mut dec = Decoder::from(dt);
    // reference: applies every instruction at emission time
    let mut rt = RefTable::new(w.capacity as u64);
    let mut rt_pos = 0usize;

    let mut enc_stream: Vec<u8> = Vec::new();
    let mut enc_delivered = 0usize; // bytes handed to the decoder
    let mut dec_inbox: Vec<u8> = Vec::new(); // delivered but not yet consumed by on_encoder_recv
    let mut dec_stream: Vec<u8> = Vec::new();
    let mut dec_delivered = 0usize;
    let mut enc_inbox: Vec<u8> = Vec::new();
    let mut sections: Vec<Section> = Vec::new();
    let mut next = 0usize;

    let mut evictions = 0u32;
    let mut dyn_refs = 0u32;
    let mut blocked_attempts = 0u32;
    let mut late = 0u32;
    let mut acks_delivered = 0u32;
    let mut cancels = 0u32;
    let mut duplicates = 0u32;
    let mut dead: Vec<u64> = Vec::new();
    // a second reference table that follows what the DECODER has consumed (for its insert count)
    let mut dec_rt = RefTable::new(w.capacity as u64);
    let mut dec_consumed: Vec<u8> = Vec::new();
    let mut dec_rt_pos = 0usize;

    let fail = |m: String| Err(Failure::new(m, Value::Null));
    let mut steps = 0;
    loop {
        steps += 1;
        if steps > 5000 {
            return Err(Failure::fault("schedule does not terminate"));
        }
        // enabled moves
        let mut moves: Vec<u8> = Vec::new();
        if next < w.sections.len() {
            moves.push(0);
        }
        if enc_delivered < enc_stream.len() {
            moves.push(1);
        }
        let pending: Vec<usize> = (0..sections.len()).filter(|i| !sections[*i].decoded && !sections[*i].cancelled).collect();
        if !pending.is_empty() {
            moves.push(2);
        }
        // RFC 9204 4.4.1: only sections with a non-zero Required Insert Count are acknowledged
        let ackable: Vec<usize> = (0..sections.len()).filter(|i| sections[*i].decoded && !sections[*i].acked && !sections[*i].cancelled && sections[*i].required > 0).collect();
        if !ackable.is_empty() {
            moves.push(3);
        }
        if dec_delivered < dec_stream.len() {
            moves.push(4);
        }
        if !pending.is_empty() && t.position() % 17 == 3 {
            moves.push(5);
        }
        if moves.is_empty() {
            break;
        }
        // a fully drained tape finishes everything in order
        let m = if t.exhausted() { moves[0].max(if moves.contains(&1) { 1 } else { moves[0] }) } else { moves[t.pick(moves.len())] };
        let m = if t.exhausted() {
            // deterministic epilogue: deliver encoder bytes, decode, ack, deliver acks, then encode the next
            *[1u8, 2, 3, 4, 0].iter().find(|x| moves.contains(x)).unwrap_or(&m)
        } else {
            m
        };
        match m {
            0 => {
                let (stream, fl) = &w.sections[next];
                next += 1;
                // a cancelled stream is gone: nothing further is sent on it; the workload continues on a fresh id
                let remapped = *stream + 4000 * dead.iter().filter(|d| (**d % 4000) == *stream % 4000).count() as u64;
                let stream = &remapped;
                let fields: Vec<Field> = fl.iter().map(|(n, v)| (NAMES[*n].as_bytes().to_vec(), VALUES[*v].as_bytes().to_vec())).collect();
                let hf: Vec<HeaderField> = fields.iter().map(|(n, v)| HeaderField::new(n.clone(), v.clone())).collect();
                let mut block: Vec<u8> = Vec::new();
                let before = enc_stream.len();
                if let Err(e) = enc.encode(*stream, &mut block, &mut enc_stream, hf) {
                    return fail(format!("encode of section {} failed: {e:?}", sections.len()));
                }
                trace.push(format!("encode #{} stream {stream}: block {} enc+{}", sections.len(), hex(&block), hex(&enc_stream[before..])));
                // reference applies the new instructions
                while rt_pos < enc_stream.len() {
                    match rt.apply_instruction(&enc_stream[rt_pos..]) {
                        Ok(Some((n, applied))) => {
                            rt_pos += n;
                            if enc_stream[rt_pos - n] & 0xe0 == 0 {
                                duplicates += 1;
                            }
                            if let Applied::Insert { evicted, abs, .. } = &applied {
                                evictions += evicted.len() as u32;
                                for e in evicted {
                                    if let Some((i, s)) = sections.iter().enumerate().find(|(_, s)| !s.ack_delivered && !s.cancelled && s.refs.contains(e)) {
                                        return fail(format!("the insertion of entry {abs} evicts entry {e}, which is referenced by section #{i} (stream {}) whose acknowledgement has not been delivered to the encoder", s.stream));
                                    }
                                }
                            }
                            if rt.size > rt.capacity {
                                return fail(format!("dynamic table size {} exceeds its capacity {}", rt.size, rt.capacity));
                            }
                        }
                        Ok(None) => return fail(format!("encoder stream ends inside an instruction: {}", hex(&enc_stream[rt_pos..]))),
                        Err(e) => return fail(format!("encoder stream instruction is invalid per RFC 9204: {e:?} at {}", hex(&enc_stream[rt_pos..]))),
                    }
                }
                // (2) independent decoding
                let (refs, required) = match rt.decode_section(&block) {
                    Ok((f, refs, ric)) => {
                        if f != fields {
                            return fail(format!("the reference decoder reads section #{} as {:?}, the encoder was given {:?}", sections.len(), show(&f), show(&fields)));
                        }
                        (refs, ric)
                    }
                    Err(e) => return fail(format!("the reference decoder rejects section #{} ({}): {e:?}", sections.len(), hex(&block))),
                };
                dyn_refs += refs.len() as u32;
                let no_ack = required == 0;
                sections.push(Section { stream: *stream, fields, block, enc_len_at_emit: enc_stream.len(), refs, required, decoded: false, acked: no_ack, ack_delivered: no_ack, cancelled: false, attempts_blocked: 0 });
            }
            1 => {
                let avail = enc_stream.len() - enc_delivered;
                let n = if t.exhausted() { avail } else { 1 + t.pick(avail) };
                dec_inbox.extend_from_slice(&enc_stream[enc_delivered..enc_delivered + n]);
                enc_delivered += n;
                let mut rd: &[u8] = &dec_inbox;
                let before = rd.len();
                match dec.on_encoder_recv(&mut rd, &mut dec_stream) {
                    Ok(_) => {}
                    Err(e) => return fail(format!("on_encoder_recv failed on a legal encoder stream: {e:?}")),
                }
                let used = before - rd.len();
                dec_consumed.extend_from_slice(&dec_inbox[..used]);
                dec_inbox.drain(..used);
                while dec_rt_pos < dec_consumed.len() {
                    match dec_rt.apply_instruction(&dec_consumed[dec_rt_pos..]) {
                        Ok(Some((k, _))) => dec_rt_pos += k,
                        _ => break,
                    }
                }
                trace.push(format!("deliver {n} encoder bytes (consumed {used})"));
            }
            2 => {
                let i = pending[t.pick(pending.len())];
                let complete = enc_delivered >= sections[i].enc_len_at_emit && dec_inbox.is_empty();
                if sections.iter().skip(i + 1).any(|s| s.enc_len_at_emit <= enc_delivered && s.enc_len_at_emit > sections[i].enc_len_at_emit) {
                    late += 1;
                }
                // known finding: the encoder runs more than MaxEntries insertions ahead of the decoder (it evicts entries whose
                // insertion was never acknowledged); the Required Insert Count then lies outside the window RFC 9204 4.5.1.1 can encode
                let max_entries = (w.capacity / 32) as u64;
                if sections[i].required > dec_rt.inserted + max_entries && ctx.known(KNOWN_RIC_WINDOW) {
                    trace.push(format!("decode #{i}: skipped (required insert count {} outside the decoder's window {}+{max_entries})", sections[i].required, dec_rt.inserted));
                    continue;
                }
                let mut rd: &[u8] = &sections[i].block;
                match dec.decode_header(&mut rd) {
                    Ok(d) => {
                        let got: Vec<Field> = d.fields.iter().map(|f| (f.name.to_vec(), f.value.to_vec())).collect();
                        if got != sections[i].fields {
                            return fail(format!("section #{i} decodes to {:?}, the encoder was given {:?}", show(&got), show(&sections[i].fields)));
                        }
                        sections[i].decoded = true;
                        trace.push(format!("decode #{i}: ok"));
                    }
                    Err(e) => {
                        let s = format!("{e:?}");
                        if s.starts_with("MissingRefs") {
                            if complete {
                                return fail(format!("section #{i} is reported as blocked ({s}) although every encoder instruction produced before it has been delivered (required insert count {})", sections[i].required));
                            }
                            sections[i].attempts_blocked += 1;
                            blocked_attempts += 1;
                            trace.push(format!("decode #{i}: blocked"));
                        } else {
                            return fail(format!("section #{i} fails to decode with {s} ({} the instructions it depends on have been delivered); required insert count {}, references {:?}", if complete { "all" } else { "not all" }, sections[i].required, sections[i].refs));
                        }
                    }
                }
            }
            3 => {
                // acknowledge the OLDEST decoded-and-unacked section of some stream (RFC: acks are per stream, in order)
                let i = ackable[t.pick(ackable.len())];
                let stream = sections[i].stream;
                let oldest = (0..sections.len()).find(|k| sections[*k].stream == stream && !sections[*k].acked && !sections[*k].cancelled && sections[*k].required > 0).unwrap();
                if !sections[oldest].decoded {
                    // cannot ack out of order on that stream yet
                    continue;
                }
                ack_header(stream, &mut dec_stream);
                sections[oldest].acked = true;
                trace.push(format!("ack #{oldest} (stream {stream})"));
            }
            4 => {
                let avail = dec_stream.len() - dec_delivered;
                let n = if t.exhausted() { avail } else { 1 + t.pick(avail) };
                enc_inbox.extend_from_slice(&dec_stream[dec_delivered..dec_delivered + n]);
                dec_delivered += n;
                let mut rd: &[u8] = &enc_inbox;
                let before = rd.len();
                if let Err(e) = enc.on_decoder_recv(&mut rd) {
                    return fail(format!("on_decoder_recv failed on a legal decoder stream: {e:?}"));
                }
                let used = before - rd.len();
                // which instructions were consumed? re-parse them with the reference to release sections
                let mut pos = 0;
                while pos < used {
                    let b = &enc_inbox[pos..used];
                    let first = b[0];
                    if first & 0x80 != 0 {
                        // section acknowledgment: 1 stream(7+)
                        let d = crate::reference::qpack::get_int(b, 7).unwrap();
                        let stream = d.value as u64;
                        if let Some(s) = sections.iter_mut().find(|s| s.stream == stream && s.acked && !s.ack_delivered) {
                            s.ack_delivered = true;
                            acks_delivered += 1;
                        }
                        pos += d.used;
                    } else if first & 0x40 != 0 {
                        let d = crate::reference::qpack::get_int(b, 6).unwrap();
                        let stream = d.value as u64;
                        for s in sections.iter_mut().filter(|s| s.stream == stream && s.cancelled) {
                            s.ack_delivered = true;
                        }
                        pos += d.used;
                    } else {
                        let d = crate::reference::qpack::get_int(b, 6).unwrap();
                        pos += d.used;
                    }
                }
                enc_inbox.drain(..used);
                trace.push(format!("deliver {n} decoder bytes (consumed {used})"));
            }
            _ => {
                // cancel a stream: all its not yet decoded sections are abandoned
                let i = pending[t.pick(pending.len())];
                let stream = sections[i].stream;
                // a stream with acknowledged-in-flight sections keeps those; everything undecoded is dropped
                for s in sections.iter_mut().filter(|s| s.stream == stream && !s.acked) {
                    s.cancelled = true;
                }
                dead.push(stream);
                stream_canceled(stream, &mut dec_stream);
                cancels += 1;
                trace.push(format!("cancel stream {stream}"));
            }
        }
    }
    // at the end everything was delivered: every section is decoded (or cancelled)
    if let Some((i, _)) = sections.iter().enumerate().find(|(_, s)| !s.decoded && !s.cancelled) {
        return fail(format!("section #{i} was never decoded"));
    }
    if dyn_refs > 0 {
        ctx.class("dynamic_reference");
    }
    if evictions > 0 {
        ctx.class("eviction");
    }
    if blocked_attempts > 0 {
        ctx.class("blocked_attempt");
    }
    if late > 0 {
        ctx.class("late_delivery");
    }
    if acks_delivered > 0 {
        ctx.class("ack_delivered");
    }
    if cancels > 0 {
        ctx.class("stream_cancelled");
    }
    if duplicates > 0 {
        ctx.class("duplicate_instruction");
    }
    if dyn_refs > 0 && (evictions > 0 || blocked_attempts > 0) {
        ctx.class("nontrivial");
        ctx.nontrivial(&(format!("{:?}", wl_json(w)), trace.len(), enc_stream.clone()));
    }
    ctx.sample(|| json!({"workload": wl_json(w), "encoder_stream_bytes": enc_stream.len(), "dynamic_refs": dyn_refs, "evictions": evictions, "blocked_attempts": blocked_attempts, "trace_len": trace.len()}));
    Ok(())
}

fn show(f: &[Field]) -> Vec<String> {
    f.iter().map(|(n, v)| format!("{}: {}", String::from_utf8_lossy(n), String::from_utf8_lossy(v))).collect()
}

pub fn _d(_: DynErr) {}
