//! C16 - QUIC variable-length integers and stream-id arithmetic match RFC 9000.

use std::convert::TryFrom;

use bytes::Buf;
use h3::proto::push::PushId;
use h3::proto::varint::{BufExt, VarInt};
use h3::quic::StreamId;
use serde_json::{json, Value};

use crate::reference::varint as rv;
use crate::runner::{hex, unhex, Ctx, Failure, PropDef, Tier, Verdict};
use crate::tape::Segs;
use crate::tape::Tape;

pub static PROP: PropDef = PropDef {
    id: "C16",
    rule: "cases: (a) decode of a byte string - from a contiguous buffer and from the same bytes handed over in pieces (a multi-chunk Buf: every cut, every pair of cuts, bytewise; same value, same bytes consumed, same refusal), (b) encode of a value, (c) checked constructors, (d) stream-id queries and id+n; \
           exhaustive over all 1- and 2-byte strings (3-byte in thorough), all values < 2^16, +-2 around 2^6/2^14/2^30/2^62, every truncation of every form; \
           random 62/64-bit values and 1..9 byte strings from the tape. non-trivial = value within +-2 of a form boundary, or a non-minimal encoding, \
           or a truncated encoding, or an increment that saturates; distinct by (kind, input)",
    assumptions: &[
        "reference varint codec written from RFC 9000 section 16 and cross-checked against octets 0.3 (quiche) at start-up",
        "initiator and direction of a StreamId are observed through Display (the accessors are private)",
    ],
    tape_len: 24,
    random_cases: |t| t.pick(6_000_000, 200_000_000),
    run_tape,
    exhaustive: Some(exhaustive),
    run_direct: Some(run_direct),
    min_classes: &[("decode_nonminimal", 1000), ("decode_cut_inside_the_integer", 1000), ("decode_truncated", 100), ("add_saturates", 50), ("ctor_refused", 50)],
    extra: None,
};

const BOUNDS: [u64; 4] = [1 << 6, 1 << 14, 1 << 30, 1 << 62];

fn near_boundary(v: u64) -> bool {
    BOUNDS.iter().any(|b| v + 2 >= *b && v <= *b + 2)
}

/// the same bytes handed over in pieces decode to the same value, consume the same number of bytes and fail alike
fn check_decode_segmented(b: &[u8], cuts: &[usize], ctx: &mut Ctx) -> Verdict {
    ctx.eval();
    let case = || json!({"kind": "decode_segmented", "bytes": hex(b), "cuts": cuts});
    let mut buf = Segs::new(b, cuts);
    let before = buf.remaining();
    let got = crate::runner::catch(|| {
        let r = VarInt::decode(&mut buf);
        (r, buf)
    });
    let (got, buf) = match got {
        Ok(x) => x,
        Err(p) => return Err(Failure::direct(format!("decode over a segmented buffer panicked: {p}"), case())),
    };
    let consumed = before - buf.remaining();
    match rv::decode(b) {
        rv::Dec::Ok(v, n) => {
            match got {
                Ok(x) if x.into_inner() == v && consumed == n => {}
                other => return Err(Failure::direct(format!("decode over chunks cut at {cuts:?}: expected value {v} consuming {n}, got {other:?} consuming {consumed}"), case())),
            }
            // what follows is untouched
            let mut rest = Vec::new();
            let mut buf = buf;
            while buf.has_remaining() {
                let c = buf.chunk().to_vec();
                buf.advance(c.len());
                rest.extend(c);
            }
            if rest != b[n..] {
                return Err(Failure::direct("the bytes after the integer changed", case()));
            }
            let mut g = Segs::new(b, cuts);
            if g.get_var().ok() != Some(v) {
                return Err(Failure::direct("get_var over a segmented buffer disagrees with decode", case()));
            }
            if cuts.iter().any(|c| *c > 0 && *c < n) {
                ctx.class("decode_cut_inside_the_integer");
                ctx.nontrivial(&(2u8, b[..n].to_vec(), cuts.to_vec()));
            }
        }
        rv::Dec::Truncated => {
            if got.is_ok() {
                return Err(Failure::direct(format!("truncated encoding accepted over a segmented buffer: {got:?}"), case()));
            }
            ctx.class("decode_truncated_segmented");
        }
    }
    Ok(())
}

fn check_decode(b: &[u8], ctx: &mut Ctx) -> Verdict {
    ctx.eval();
    let case = || json!({"kind": "decode", "bytes": hex(b)});
    let mut buf: &[u8] = b;
    let got = VarInt::decode(&mut buf);
    let consumed = b.len() - buf.remaining();
    match rv::decode(b) {
        rv::Dec::Ok(v, n) => {
            match got {
                Ok(x) if x.into_inner() == v && consumed == n => {}
                other => return Err(Failure::direct(format!("decode: expected value {v} consuming {n}, got {other:?} consuming {consumed}"), case())),
            }
            if VarInt::encoded_size(b[0]) != n {
                return Err(Failure::direct(format!("encoded_size({:#x}) = {} but the form is {n} bytes", b[0], VarInt::encoded_size(b[0])), case()));
            }
            // get_var agrees
            let mut buf2: &[u8] = b;
            if buf2.get_var().ok() != Some(v) {
                return Err(Failure::direct("get_var disagrees with decode", case()));
            }
            let minimal = rv::min_len(v) == Some(n);
            if !minimal {
                ctx.class("decode_nonminimal");
            }
            if !minimal || near_boundary(v) {
                ctx.nontrivial(&(0u8, b[..n].to_vec()));
            }
            ctx.sample(|| json!({"decode": hex(&b[..n]), "value": v, "minimal": minimal}));
        }
        rv::Dec::Truncated => {
            if got.is_ok() {
                return Err(Failure::direct(format!("truncated encoding accepted: {got:?}"), case()));
            }
            ctx.class("decode_truncated");
            ctx.nontrivial(&(1u8, b.to_vec()));
        }
    }
    Ok(())
}

fn check_value(v: u64, ctx: &mut Ctx) -> Verdict {
    ctx.eval();
    let case = || json!({"kind": "value", "value": v});
    let fits = v <= rv::MAX;
    // checked constructors
    let a = VarInt::from_u64(v);
    let b = VarInt::try_from(v);
    let c = VarInt::try_from(v as usize);
    let s = StreamId::try_from(v);
    let p = PushId::try_from(v);
    if a.is_ok() != fits || b.is_ok() != fits || c.is_ok() != fits || s.is_ok() != fits || p.is_ok() != fits {
        return Err(Failure::direct(
            format!("checked constructors for {v}: from_u64 {} try_from<u64> {} try_from<usize> {} StreamId {} PushId {}, expected ok={fits}", a.is_ok(), b.is_ok(), c.is_ok(), s.is_ok(), p.is_ok()),
            case(),
        ));
    }
    if !fits {
        ctx.class("ctor_refused");
        ctx.nontrivial(&(2u8, v));
        return Ok(());
    }
    let x = a.unwrap();
    if x.into_inner() != v || u64::from(x) != v || s.unwrap().into_inner() != v {
        return Err(Failure::direct("constructor changed the value", case()));
    }
    let mut out = Vec::new();
    x.encode(&mut out);
    let want = rv::encode(v).unwrap();
    if out != want {
        return Err(Failure::direct(format!("encode({v}) = {} expected shortest form {}", hex(&out), hex(&want)), case()));
    }
    if x.size() != want.len() {
        return Err(Failure::direct(format!("size({v}) = {} expected {}", x.size(), want.len()), case()));
    }
    let mut buf: &[u8] = &out;
    match VarInt::decode(&mut buf) {
        Ok(y) if y == x && buf.is_empty() => {}
        other => return Err(Failure::direct(format!("round trip of {v} gives {other:?}"), case())),
    }
    if near_boundary(v) {
        ctx.class("value_near_boundary");
        ctx.nontrivial(&(3u8, v));
    }
    ctx.sample(|| json!({"encode": v, "bytes": hex(&want)}));
    Ok(())
}

fn check_stream_id(raw: u64, n: usize, ctx: &mut Ctx) -> Verdict {
    ctx.eval();
    let case = || json!({"kind": "stream_id", "id": raw, "n": n});
    let id = match StreamId::try_from(raw) {
        Ok(i) => i,
        Err(_) => return Err(Failure::direct("valid stream id refused", case())),
    };
    let client = raw & 1 == 0;
    let bidi = raw & 2 == 0;
    let idx = raw >> 2;
    if id.index() != idx {
        return Err(Failure::direct(format!("index {} expected {idx}", id.index()), case()));
    }
    if id.is_request() != (client && bidi) {
        return Err(Failure::direct("is_request wrong", case()));
    }
    if id.is_push() != (!client && !bidi) {
        return Err(Failure::direct("is_push wrong", case()));
    }
    let want = format!("{} {}directional stream {}", if client { "client" } else { "server" }, if bidi { "bi" } else { "uni" }, idx);
    if id.to_string() != want {
        return Err(Failure::direct(format!("Display '{}' expected '{want}'", id), case()));
    }
    // advancing
    let max_idx: u128 = (1u128 << 60) - 1;
    let want_idx = std::cmp::min(idx as u128 + n as u128, max_idx) as u64;
    let sum = id + n;
    let got = sum.into_inner();
    if got & 3 != raw & 3 || got >> 2 != want_idx || got > rv::MAX {
        return Err(Failure::direct(format!("id {raw} + {n} = {got} (kind {} index {}), expected kind {} index {want_idx}", got & 3, got >> 2, raw & 3), case()));
    }
    let sat = idx as u128 + n as u128 > max_idx;
    if sat {
        ctx.class("add_saturates");
        ctx.nontrivial(&(4u8, raw, n));
    } else if n > 0 {
        ctx.class("add_plain");
    }
    ctx.sample(|| json!({"stream_id": raw, "plus": n, "result": got, "saturated": sat}));
    Ok(())
}

fn exhaustive(ctx: &mut Ctx, shard: usize, nshards: usize) -> Verdict {
    let mine = |i: u64| (i as usize) % nshards == shard;
    // all one and two byte strings
    if mine(0) {
        check_decode(&[], ctx)?;
        for a in 0..=255u8 {
            check_decode(&[a], ctx)?;
        }
        ctx.subspace("all 1-byte strings (decode)", 256);
    }
    for a in 0..=255u8 {
        if !mine(a as u64 + 1) {
            continue;
        }
        for b in 0..=255u8 {
            check_decode(&[a, b], ctx)?;
        }
    }
    ctx.subspace("all 2-byte strings (decode)", 65536);
    if ctx.tier == Tier::Thorough {
        for a in 0..=255u8 {
            if !mine(a as u64 + 3) {
                continue;
            }
            for b in 0..=255u8 {
                for c in 0..=255u8 {
                    check_decode(&[a, b, c], ctx)?;
                }
            }
        }
        ctx.subspace("all 3-byte strings (decode)", 1 << 24);
    }
    // all values below 2^16 (2^20 in thorough)
    let top: u64 = ctx.tier.pick(1 << 16, 1 << 22);
    for v in 0..top {
        if mine(v >> 8) {
            check_value(v, ctx)?;
        }
    }
    ctx.subspace("all values below bound (encode, round trip, constructors)", top);
    if mine(5) {
        // boundaries
        for b in BOUNDS {
            for d in 0..=4u64 {
                let v = b - 2 + d;
                check_value(v, ctx)?;
                // every form that can hold the value, every truncation of it
                for n in [1usize, 2, 4, 8] {
                    if let Some(enc) = rv::encode_len(v, n) {
                        for cut in 0..=enc.len() {
                            check_decode(&enc[..cut], ctx)?;
                        }
                        let mut with_tail = enc.clone();
                        with_tail.extend_from_slice(&[0xff, 0x00]);
                        check_decode(&with_tail, ctx)?;
                        // the same bytes arriving in pieces: every single cut, every pair of cuts, one byte per chunk;
                        // also truncated
                        for a in 0..=with_tail.len() {
                            check_decode_segmented(&with_tail, &[a], ctx)?;
                            for b2 in a..=with_tail.len() {
                                check_decode_segmented(&with_tail, &[a, b2], ctx)?;
                            }
                            if a < enc.len() {
                                check_decode_segmented(&enc[..a], &[a / 2], ctx)?;
                            }
                        }
                        let every: Vec<usize> = (1..with_tail.len()).collect();
                        check_decode_segmented(&with_tail, &every, ctx)?;
                    }
                }
            }
        }
        for v in [u64::MAX, u64::MAX - 1, 1 << 63, (1 << 63) + 1, (1 << 62) + (1 << 61)] {
            check_value(v, ctx)?;
        }
        ctx.subspace("+-2 around 2^6, 2^14, 2^30, 2^62 in every form with every truncation, and in pieces (every cut, every pair of cuts, bytewise)", 4 * 5);
        // stream ids: four kinds x index boundaries x increments
        let idxs: [u64; 8] = [0, 1, 2, 1 << 30, (1 << 60) - 3, (1 << 60) - 2, (1 << 60) - 1, 12345];
        let incs: [usize; 10] = [0, 1, 2, 3, 1 << 32, 1 << 59, 1 << 60, (1 << 60) + 1, usize::MAX - 1, usize::MAX];
        for kind in 0..4u64 {
            for idx in idxs {
                for n in incs {
                    check_stream_id(idx << 2 | kind, n, ctx)?;
                }
            }
        }
        ctx.subspace("stream ids: 4 kinds x 8 indices x 10 increments", 4 * 8 * 10);
    }
    Ok(())
}

fn run_tape(tape: &[u16], ctx: &mut Ctx) -> Verdict {
    let mut t = Tape::new(tape);
    match t.pick(4) {
        0 => {
            // random value, biased towards boundaries
            let v = match t.pick(4) {
                0 => t.u64(),
                1 => t.u64() >> 2,
                2 => {
                    let b = *t.choose(&BOUNDS);
                    b.wrapping_add(t.int(0, 2000)).wrapping_sub(1000)
                }
                _ => t.u64() >> t.pick(64),
            };
            check_value(v, ctx)
        }
        1 => {
            // random byte string 0..9
            let b = t.bytes(9);
            check_decode(&b, ctx)?;
            let cuts = [t.pick(b.len() + 1), t.pick(b.len() + 1), t.pick(b.len() + 1)];
            let mut cuts = cuts.to_vec();
            cuts.sort();
            check_decode_segmented(&b, &cuts, ctx)
        }
        2 => {
            // valid encoding in a random form, random truncation / tail
            let n = *t.choose(&[1usize, 2, 4, 8]);
            let bits = [6, 14, 30, 62][[1usize, 2, 4, 8].iter().position(|x| *x == n).unwrap()];
            let v = t.u64() >> (64 - bits) >> t.pick(bits);
            let mut enc = rv::encode_len(v, n).unwrap();
            if t.bool() {
                let cut = t.pick(enc.len() + 1);
                enc.truncate(cut);
            } else {
                enc.extend(t.bytes(3));
            }
            check_decode(&enc, ctx)?;
            let mut cuts = vec![t.pick(enc.len() + 1), t.pick(enc.len() + 1)];
            cuts.sort();
            check_decode_segmented(&enc, &cuts, ctx)
        }
        _ => {
            let kind = t.pick(4) as u64;
            let idx = match t.pick(3) {
                0 => t.int(0, 1000),
                1 => ((1u64 << 60) - 1).saturating_sub(t.int(0, 1 << 20)),
                _ => t.u64() >> 4,
            };
            let n = match t.pick(4) {
                0 => t.int(0, 10) as usize,
                1 => t.u64() as usize,
                2 => (t.u64() >> 4) as usize,
                _ => (((1u64 << 60) - 1 - idx).wrapping_add(t.int(0, 4)).wrapping_sub(2)) as usize,
            };
            check_stream_id(idx << 2 | kind, n, ctx)
        }
    }
}

fn run_direct(d: &Value, ctx: &mut Ctx) -> Verdict {
    match d.get("kind").and_then(|k| k.as_str()) {
        Some("decode") => check_decode(&unhex(d["bytes"].as_str().unwrap_or("")), ctx),
        Some("decode_segmented") => {
            let cuts: Vec<usize> = d["cuts"].as_array().map(|a| a.iter().map(|x| x.as_u64().unwrap_or(0) as usize).collect()).unwrap_or_default();
            check_decode_segmented(&unhex(d["bytes"].as_str().unwrap_or("")), &cuts, ctx)
        }
        Some("value") => check_value(d["value"].as_u64().unwrap_or(0), ctx),
        Some("stream_id") => check_stream_id(d["id"].as_u64().unwrap_or(0), d["n"].as_u64().unwrap_or(0) as usize, ctx),
        _ => Err(Failure::fault("unknown direct case")),
    }
}
