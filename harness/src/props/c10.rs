//! C10 - Field-section size limit is enforced exactly, in both directions.

use serde_json::{json, Value};

use crate::reference::frames::{self as rf, Ev};
use crate::reference::qpack::{self as rq, Field};
use crate::runner::{Ctx, Failure, PropDef, Verdict};
use crate::simnet::app::*;
use crate::simnet::exec::{shared, Exec, RunEnd, Shared, Signal, Spawner, Style};
use crate::simnet::peer::{self, PeerOp, RawPeer};
use crate::simnet::{Net, Side};
use crate::tape::Tape;

pub static PROP: PropDef = PropDef {
    id: "C10",
    rule: "receive cases: (role, headers|trailers, local limit L, section of reference size s) -> accepted iff s <= L, refusal = HeaderTooBig on that message only, zero close calls, the next request is still accepted; \
           a server answers an oversized request with :status 431 iff 42 <= the client's advertised limit. send cases: (role, headers|trailers, peer limit P or none, size s, SETTINGS processed before or after the call) -> \
           the call succeeds iff s <= P_effective (P when the driver processed SETTINGS before the call, else unlimited) and every HEADERS frame on the wire has reference size <= the limit in effect. \
           sizes sweep L-2..L+2 / P-2..P+2 where a valid message of that size exists (exact sizes are built by padding one value), plus minimal and random sizes; limits {0,1,41,42,43,100,167,204,205,300,1000,65535,2^32,2^62-1} and random. \
           non-trivial = |s - limit| <= 2; distinct by (kind, limit, size, timing)",
    assumptions: &[
        "reference size function sum(name+value+32) over the fields the reference QPACK decoder finds on the wire",
        "a valid request has at least 167 bytes of pseudo fields in this generator, a response 42: smaller boundaries are swept with trailers",
    ],
    tape_len: 120,
    random_cases: |t| t.pick(100_000, 2_000_000),
    run_tape,
    exhaustive: Some(exhaustive),
    run_direct: Some(run_direct),
    min_classes: &[("recv_boundary", 200), ("send_boundary", 200), ("recv_refused", 500), ("recv_accepted", 500), ("send_refused", 200), ("send_ok", 500), ("settings_after_call", 200), ("status_431_sent", 100), ("recv_on_split_half", 200), ("recv_wire_longer_than_decoded", 500), ("settings_while_waiting_for_a_stream", 100), ("send_on_split_half", 200)],
    extra: None,
};

#[derive(Debug, Clone, Copy, PartialEq, Eq, Hash)]
pub enum Kind {
    RecvReqHeaders,
    RecvReqTrailers,
    RecvRespHeaders,
    RecvRespTrailers,
    SendReqHeaders,
    SendReqTrailers,
    SendRespHeaders,
    SendRespTrailers,
}

const KINDS: [Kind; 8] = [Kind::RecvReqHeaders, Kind::RecvReqTrailers, Kind::RecvRespHeaders, Kind::RecvRespTrailers, Kind::SendReqHeaders, Kind::SendReqTrailers, Kind::SendRespHeaders, Kind::SendRespTrailers];

#[derive(Debug, Clone, Copy, PartialEq, Eq, Hash)]
pub struct Case {
    pub kind: Kind,
    /// the limit under test (local for Recv*, advertised by the peer for Send*; None = peer advertises nothing)
    pub limit: Option<u64>,
    pub size: u64,
    /// Send*: SETTINGS are processed before the call
    pub settings_first: bool,
    /// Recv request: limit the raw client advertises (for the 431 answer)
    pub peer_limit: Option<u64>,
    pub tiny: bool,
    /// the call under test is made on a half obtained from `split()` (where a stream exists before the call)
    pub split: bool,
    /// Recv*: how the raw peer spells the section on the wire (its RFC 9114 4.2.2 size is the same in every spelling):
    /// 0 = static references / plain literals, 1 = Huffman literals, 2 = Huffman literals with a padding value of 0xff
    /// bytes (about 3.25 wire bytes per value byte), 3 = plain literals with non-minimal prefixed integers
    pub wire: u8,
    /// SendReqHeaders: send_request is called before the peer's SETTINGS are known and has to wait for a stream (the peer
    /// allows none yet); the SETTINGS are processed during that wait, then the peer grants the stream. What goes out then
    /// goes out under a known limit.
    pub open_wait: bool,
}

/// drain the body, then ask for the trailers
macro_rules! body_then_trailers {
    ($s:expr) => {{
        let mut err = None;
        loop {
            match $s.recv_data().await {
                Ok(Some(_)) => {}
                Ok(None) => break,
                Err(e) => {
                    err = Some(err_info(&e));
                    break;
                }
            }
        }
        match err {
            Some(e) => Err(e),
            None => $s.recv_trailers().await.map(|_| ()).map_err(|e| err_info(&e)),
        }
    }};
}

const REQ_BASE: u64 = 167;
const RESP_BASE: u64 = 42;
const PAD_NAME: &str = "x-pad";

fn req_fields() -> Vec<(String, String)> {
    vec![(":method".into(), "GET".into()), (":scheme".into(), "https".into()), (":authority".into(), "a".into()), (":path".into(), "/".into())]
}

/// fields of a message of kind `k` with exactly `size`, if such a message exists
fn fields_of_size(headers: bool, request: bool, size: u64) -> Option<Vec<(String, String)>> {
    let (mut f, base) = if !headers {
        (Vec::new(), 0)
    } else if request {
        (req_fields(), REQ_BASE)
    } else {
        (vec![(":status".into(), "200".into())], RESP_BASE)
    };
    if size == base {
        return Some(f);
    }
    let pad_min = PAD_NAME.len() as u64 + 32;
    if size < base + pad_min {
        return None;
    }
    let n = size - base - pad_min;
    if n > 300_000 {
        return None;
    }
    f.push((PAD_NAME.into(), "p".repeat(n as usize)));
    Some(f)
}

fn ref_fields(f: &[(String, String)]) -> Vec<Field> {
    f.iter().map(|(n, v)| (n.as_bytes().to_vec(), v.as_bytes().to_vec())).collect()
}

#[derive(Default, Debug, Clone)]
struct Obs {
    accepts: u32,
    driver: Option<ConnInfo>,
    /// result of the call under test
    result: Option<Result<(), ErrInfo>>,
    second: Option<Result<(), ErrInfo>>,
}

fn hm(f: &[(String, String)]) -> http::HeaderMap {
    let mut m = http::HeaderMap::new();
    for (n, v) in f {
        if !n.starts_with(':') {
            m.append(http::HeaderName::from_bytes(n.as_bytes()).unwrap(), http::HeaderValue::from_str(v).unwrap());
        }
    }
    m
}

async fn server_app(net: Net, c: Case, o: Shared<Obs>, go: Signal, sp: Spawner) {
    let mut b = h3::server::builder();
    b.send_grease(false);
    if matches!(c.kind, Kind::RecvReqHeaders | Kind::RecvReqTrailers) {
        if let Some(l) = c.limit {
            b.max_field_section_size(l);
        }
    }
    let mut conn: ServerConn = match b.build(net.conn(Side::Server)).await {
        Ok(x) => x,
        Err(e) => {
            o.borrow_mut().driver = Some(conn_info(&e));
            return;
        }
    };
    loop {
        match conn.accept().await {
            Ok(Some(r)) => {
                let n = {
                    let mut g = o.borrow_mut();
                    g.accepts += 1;
                    g.accepts
                };
                let o2 = o.clone();
                let go = go.clone();
                sp.spawn(format!("handler-{n}"), async move {
                    let first = n == 1;
                    let res = r.resolve_request().await;
                    let mut s = match res {
                        Ok((_req, s)) => {
                            if c.kind == Kind::RecvReqHeaders {
                                if first {
                                    o2.borrow_mut().result = Some(Ok(()));
                                } else {
                                    o2.borrow_mut().second = Some(Ok(()));
                                }
                            }
                            s
                        }
                        Err(e) => {
                            if first {
                                o2.borrow_mut().result = Some(Err(err_info(&e)));
                            } else {
                                o2.borrow_mut().second = Some(Err(err_info(&e)));
                            }
                            return;
                        }
                    };
                    match c.kind {
                        Kind::RecvReqTrailers if first => {
                            let r = if c.split {
                                let (tx, mut rx) = s.split();
                                let r = body_then_trailers!(rx);
                                o2.borrow_mut().result = Some(r);
                                std::future::pending::<()>().await;
                                drop((tx, rx));
                                return;
                            } else {
                                body_then_trailers!(s)
                            };
                            o2.borrow_mut().result = Some(r);
                        }
                        Kind::RecvReqTrailers => o2.borrow_mut().second = Some(Ok(())),
                        Kind::SendRespHeaders => {
                            if c.settings_first {
                                go.wait(0).await;
                            }
                            let f = fields_of_size(true, false, c.size).unwrap();
                            let mut resp = http::Response::builder().status(200).body(()).unwrap();
                            *resp.headers_mut() = hm(&f);
                            if c.split {
                                let (mut tx, rx) = s.split();
                                let r = tx.send_response(resp).await.map_err(|e| err_info(&e));
                                o2.borrow_mut().result = Some(r);
                                let _ = tx.finish().await;
                                std::future::pending::<()>().await;
                                drop((tx, rx));
                                return;
                            }
                            let r = s.send_response(resp).await.map_err(|e| err_info(&e));
                            o2.borrow_mut().result = Some(r);
                            let _ = s.finish().await;
                        }
                        Kind::SendRespTrailers => {
                            if c.split {
                                let (mut tx, rx) = s.split();
                                let _ = tx.send_response(http::Response::builder().status(200).body(()).unwrap()).await;
                                if c.settings_first {
                                    go.wait(0).await;
                                }
                                let f = fields_of_size(false, false, c.size).unwrap();
                                let r = tx.send_trailers(hm(&f)).await.map_err(|e| err_info(&e));
                                o2.borrow_mut().result = Some(r);
                                let _ = tx.finish().await;
                                std::future::pending::<()>().await;
                                drop((tx, rx));
                                return;
                            }
                            let _ = s.send_response(http::Response::builder().status(200).body(()).unwrap()).await;
                            if c.settings_first {
                                go.wait(0).await;
                            }
                            let f = fields_of_size(false, false, c.size).unwrap();
                            let r = s.send_trailers(hm(&f)).await.map_err(|e| err_info(&e));
                            o2.borrow_mut().result = Some(r);
                            let _ = s.finish().await;
                        }
                        _ => {}
                    }
                    std::future::pending::<()>().await;
                });
            }
            Ok(None) => break,
            Err(e) => {
                o.borrow_mut().driver = Some(conn_info(&e));
                break;
            }
        }
    }
    std::future::pending::<()>().await;
    drop(conn);
}

async fn client_app(net: Net, c: Case, o: Shared<Obs>, go: Signal, sp: Spawner) {
    let mut b = h3::client::builder();
    b.send_grease(false);
    if matches!(c.kind, Kind::RecvRespHeaders | Kind::RecvRespTrailers) {
        if let Some(l) = c.limit {
            b.max_field_section_size(l);
        }
    }
    let (conn, mut sr): (ClientConn, SendReq) = match b.build(net.conn(Side::Client)).await {
        Ok(x) => x,
        Err(e) => {
            o.borrow_mut().driver = Some(conn_info(&e));
            return;
        }
    };
    let o2 = o.clone();
    sp.spawn("client-driver", async move {
        let mut conn = conn;
        let e = std::future::poll_fn(|cx| conn.poll_close(cx)).await;
        o2.borrow_mut().driver = Some(conn_info(&e));
        std::future::pending::<()>().await;
        drop(conn);
    });
    // under the tiny-step style every request goes through a clone of the handle (with wire spelling 1: a clone of a clone),
    // made before the peer's SETTINGS can be known: a clone has the limits of the handle it was made from
    let mut originals = Vec::new();
    if c.tiny || c.wire == 1 {
        let cl = sr.clone();
        originals.push(std::mem::replace(&mut sr, cl));
        if c.wire == 1 {
            let cl = sr.clone();
            originals.push(std::mem::replace(&mut sr, cl));
        }
    }
    let small = || http::Request::builder().method("GET").uri("https://a/").body(()).unwrap();
    match c.kind {
        Kind::SendReqHeaders => {
            if c.settings_first && !c.open_wait {
                go.wait(0).await;
            }
            let f = fields_of_size(true, true, c.size).unwrap();
            let mut req = small();
            *req.headers_mut() = hm(&f);
            match sr.send_request(req).await {
                Ok(mut s) => {
                    o.borrow_mut().result = Some(Ok(()));
                    let _ = s.finish().await;
                    std::future::pending::<()>().await;
                }
                Err(e) => o.borrow_mut().result = Some(Err(err_info(&e))),
            }
        }
        Kind::SendReqTrailers => {
            // the request itself goes out before SETTINGS can matter (default: unlimited) unless it fits anyway
            let Ok(mut s) = sr.send_request(small()).await else {
                o.borrow_mut().result = Some(Err(ErrInfo::Undefined));
                std::future::pending::<()>().await;
                return;
            };
            if c.settings_first {
                go.wait(0).await;
            }
            let f = fields_of_size(false, true, c.size).unwrap();
            if c.split {
                let (mut tx, rx) = s.split();
                let r = tx.send_trailers(hm(&f)).await.map_err(|e| err_info(&e));
                o.borrow_mut().result = Some(r);
                let _ = tx.finish().await;
                std::future::pending::<()>().await;
                drop((tx, rx));
                return;
            }
            let r = s.send_trailers(hm(&f)).await.map_err(|e| err_info(&e));
            o.borrow_mut().result = Some(r);
            let _ = s.finish().await;
            std::future::pending::<()>().await;
        }
        Kind::RecvRespHeaders | Kind::RecvRespTrailers => {
            let mut keep = Vec::new();
            for k in 0..2 {
                let Ok(mut s) = sr.send_request(small()).await else { break };
                let r = if c.split && k == 0 {
                    let (mut tx, mut rx) = s.split();
                    let _ = tx.finish().await;
                    let r = match rx.recv_response().await {
                        Err(e) => Err(err_info(&e)),
                        Ok(_) if c.kind == Kind::RecvRespTrailers => body_then_trailers!(rx),
                        Ok(_) => Ok(()),
                    };
                    keep.push((tx, rx));
                    r
                } else {
                    let _ = s.finish().await;
                    match s.recv_response().await {
                        Err(e) => Err(err_info(&e)),
                        Ok(_) if c.kind == Kind::RecvRespTrailers && k == 0 => body_then_trailers!(s),
                        Ok(_) => Ok(()),
                    }
                };
                if k == 0 {
                    o.borrow_mut().result = Some(r);
                } else {
                    o.borrow_mut().second = Some(r);
                }
                go.wait(k as u64).await;
            }
            std::future::pending::<()>().await;
            drop(keep);
        }
        _ => {}
    }
    std::future::pending::<()>().await;
    drop(sr);
    drop(originals);
}

fn case_json(c: &Case) -> Value {
    json!({"kind": format!("{:?}", c.kind), "limit": c.limit.map(|l| l.to_string()), "size": c.size, "settings_first": c.settings_first, "peer_limit": c.peer_limit.map(|l| l.to_string()), "tiny": c.tiny, "split": c.split, "wire": c.wire, "open_wait": c.open_wait})
}

pub fn run_case(c: &Case, sched: &[u16], ctx: &mut Ctx) -> Verdict {
    let recv = matches!(c.kind, Kind::RecvReqHeaders | Kind::RecvReqTrailers | Kind::RecvRespHeaders | Kind::RecvRespTrailers);
    let headers = matches!(c.kind, Kind::RecvReqHeaders | Kind::RecvRespHeaders | Kind::SendReqHeaders | Kind::SendRespHeaders);
    let request = matches!(c.kind, Kind::RecvReqHeaders | Kind::RecvReqTrailers | Kind::SendReqHeaders | Kind::SendReqTrailers);
    // does a message of that size exist?
    let Some(fields) = fields_of_size(headers, request, c.size) else {
        ctx.class("size_not_constructible");
        return Ok(());
    };
    ctx.eval();
    fastrand::seed(9);
    let h3_server = matches!(c.kind, Kind::RecvReqHeaders | Kind::RecvReqTrailers | Kind::SendRespHeaders | Kind::SendRespTrailers);
    let side = if h3_server { Side::Server } else { Side::Client };
    let raw = side.other();
    let net = Net::new();
    net.set_raw(raw);
    if c.open_wait {
        let mut g = net.lock();
        g.ends[Side::Client.idx()].stream_credit[0] = 0;
        g.ends[Side::Client.idx()].grants_frozen = true;
    }
    let o: Shared<Obs> = shared(Obs::default());
    let go = Signal::new();
    let mut ex = Exec::new();
    let sp = ex.spawner.clone();
    if h3_server {
        ex.spawn("server", server_app(net.clone(), *c, o.clone(), go.clone(), sp.clone()));
    } else {
        ex.spawn("client", client_app(net.clone(), *c, o.clone(), go.clone(), sp.clone()));
    }
    // the peer's SETTINGS
    let advertised = if recv { c.peer_limit } else { c.limit };
    let settings: Vec<(u64, u64)> = advertised.map(|l| vec![(0x6, l)]).unwrap_or_default();
    let section = {
        let mut rfields = ref_fields(&fields);
        if c.wire == 2 {
            for f in rfields.iter_mut().filter(|f| f.0 == PAD_NAME.as_bytes()) {
                f.1 = vec![0xff; f.1.len()];
            }
        }
        let block = match c.wire {
            0 => rq::encode_section_simple(&rfields),
            1 | 2 => rq::encode_section_literal(&rfields, true),
            _ => {
                let mut out = Vec::new();
                rq::put_prefix(&mut out, 0, 2);
                for f in &rfields {
                    rq::put_field(&mut out, f, rq::Spelling::Literal { never_index: false, huff_name: false, huff_value: false, redundant: 3 });
                }
                out
            }
        };
        debug_assert_eq!(rq::section_size(&rfields), c.size);
        rf::frame(rf::T_HEADERS, &block)
    };
    let mut ops = Vec::new();
    let preamble = vec![PeerOp::OpenUni(0), PeerOp::Write(0, peer::control_preamble(&settings))];
    match c.kind {
        Kind::RecvReqHeaders => {
            ops.extend(preamble);
            // the 431 answer depends on the client's limit: let the SETTINGS be processed first
            ops.push(PeerOp::Barrier);
            ops.extend([PeerOp::OpenBidi(1), PeerOp::Write(1, section.clone()), PeerOp::Fin(1), PeerOp::Barrier]);
            ops.extend([PeerOp::OpenBidi(2), PeerOp::Write(2, peer::simple_request_headers()), PeerOp::Fin(2)]);
        }
        Kind::RecvReqTrailers => {
            ops.extend(preamble);
            ops.extend([PeerOp::OpenBidi(1), PeerOp::Write(1, peer::simple_request_headers()), PeerOp::Write(1, peer::data_frame(b"body")), PeerOp::Write(1, section.clone()), PeerOp::Fin(1), PeerOp::Barrier]);
            ops.extend([PeerOp::OpenBidi(2), PeerOp::Write(2, peer::simple_request_headers()), PeerOp::Fin(2)]);
        }
        Kind::RecvRespHeaders => {
            ops.extend(preamble);
            ops.extend([PeerOp::Barrier, PeerOp::Adopt(1, 0), PeerOp::Write(1, section.clone()), PeerOp::Fin(1), PeerOp::Barrier, PeerOp::Signal(0), PeerOp::Barrier]);
            ops.extend([PeerOp::Adopt(2, 4), PeerOp::Write(2, peer::simple_response_headers("204")), PeerOp::Fin(2)]);
        }
        Kind::RecvRespTrailers => {
            ops.extend(preamble);
            ops.extend([PeerOp::Barrier, PeerOp::Adopt(1, 0), PeerOp::Write(1, peer::simple_response_headers("200")), PeerOp::Write(1, peer::data_frame(b"body")), PeerOp::Write(1, section.clone()), PeerOp::Fin(1), PeerOp::Barrier, PeerOp::Signal(0), PeerOp::Barrier]);
            ops.extend([PeerOp::Adopt(2, 4), PeerOp::Write(2, peer::simple_response_headers("204")), PeerOp::Fin(2)]);
        }
        Kind::SendReqHeaders if c.open_wait => {
            // the client is parked in send_request (no stream credit); SETTINGS arrive and are processed; then the stream
            ops.push(PeerOp::Barrier);
            ops.extend(preamble);
            ops.extend([PeerOp::Barrier, PeerOp::GrantBidi(1)]);
        }
        Kind::SendReqHeaders => {
            if c.settings_first {
                ops.extend(preamble);
                ops.extend([PeerOp::Barrier, PeerOp::Signal(0)]);
            } else {
                ops.push(PeerOp::Barrier);
                ops.extend(preamble);
            }
        }
        Kind::SendReqTrailers => {
            // the request head goes out first, while no limit is known
            ops.push(PeerOp::Barrier);
            ops.extend(preamble);
            if c.settings_first {
                ops.extend([PeerOp::Barrier, PeerOp::Signal(0)]);
            }
        }
        Kind::SendRespTrailers => {
            // the response head goes out first, while no limit is known
            ops.extend([PeerOp::OpenBidi(1), PeerOp::Write(1, peer::simple_request_headers()), PeerOp::Fin(1), PeerOp::Barrier]);
            ops.extend(preamble);
            if c.settings_first {
                ops.extend([PeerOp::Barrier, PeerOp::Signal(0)]);
            }
        }
        Kind::SendRespHeaders => {
            let req = vec![PeerOp::OpenBidi(1), PeerOp::Write(1, peer::simple_request_headers()), PeerOp::Fin(1)];
            if c.settings_first {
                ops.extend(preamble);
                ops.extend(req);
                ops.extend([PeerOp::Barrier, PeerOp::Signal(0)]);
            } else {
                ops.extend(req);
                ops.push(PeerOp::Barrier);
                ops.extend(preamble);
            }
        }
    }
    let mut peer = RawPeer::new(raw, ops);
    peer.signals.push(go.clone());
    let mut t = Tape::new(sched);
    let style = if c.tiny { Style::Tiny } else if sched.is_empty() { Style::Eager } else { Style::Random };
    let end = ex.run(&net, &mut peer, &mut t, style, 400_000);
    let obs = o.borrow().clone();
    let closes = net.close_calls(side);
    let case = || {
        let mut j = case_json(c);
        j["sched"] = json!(sched);
        j["observed"] = json!(format!("{obs:?}"));
        j["closes"] = json!(format!("{closes:?}"));
        j
    };
    if end == RunEnd::StepBound {
        return Err(Failure::fault("step bound"));
    }
    if let Some((task, p)) = ex.panics().first() {
        return Err(Failure::direct(format!("panic in task {task}: {p}"), case()));
    }
    let fail = |m: String| Err(Failure::direct(m, case()));
    if !closes.is_empty() || obs.driver.is_some() {
        return fail(format!("the size limit must never cause a connection error: closes {closes:?}, driver {:?}", obs.driver));
    }
    if recv {
        let limit = c.limit.unwrap_or((1 << 62) - 1);
        // trailers can only be judged when the message head itself fits the limit
        let head_fits = match c.kind {
            Kind::RecvReqTrailers => 177 <= limit,
            Kind::RecvRespTrailers => 42 <= limit,
            _ => true,
        };
        if !head_fits {
            ctx.class("head_refused_first");
        }
        let fits = c.size <= limit && head_fits;
        match (&obs.result, fits) {
            (Some(Ok(())), true) => ctx.class("recv_accepted"),
            (Some(Err(ErrInfo::HeaderTooBig { .. })), false) => ctx.class("recv_refused"),
            (r, f) => return fail(format!("section of size {} under local limit {limit}: result {r:?}, expected accepted={f}", c.size)),
        }
        // the connection serves the next request
        match c.kind {
            Kind::RecvReqHeaders | Kind::RecvReqTrailers => {
                if obs.accepts != 2 {
                    return fail(format!("accept() handed out {} requests, expected the following request too", obs.accepts));
                }
                let second_fits = 177 <= limit; // simple_request_headers(): 42 + 44 + 53 + 38
                match (&obs.second, second_fits) {
                    (Some(Ok(())), true) | (Some(Err(ErrInfo::HeaderTooBig { .. })), false) => {}
                    (r, _) => return fail(format!("the following request: {r:?}")),
                }
                if c.kind == Kind::RecvReqHeaders && !fits {
                    // 431 iff it fits the client's limit
                    let written = net.written(0, Side::Server);
                    let seg = rf::segment(&written);
                    let status = seg.events.iter().find_map(|e| if let Ev::Headers(h) = e { rq::decode_section(h).ok() } else { None }).and_then(|f| f.iter().find(|(n, _)| n == b":status").map(|(_, v)| v.clone()));
                    let can = c.peer_limit.map(|p| p >= 42).unwrap_or(true);
                    match (status.as_deref(), can) {
                        (Some(b"431"), true) => ctx.class("status_431_sent"),
                        (None, false) => ctx.class("status_431_suppressed"),
                        (s, c2) => return fail(format!("answer to the oversized request: :status {:?}, client limit allows a 431: {c2}", s.map(|x| String::from_utf8_lossy(x).to_string()))),
                    }
                }
            }
            _ => match &obs.second {
                Some(Ok(())) if 42 <= limit => {}
                Some(Err(ErrInfo::HeaderTooBig { .. })) if 42 > limit => {}
                r => return fail(format!("the following response: {r:?}")),
            },
        }
        if c.split {
            ctx.class("recv_on_split_half");
        }
        if c.wire != 0 {
            ctx.class("recv_wire_longer_than_decoded");
        }
        if c.size.abs_diff(limit) <= 2 {
            ctx.class("recv_boundary");
            ctx.nontrivial(c);
        }
    } else {
        let eff = if c.settings_first || c.open_wait { c.limit.unwrap_or(u64::MAX) } else { u64::MAX };
        let fits = c.size <= eff;
        match (&obs.result, fits) {
            (Some(Ok(())), true) => ctx.class("send_ok"),
            (Some(Err(ErrInfo::HeaderTooBig { actual, max })), false) if *actual == c.size && *max == eff => ctx.class("send_refused"),
            (r, f) => return fail(format!("sending a section of size {} under effective peer limit {eff}: {r:?}, expected success={f}", c.size)),
        }
        // monitor: the HEADERS frames on the tested stream. The frame under test is the first (headers) or
        // second (trailers) one; it is on the wire iff the call succeeded, with exactly the reference size
        let seg = rf::segment(&net.written(0, side));
        let mut sizes = Vec::new();
        for e in &seg.events {
            if let Ev::Headers(h) = e {
                match rq::decode_section(h) {
                    Ok(f) => sizes.push(rq::section_size(&f)),
                    Err(e) => return fail(format!("h3 wrote a field section the reference cannot decode: {e:?}")),
                }
            }
        }
        let idx = if headers { 0 } else { 1 };
        match (sizes.get(idx), fits) {
            (Some(sz), true) if *sz == c.size => {}
            (None, false) => {}
            (got, _) => return fail(format!("HEADERS frames on the wire have reference sizes {sizes:?}; frame under test (index {idx}): {got:?}, call allowed: {fits}, size {} limit in effect {eff}", c.size)),
        }
        if !c.settings_first && !c.open_wait {
            ctx.class("settings_after_call");
        }
        if c.open_wait {
            ctx.class("settings_while_waiting_for_a_stream");
        }
        if c.split {
            ctx.class("send_on_split_half");
        }
        if c.limit.map(|l| c.size.abs_diff(l) <= 2).unwrap_or(false) {
            ctx.class("send_boundary");
            ctx.nontrivial(c);
        }
    }
    ctx.sample(|| case_json(c));
    Ok(())
}

/// is there a stream to split before the call under test?

// ------------------------------------------------------------------------------------------------
// both ends h3: a request over the server's limit, the client's own limit decides whether a 431 can be sent

#[derive(Clone, Default)]
struct E2eObs {
    server_resolve: Option<Result<(), ErrInfo>>,
    server_driver: Option<ConnInfo>,
    client_driver: Option<ConnInfo>,
    client_send: Option<Result<(), ErrInfo>>,
    client_response: Option<Result<u16, ErrInfo>>,
}

/// The client sends a request of size `size` before it can know the server's limit `ls`; the client's own limit is `lc`.
/// Whatever the schedule: the refusal stays on that request - a 431, or a stream-level outcome when no 431 can be sent -
/// and neither end reports a connection error or closes the connection.
fn e2e_refusal_case(ls: u64, lc: u64, size: u64, style: Style, sched: &[u16], ctx: &mut Ctx) -> Verdict {
    ctx.eval();
    fastrand::seed(31);
    let Some(fields) = fields_of_size(true, true, size) else { return Ok(()) };
    let net = Net::new();
    let o: Shared<E2eObs> = shared(E2eObs::default());
    let mut ex = Exec::new();
    let sp = ex.spawner.clone();
    let (o1, n1) = (o.clone(), net.clone());
    ex.spawn("server", async move {
        let mut b = h3::server::builder();
        b.send_grease(false).max_field_section_size(ls);
        let mut conn: ServerConn = match b.build(n1.conn(Side::Server)).await {
            Ok(c) => c,
            Err(e) => {
                o1.borrow_mut().server_driver = Some(conn_info(&e));
                return;
            }
        };
        loop {
            match conn.accept().await {
                Ok(Some(r)) => match r.resolve_request().await {
                    Ok((_q, mut s)) => {
                        o1.borrow_mut().server_resolve = Some(Ok(()));
                        // (an application that cannot answer - the client's limit may be below the smallest response - gives
                        // the request up instead of finishing its side with nothing on it: only h3's own paths are judged)
                        match s.send_response(http::Response::builder().status(200).body(()).unwrap()).await {
                            Ok(()) => {
                                let _ = s.finish().await;
                            }
                            Err(_) => s.stop_stream(h3::error::Code::H3_INTERNAL_ERROR),
                        }
                    }
                    Err(e) => o1.borrow_mut().server_resolve = Some(Err(err_info(&e))),
                },
                Ok(None) => break,
                Err(e) => {
                    o1.borrow_mut().server_driver = Some(conn_info(&e));
                    break;
                }
            }
        }
        std::future::pending::<()>().await;
        drop(conn);
    });
    let (o2, n2, sp2) = (o.clone(), net.clone(), sp.clone());
    ex.spawn("client", async move {
        let mut b = h3::client::builder();
        b.send_grease(false).max_field_section_size(lc);
        let Ok((conn, mut sr)): Result<(ClientConn, SendReq), _> = b.build(n2.conn(Side::Client)).await else { return };
        let o3 = o2.clone();
        sp2.spawn("client-driver", async move {
            let mut conn = conn;
            let e = std::future::poll_fn(|cx| conn.poll_close(cx)).await;
            o3.borrow_mut().client_driver = Some(conn_info(&e));
            std::future::pending::<()>().await;
            drop(conn);
        });
        let mut req = http::Request::builder().method("GET").uri("https://a/").body(()).unwrap();
        *req.headers_mut() = hm(&fields[4..]);
        let mut s = match sr.send_request(req).await {
            Ok(s) => s,
            Err(e) => {
                o2.borrow_mut().client_send = Some(Err(err_info(&e)));
                std::future::pending::<()>().await;
                return;
            }
        };
        o2.borrow_mut().client_send = Some(Ok(()));
        let _ = s.finish().await;
        let r = s.recv_response().await.map(|r| r.status().as_u16()).map_err(|e| err_info(&e));
        o2.borrow_mut().client_response = Some(r);
        std::future::pending::<()>().await;
        drop(sr);
    });
    let mut t = Tape::new(sched);
    let end = ex.run(&net, &mut crate::simnet::exec::NoActor, &mut t, style, 200_000);
    let obs = o.borrow().clone();
    let closes = (net.close_calls(Side::Client), net.close_calls(Side::Server));
    let case = || json!({"kind": "e2e_refusal", "server_limit": ls.to_string(), "client_limit": lc.to_string(), "size": size, "style": format!("{style:?}"), "cells": sched, "server_resolve": format!("{:?}", obs.server_resolve), "client_send": format!("{:?}", obs.client_send), "client_response": format!("{:?}", obs.client_response), "drivers": format!("{:?} {:?}", obs.client_driver, obs.server_driver), "closes": format!("{closes:?}")});
    let fail = |m: String| Err(Failure::direct(m, case()));
    if end == RunEnd::StepBound {
        return Err(Failure::fault("step bound"));
    }
    if let Some((task, p)) = ex.panics().first() {
        return fail(format!("panic in task {task}: {p}"));
    }
    if let Some(c) = closes.0.first().or(closes.1.first()) {
        return fail(format!("a request of size {size} sent to a server with limit {ls} by a client with limit {lc}: the connection was closed with {:#x}", c.code));
    }
    if obs.client_driver.is_some() || obs.server_driver.is_some() {
        return fail(format!("a driver reported an error: client {:?}, server {:?}", obs.client_driver, obs.server_driver));
    }
    for r in [obs.client_send.as_ref().and_then(|r| r.as_ref().err()), obs.client_response.as_ref().and_then(|r| r.as_ref().err()), obs.server_resolve.as_ref().and_then(|r| r.as_ref().err())].into_iter().flatten() {
        if r.is_conn() {
            return fail(format!("the refusal of one oversized request was reported as a connection error: {r:?}"));
        }
    }
    match (&obs.client_send, &obs.server_resolve, &obs.client_response) {
        (Some(Err(ErrInfo::HeaderTooBig { .. })), _, _) if size > ls => ctx.class("e2e_refused_by_the_sender"),
        (Some(Ok(())), Some(Ok(())), Some(Ok(200))) if size <= ls => ctx.class("e2e_accepted"),
        (Some(Ok(())), Some(Ok(())), Some(Err(_))) if size <= ls && lc < 42 => ctx.class("e2e_accepted_but_no_response_fits_the_client"),
        (Some(Ok(())), Some(Err(ErrInfo::HeaderTooBig { .. })), Some(Ok(431))) if size > ls && lc >= 42 => ctx.class("e2e_431_received"),
        (Some(Ok(())), Some(Err(ErrInfo::HeaderTooBig { .. })), Some(Err(_))) if size > ls => ctx.class("e2e_refused_without_an_answer"),
        other => return fail(format!("unexpected outcome {other:?}")),
    }
    ctx.nontrivial(&("e2e_refusal", ls, lc, size, sched.to_vec()));
    Ok(())
}

fn e2e_family(ctx: &mut Ctx, shard: usize, nshards: usize) -> Verdict {
    let mut idx = 0usize;
    for ls in [0u64, 12, 167, 168, 300] {
        for lc in [0u64, 41, 42, 43, (1 << 62) - 1] {
            for size in [167u64, 168, 209, 301, 4000] {
                for (si, style) in [Style::Eager, Style::Tiny, Style::Random, Style::Random, Style::Random, Style::Random].into_iter().enumerate() {
                    idx += 1;
                    if idx % nshards != shard {
                        continue;
                    }
                    let cells = crate::tape::prf_cells(idx as u64 + 10_000, 120);
                    e2e_refusal_case(ls, lc, size, style, if si < 2 { &[] } else { &cells }, ctx)?;
                }
            }
        }
    }
    if shard == 0 {
        ctx.subspace("both ends h3: 5 server limits x 5 client limits x 5 request sizes x 6 schedules", idx as u64);
    }
    Ok(())
}

fn splittable(k: Kind) -> bool {
    !matches!(k, Kind::RecvReqHeaders | Kind::SendReqHeaders)
}

const LIMITS: [u64; 14] = [0, 1, 41, 42, 43, 100, 167, 204, 205, 300, 1000, 65535, 1 << 32, (1 << 62) - 1];

fn exhaustive(ctx: &mut Ctx, shard: usize, nshards: usize) -> Verdict {
    e2e_family(ctx, shard, nshards)?;
    let mut idx = 0usize;
    let mut n = 0u64;
    for kind in KINDS {
        for limit in LIMITS.iter().map(|l| Some(*l)).chain([None]) {
            let base = limit.unwrap_or(500);
            let mut sizes: Vec<u64> = (0..5).filter_map(|d| (base + d).checked_sub(2)).collect();
            sizes.extend([0, 33, 42, 75, 79, 167, 204, 209, 500, 4000]);
            sizes.sort();
            sizes.dedup();
            for size in sizes {
                if size > 200_000 {
                    continue;
                }
                for settings_first in [true, false] {
                    for peer_limit in [None, Some(41), Some(42)] {
                        let recv = matches!(kind, Kind::RecvReqHeaders | Kind::RecvReqTrailers | Kind::RecvRespHeaders | Kind::RecvRespTrailers);
                        if recv && !settings_first {
                            continue;
                        }
                        if kind != Kind::RecvReqHeaders && peer_limit.is_some() {
                            continue;
                        }
                        if recv && limit.is_none() && peer_limit.is_some() {
                            continue;
                        }
                        for tiny in [false, true] {
                            for split in [false, true] {
                                if split && !splittable(kind) {
                                    continue;
                                }
                                idx += 1;
                                if idx % nshards != shard {
                                    continue;
                                }
                                for wire in 0..4u8 {
                                    if wire != 0 && (!recv || tiny) {
                                        continue;
                                    }
                                    let c = Case { kind, limit, size, settings_first, peer_limit, tiny, split, wire, open_wait: false };
                                    run_case(&c, &[], ctx)?;
                                    n += 1;
                                    if kind == Kind::SendReqHeaders && !settings_first {
                                        let c = Case { open_wait: true, ..c };
                                        run_case(&c, &[], ctx)?;
                                        n += 1;
                                    }
                                }
                            }
                        }
                    }
                }
            }
        }
    }
    let _ = n;
    if shard == 0 {
        ctx.subspace("8 kinds x 15 limits x sizes {limit-2..limit+2, fixed points} x SETTINGS timing x peer limit x 2 styles x whole stream / split() half x 4 wire spellings of the received section", idx as u64);
    }
    Ok(())
}

fn run_tape(tape: &[u16], ctx: &mut Ctx) -> Verdict {
    let mut t = Tape::new(tape);
    let kind = KINDS[t.pick(8)];
    let limit = match t.pick(5) {
        0 => None,
        1 | 2 => Some(*t.choose(&LIMITS)),
        3 => Some(t.int(0, 3000)),
        _ => Some(t.u64() >> 2 >> t.pick(62)),
    };
    let size = match t.pick(4) {
        0 | 1 => (limit.unwrap_or(300).min(100_000) + t.int(0, 4)).saturating_sub(2),
        2 => t.int(0, 1200),
        _ => t.int(0, 70_000),
    };
    let c = Case { kind, limit, size, settings_first: t.chance(2, 3), peer_limit: if t.bool() { None } else { Some(*t.choose(&[0u64, 41, 42, 43, 1000])) }, tiny: t.chance(1, 4), split: t.bool() && splittable(kind), wire: if t.bool() { 0 } else { t.pick(4) as u8 }, open_wait: kind == Kind::SendReqHeaders && t.chance(1, 3) };
    let mut c = c;
    let recv = matches!(c.kind, Kind::RecvReqHeaders | Kind::RecvReqTrailers | Kind::RecvRespHeaders | Kind::RecvRespTrailers);
    if recv {
        c.settings_first = true;
    }
    if c.kind != Kind::RecvReqHeaders {
        c.peer_limit = None;
    }
    let sched: Vec<u16> = tape[t.position().min(tape.len())..].to_vec();
    run_case(&c, &sched, ctx)
}

fn run_direct(d: &Value, ctx: &mut Ctx) -> Verdict {
    if d["kind"].as_str() == Some("e2e_refusal") {
        let num = |k: &str| d[k].as_str().and_then(|s| s.parse::<u64>().ok()).unwrap_or(0);
        let style = match d["style"].as_str() {
            Some("Eager") => Style::Eager,
            Some("Tiny") => Style::Tiny,
            _ => Style::Random,
        };
        let cells: Vec<u16> = d["cells"].as_array().map(|a| a.iter().map(|x| x.as_u64().unwrap_or(0) as u16).collect()).unwrap_or_default();
        return e2e_refusal_case(num("server_limit"), num("client_limit"), d["size"].as_u64().unwrap_or(0), style, &cells, ctx);
    }
    let kind = KINDS.iter().copied().find(|k| Some(format!("{k:?}").as_str()) == d["kind"].as_str()).ok_or_else(|| Failure::fault("bad kind"))?;
    let num = |k: &str| d[k].as_str().and_then(|s| s.parse::<u64>().ok());
    let c = Case { kind, limit: num("limit"), size: d["size"].as_u64().unwrap_or(0), settings_first: d["settings_first"].as_bool().unwrap_or(true), peer_limit: num("peer_limit"), tiny: d["tiny"].as_bool().unwrap_or(false), split: d["split"].as_bool().unwrap_or(false), wire: d["wire"].as_u64().unwrap_or(0) as u8, open_wait: d["open_wait"].as_bool().unwrap_or(false) };
    let sched: Vec<u16> = d["sched"].as_array().map(|a| a.iter().map(|x| x.as_u64().unwrap_or(0) as u16).collect()).unwrap_or_default();
    run_case(&c, &sched, ctx)
}
