//! C03 - Request streams accept exactly the RFC 9114 4.1 frame sequences.

use bytes::Bytes;
use serde_json::{json, Value};

use crate::reference::frames as rf;
use crate::runner::{Ctx, Failure, PropDef, Tier, Verdict};
use crate::simnet::app::*;
use crate::simnet::exec::{shared, Exec, RunEnd, Shared, Spawner, Style};
use crate::simnet::peer::{self, PeerOp, RawPeer};
use crate::simnet::{Net, Side};
use crate::tape::{prf_cells, Tape};

pub static PROP: PropDef = PropDef {
    id: "C03",
    rule: "case = (role, sequence over the frame alphabet {HEADERS, DATA(0), DATA(n), unknown(0), unknown(n), CANCEL_PUSH, SETTINGS, GOAWAY, MAX_PUSH_ID, PUSH_PROMISE(server only), H2-reserved}, ending FIN/RESET/open, schedule) \
           under the documented call pattern resolve_request|recv_response -> recv_data* -> recv_trailers. oracle: reference automaton of RFC 9114 4.1 (Start -HEADERS-> Body -HEADERS-> Trailers, unknown frames ignored, \
           DATA payload concatenated exactly once in order, end of body only at the second HEADERS or FIN, any other known frame / DATA after trailers / H2-reserved => connection error H3_FRAME_UNEXPECTED with that close code at the transport, \
           FIN before HEADERS on a server => stream error H3_REQUEST_INCOMPLETE and no close). RESET ending: observed results are a prefix of the model's followed by RemoteTerminate{code}; open ending: a prefix followed by a pending call. \
           exhaustive: all sequences of length <= 4 (<= 5 thorough) x 3 endings x 2 roles x 3 schedule styles. non-trivial = sequence with >= 2 frames that reaches Body, or any invalid sequence; distinct by (role, sequence, ending, style)",
    assumptions: &[
        "all frames are individually well formed (malformed layouts are C02's)",
        "a client that receives FIN before HEADERS, or PUSH_PROMISE, is not covered by the statement: not generated / unspecified",
        "simulated transport, see C01",
    ],
    tape_len: 160,
    random_cases: |t| t.pick(400_000, 30_000_000),
    run_tape,
    exhaustive: Some(exhaustive),
    run_direct: Some(run_direct),
    min_classes: &[("invalid_sequence", 5000), ("reaches_body_multi", 5000), ("zero_length_data", 3000), ("ending_reset", 3000), ("ending_open", 3000), ("role_client", 5000), ("split_after_part_of_the_body", 2000), ("role_server", 5000), ("trailers_delivered", 1000)],
    extra: None,
};

#[derive(Debug, Clone, Copy, PartialEq, Eq, Hash)]
pub enum Sym {
    Headers,
    Data0,
    DataN,
    Unknown0,
    UnknownN,
    CancelPush,
    Settings,
    Goaway,
    MaxPushId,
    PushPromise,
    H2Reserved,
}

pub const ALPHABET: [Sym; 11] = [Sym::Headers, Sym::Data0, Sym::DataN, Sym::Unknown0, Sym::UnknownN, Sym::CancelPush, Sym::Settings, Sym::Goaway, Sym::MaxPushId, Sym::H2Reserved, Sym::PushPromise];

#[derive(Debug, Clone, Copy, PartialEq, Eq, Hash)]
pub enum Ending {
    Fin,
    Reset(u64),
    Open,
}

#[derive(Debug, Clone, Copy, PartialEq, Eq)]
enum E {
    ConnFrameUnexpected,
    StreamIncomplete,
    /// statement is silent: anything goes from here on
    Unspecified,
}

/// what the documented call pattern must observe
#[derive(Debug, Clone, PartialEq, Eq)]
enum Step {
    HeadOk,
    HeadErr(E),
    /// end of body reported after exactly these bytes
    BodyEnd(Vec<u8>),
    /// recv_data fails after these bytes
    BodyErr(Vec<u8>, E),
    TrailersSome,
    TrailersNone,
    TrailersErr(E),
    /// the call is still waiting (stream left open); for the body: bytes handed out so far
    PendingHead,
    PendingBody(Vec<u8>),
    PendingTrailers,
}

fn data_payload(i: usize) -> Vec<u8> {
    (0..(3 + i % 5)).map(|k| (i * 16 + k) as u8).collect()
}

fn model(seq: &[Sym], ending: Ending, server: bool) -> Vec<Step> {
    let mut steps = Vec::new();
    // 0 start, 1 body, 2 trailers
    let mut state = 0;
    let mut body = Vec::new();
    for (i, s) in seq.iter().enumerate() {
        let unknown = matches!(s, Sym::Unknown0 | Sym::UnknownN);
        if unknown {
            continue;
        }
        match state {
            0 => match s {
                Sym::Headers => {
                    steps.push(Step::HeadOk);
                    state = 1;
                }
                _ => {
                    steps.push(Step::HeadErr(E::ConnFrameUnexpected));
                    return steps;
                }
            },
            1 => match s {
                Sym::Data0 => {}
                Sym::DataN => body.extend(data_payload(i)),
                Sym::Headers => {
                    steps.push(Step::BodyEnd(body.clone()));
                    state = 2;
                }
                _ => {
                    steps.push(Step::BodyErr(body.clone(), E::ConnFrameUnexpected));
                    return steps;
                }
            },
            _ => {
                steps.push(Step::TrailersErr(E::ConnFrameUnexpected));
                return steps;
            }
        }
    }
    match (state, ending) {
        (0, Ending::Fin) => steps.push(Step::HeadErr(if server { E::StreamIncomplete } else { E::Unspecified })),
        (1, Ending::Fin) => {
            steps.push(Step::BodyEnd(body));
            steps.push(Step::TrailersNone);
        }
        (_, Ending::Fin) => steps.push(Step::TrailersSome),
        (0, _) => steps.push(Step::PendingHead),
        (1, _) => steps.push(Step::PendingBody(body)),
        (_, _) => steps.push(Step::PendingTrailers),
    }
    steps
}

fn frame_bytes(s: Sym, i: usize, server: bool, first_headers: bool) -> Vec<u8> {
    match s {
        Sym::Headers => {
            if !first_headers {
                peer::trailers_frame()
            } else if server {
                peer::post_request_headers()
            } else {
                peer::simple_response_headers("200")
            }
        }
        Sym::Data0 => peer::data_frame(&[]),
        Sym::DataN => peer::data_frame(&data_payload(i)),
        Sym::Unknown0 => rf::frame(if i % 2 == 0 { 0x21 } else { 0x0f }, &[]),
        Sym::UnknownN => rf::frame(if i % 2 == 0 { 0x21 + 0x1f * 7 } else { 0x4a }, b"ignored!"),
        Sym::CancelPush => rf::varint_frame(rf::T_CANCEL_PUSH, 1),
        Sym::Settings => rf::settings_frame(&[(0x6, 4096)]),
        Sym::Goaway => rf::varint_frame(rf::T_GOAWAY, 0),
        Sym::MaxPushId => rf::varint_frame(rf::T_MAX_PUSH_ID, 1),
        Sym::PushPromise => {
            let mut p = vec![0x01];
            p.extend(crate::reference::qpack::encode_section_simple(&[(b":method".to_vec(), b"GET".to_vec())]));
            rf::frame(rf::T_PUSH_PROMISE, &p)
        }
        Sym::H2Reserved => rf::frame(rf::H2_RESERVED[i % 4], if i % 3 == 0 { &[] } else { b"\x00\x00" }),
    }
}

#[derive(Debug, Default, Clone)]
struct Obs {
    head: Option<Result<(), ErrInfo>>,
    body: Vec<u8>,
    body_end: Option<Result<(), ErrInfo>>,
    trailers: Option<Result<bool, ErrInfo>>,
    driver: Option<ConnInfo>,
}

/// recv_data* then recv_trailers on `$s` (a whole request stream or the receive half of a split one); `$bail` runs
/// when recv_data fails
macro_rules! body_and_trailers {
    ($s:expr, $o:expr, $bail:expr) => {{
        loop {
            match $s.recv_data().await {
                Ok(Some(mut b)) => {
                    use bytes::Buf;
                    let c = b.copy_to_bytes(b.remaining());
                    $o.borrow_mut().body.extend_from_slice(&c);
                    // an application does something with a chunk before it asks for the next one: the transport may
                    // move on in between (a reset may arrive while h3 still holds payload it has read ahead)
                    crate::simnet::exec::yield_once().await;
                }
                Ok(None) => {
                    $o.borrow_mut().body_end = Some(Ok(()));
                    break;
                }
                Err(e) => {
                    $o.borrow_mut().body_end = Some(Err(err_info(&e)));
                    $bail
                }
            }
        }
        match $s.recv_trailers().await {
            Ok(t) => $o.borrow_mut().trailers = Some(Ok(t.is_some())),
            Err(e) => $o.borrow_mut().trailers = Some(Err(err_info(&e))),
        }
    }};
}

/// read up to `$k` body chunks on the whole stream `$s` before it is split; evaluates to true when the body already ended
/// there (the stream is then split between the end of the body and the trailers, which are asked for on the receive half)
macro_rules! chunks_before_split {
    ($s:expr, $o:expr, $k:expr, $bail:expr) => {{
        let mut ended = false;
        for _ in 0..$k {
            match $s.recv_data().await {
                Ok(Some(mut b)) => {
                    use bytes::Buf;
                    let c = b.copy_to_bytes(b.remaining());
                    $o.borrow_mut().body.extend_from_slice(&c);
                }
                Ok(None) => {
                    $o.borrow_mut().body_end = Some(Ok(()));
                    ended = true;
                    break;
                }
                Err(e) => {
                    $o.borrow_mut().body_end = Some(Err(err_info(&e)));
                    $bail
                }
            }
        }
        ended
    }};
}

async fn server_app(net: Net, o: Shared<Obs>, sp: Spawner, split: Option<u8>) {
    let mut conn: ServerConn = match h3::server::builder().send_grease(false).build(net.conn(Side::Server)).await {
        Ok(c) => c,
        Err(e) => {
            o.borrow_mut().driver = Some(conn_info(&e));
            return;
        }
    };
    loop {
        match conn.accept().await {
            Ok(Some(resolver)) => {
                let o2 = o.clone();
                sp.spawn("handler", async move {
                    let mut s = match resolver.resolve_request().await {
                        Ok((_req, s)) => {
                            o2.borrow_mut().head = Some(Ok(()));
                            s
                        }
                        Err(e) => {
                            o2.borrow_mut().head = Some(Err(err_info(&e)));
                            return;
                        }
                    };
                    if let Some(k) = split {
                        let ended = chunks_before_split!(s, o2, k, {
                            std::future::pending::<()>().await;
                        });
                        let (tx, mut rx) = s.split();
                        if ended {
                            match rx.recv_trailers().await {
                                Ok(t) => o2.borrow_mut().trailers = Some(Ok(t.is_some())),
                                Err(e) => o2.borrow_mut().trailers = Some(Err(err_info(&e))),
                            }
                            std::future::pending::<()>().await;
                        }
                        body_and_trailers!(rx, o2, {
                            std::future::pending::<()>().await;
                        });
                        std::future::pending::<()>().await;
                        drop((tx, rx));
                        return;
                    }
                    body_and_trailers!(s, o2, {
                        std::future::pending::<()>().await;
                    });
                    // keep the stream alive: dropping it would send STOP_SENDING / FIN, irrelevant here
                    std::future::pending::<()>().await;
                });
            }
            Ok(None) => break,
            Err(e) => {
                o.borrow_mut().driver = Some(conn_info(&e));
                break;
            }
        }
    }
}

async fn client_app(net: Net, o: Shared<Obs>, sp: Spawner, split: Option<u8>) {
    let (conn, mut sr): (ClientConn, SendReq) = match h3::client::builder().send_grease(false).build(net.conn(Side::Client)).await {
        Ok(x) => x,
        Err(e) => {
            o.borrow_mut().driver = Some(conn_info(&e));
            return;
        }
    };
    let o3 = o.clone();
    sp.spawn("client-driver", async move {
        let mut conn = conn;
        let e = std::future::poll_fn(|cx| conn.poll_close(cx)).await;
        o3.borrow_mut().driver = Some(conn_info(&e));
    });
    let req = http::Request::builder().method("GET").uri("https://example.com/").body(()).unwrap();
    let mut s = match sr.send_request(req).await {
        Ok(s) => s,
        Err(e) => {
            o.borrow_mut().head = Some(Err(err_info(&e)));
            return;
        }
    };
    if let Some(k) = split.filter(|k| *k >= 1) {
        // the response head and k body chunks on the whole stream, the rest on the receive half
        let _ = s.finish().await;
        match s.recv_response().await {
            Ok(_) => o.borrow_mut().head = Some(Ok(())),
            Err(e) => {
                o.borrow_mut().head = Some(Err(err_info(&e)));
                std::future::pending::<()>().await;
            }
        }
        let ended = chunks_before_split!(s, o, k, {
            std::future::pending::<()>().await;
        });
        let (tx, mut rx) = s.split();
        if ended {
            match rx.recv_trailers().await {
                Ok(t) => o.borrow_mut().trailers = Some(Ok(t.is_some())),
                Err(e) => o.borrow_mut().trailers = Some(Err(err_info(&e))),
            }
            std::future::pending::<()>().await;
        }
        body_and_trailers!(rx, o, {
            std::future::pending::<()>().await;
        });
        std::future::pending::<()>().await;
        drop((sr, tx, rx));
        return;
    }
    if split.is_some() {
        let (mut tx, mut rx) = s.split();
        let _ = tx.finish().await;
        match rx.recv_response().await {
            Ok(_) => o.borrow_mut().head = Some(Ok(())),
            Err(e) => {
                o.borrow_mut().head = Some(Err(err_info(&e)));
                std::future::pending::<()>().await;
            }
        }
        body_and_trailers!(rx, o, {
            std::future::pending::<()>().await;
        });
        std::future::pending::<()>().await;
        drop((sr, tx, rx));
        return;
    }
    let _ = s.finish().await;
    match s.recv_response().await {
        Ok(_) => o.borrow_mut().head = Some(Ok(())),
        Err(e) => {
            o.borrow_mut().head = Some(Err(err_info(&e)));
            std::future::pending::<()>().await;
        }
    }
    body_and_trailers!(s, o, {
        std::future::pending::<()>().await;
    });
    // keep handles (sr, s) alive: dropping the last SendRequest would close the connection
    std::future::pending::<()>().await;
    drop(sr);
}

fn case_json(server: bool, seq: &[Sym], ending: Ending, style: Style, sched: &[u16], split: Option<u8>) -> Value {
    json!({"split": split, "role": if server { "server" } else { "client" }, "seq": seq.iter().map(|s| format!("{s:?}")).collect::<Vec<_>>(), "ending": format!("{ending:?}"), "style": format!("{style:?}"), "sched": sched})
}

fn err_matches(e: &ErrInfo, want: E) -> bool {
    match want {
        E::ConnFrameUnexpected => matches!(e, ErrInfo::Conn(ConnInfo::Local { code }) if *code == code::FRAME_UNEXPECTED),
        E::StreamIncomplete => matches!(e, ErrInfo::Stream { code } if *code == code::REQUEST_INCOMPLETE),
        E::Unspecified => true,
    }
}

pub fn run_case(server: bool, seq: &[Sym], ending: Ending, style: Style, sched: &[u16], split: Option<u8>, ctx: &mut Ctx) -> Verdict {
    ctx.eval();
    fastrand::seed(11);
    let net = Net::new();
    let h3_side = if server { Side::Server } else { Side::Client };
    let raw_side = h3_side.other();
    net.set_raw(raw_side);
    // under random schedules the transport reports a reset the way quinn does: once, the read after it sees the end of the
    // stream - an error that h3 swallows or defers is then gone for good
    net.lock().reset_once = style == Style::Random;
    let o: Shared<Obs> = shared(Obs::default());
    let mut ex = Exec::new();
    let sp = ex.spawner.clone();
    if server {
        ex.spawn("server", server_app(net.clone(), o.clone(), sp.clone(), split));
    } else {
        ex.spawn("client", client_app(net.clone(), o.clone(), sp.clone(), split));
    }
    let mut ops = vec![PeerOp::OpenUni(0), PeerOp::Write(0, peer::control_preamble(&[]))];
    if server {
        ops.push(PeerOp::OpenBidi(1));
    } else {
        ops.push(PeerOp::Barrier);
        ops.push(PeerOp::Adopt(1, 0));
    }
    let mut first = true;
    for (i, s) in seq.iter().enumerate() {
        ops.push(PeerOp::Write(1, frame_bytes(*s, i, server, first)));
        if *s == Sym::Headers {
            first = false;
        }
    }
    match ending {
        Ending::Fin => ops.push(PeerOp::Fin(1)),
        Ending::Reset(c) => ops.push(PeerOp::Reset(1, c)),
        Ending::Open => {}
    }
    if server && seq.is_empty() && ending == Ending::Open {
        // a stream on which nothing was ever sent does not exist for the peer
        return Ok(());
    }
    let mut peer = RawPeer::new(raw_side, ops);
    let mut t = Tape::new(sched);
    let end = ex.run(&net, &mut peer, &mut t, style, 200_000);
    let obs = o.borrow().clone();
    let case = || {
        let mut c = case_json(server, seq, ending, style, sched, split);
        c["observed"] = json!(format!("{obs:?}"));
        c["closes"] = json!(format!("{:?}", net.close_calls(h3_side)));
        c
    };
    if end == RunEnd::StepBound {
        return Err(Failure::fault("step bound"));
    }
    if let Some((task, p)) = ex.panics().first() {
        return Err(Failure::new(format!("panic in task {task}: {p}"), case()));
    }
    let want = model(seq, ending, server);
    let fail = |m: String| Err(Failure::direct(format!("{m}; model expects {want:?}"), case()));
    let reset_code = if let Ending::Reset(c) = ending { Some(c) } else { None };
    let is_rt = |e: &ErrInfo| matches!((e, reset_code), (ErrInfo::RemoteTerminate { code }, Some(c)) if *code == c);
    // walk the model against the observation
    let mut conn_error_expected = false;
    let mut conn_error_observed_ok = false;
    let mut unspecified = false;
    let mut terminated_early = false;
    let mut idx = 0;
    // ---- head
    match (&obs.head, want.get(idx)) {
        (Some(Ok(())), Some(Step::HeadOk)) => idx += 1,
        (Some(Err(e)), Some(Step::HeadErr(w))) => {
            if *w == E::Unspecified {
                unspecified = true;
            } else if !err_matches(e, *w) && !is_rt(e) {
                return fail(format!("first call failed with {e:?}"));
            }
            if is_rt(e) {
                terminated_early = true;
            }
            if *w == E::ConnFrameUnexpected && !terminated_early {
                conn_error_expected = true;
                conn_error_observed_ok = true;
            }
            idx = want.len();
        }
        (Some(Err(e)), Some(Step::HeadOk | Step::PendingHead)) if is_rt(e) => {
            terminated_early = true;
            idx = want.len();
        }
        (None, Some(Step::PendingHead)) => idx = want.len(),
        (None, Some(Step::HeadErr(E::Unspecified))) => {
            unspecified = true;
            idx = want.len();
        }
        (None, Some(Step::HeadOk)) if reset_code.is_some() => {
            // the reset may overtake everything; then the call must have failed, not hang
            return fail("first call still pending although the stream was reset".to_string());
        }
        (h, w) => return fail(format!("first call: observed {h:?}, expected {w:?}")),
    }
    // ---- body
    if idx < want.len() {
        match (&obs.body_end, &want[idx]) {
            (Some(Ok(())), Step::BodyEnd(b)) => {
                if obs.body != *b {
                    return fail(format!("body {} bytes, expected {} bytes", obs.body.len(), b.len()));
                }
                idx += 1;
            }
            (Some(Err(e)), Step::BodyErr(b, w)) => {
                if is_rt(e) {
                    terminated_early = true;
                    if !b.starts_with(&obs.body) {
                        return fail("body bytes are not a prefix of the sent payload".into());
                    }
                } else {
                    if !err_matches(e, *w) {
                        return fail(format!("recv_data failed with {e:?}"));
                    }
                    if obs.body != *b {
                        return fail(format!("body before the error: {} bytes, expected {}", obs.body.len(), b.len()));
                    }
                    conn_error_expected = true;
                    conn_error_observed_ok = true;
                }
                idx = want.len();
            }
            (Some(Err(e)), Step::BodyEnd(b) | Step::PendingBody(b)) if is_rt(e) => {
                terminated_early = true;
                if !b.starts_with(&obs.body) {
                    return fail("body bytes are not a prefix of the sent payload".into());
                }
                idx = want.len();
            }
            (None, Step::PendingBody(b)) if reset_code.is_none() => {
                if obs.body != *b {
                    return fail(format!("stream left open: {} body bytes handed out, {} were delivered", obs.body.len(), b.len()));
                }
                idx = want.len();
            }
            (b, w) => return fail(format!("body: observed end {b:?} after {} bytes, expected {w:?}", obs.body.len())),
        }
    }
    // ---- trailers
    if idx < want.len() {
        match (&obs.trailers, &want[idx]) {
            (Some(Ok(true)), Step::TrailersSome) | (Some(Ok(false)), Step::TrailersNone) => {}
            (Some(Err(e)), Step::TrailersErr(w)) => {
                if is_rt(e) {
                    terminated_early = true;
                } else {
                    if !err_matches(e, *w) {
                        return fail(format!("recv_trailers failed with {e:?}"));
                    }
                    conn_error_expected = true;
                    conn_error_observed_ok = true;
                }
            }
            (Some(Err(e)), Step::TrailersSome | Step::TrailersNone | Step::PendingTrailers) if is_rt(e) => terminated_early = true,
            (None, Step::PendingTrailers) if reset_code.is_none() => {}
            (t, w) => return fail(format!("trailers: observed {t:?}, expected {w:?}")),
        }
    } else if obs.trailers.is_some() && !matches!(want.last(), Some(Step::TrailersSome | Step::TrailersNone | Step::TrailersErr(_))) && !unspecified {
        return fail(format!("recv_trailers completed with {:?} although the model never gets there", obs.trailers));
    }
    // ---- connection level outcome
    let closes = net.close_calls(h3_side);
    if !unspecified {
        if conn_error_expected && conn_error_observed_ok {
            match closes.first() {
                Some(c) if c.code == code::FRAME_UNEXPECTED => {}
                other => return fail(format!("connection error H3_FRAME_UNEXPECTED was reported to the application but the transport saw close {other:?}")),
            }
            match &obs.driver {
                Some(ConnInfo::Local { code }) if *code == code::FRAME_UNEXPECTED => {}
                other => return fail(format!("driver result {other:?}, expected the H3_FRAME_UNEXPECTED connection error")),
            }
        } else {
            if !closes.is_empty() {
                return fail(format!("no connection error is due, but the connection was closed: {closes:?}"));
            }
            if obs.driver.is_some() {
                return fail(format!("no connection error is due, but the driver ended with {:?}", obs.driver));
            }
        }
    }
    // ---- classification
    let invalid = want.iter().any(|s| matches!(s, Step::HeadErr(_) | Step::BodyErr(..) | Step::TrailersErr(_)));
    let reaches_body = want.iter().any(|s| matches!(s, Step::HeadOk));
    if invalid {
        ctx.class("invalid_sequence");
    }
    if reaches_body && seq.len() >= 2 {
        ctx.class("reaches_body_multi");
    }
    if seq.contains(&Sym::Data0) && reaches_body {
        ctx.class("zero_length_data");
    }
    match ending {
        Ending::Fin => ctx.class("ending_fin"),
        Ending::Reset(_) => ctx.class("ending_reset"),
        Ending::Open => ctx.class("ending_open"),
    }
    if terminated_early {
        ctx.class("reset_overtook");
    }
    if matches!(obs.trailers, Some(Ok(true))) {
        ctx.class("trailers_delivered");
    }
    ctx.class(if server { "role_server" } else { "role_client" });
    if split.is_some() {
        ctx.class("on_split_half");
    }
    if split.map(|k| k >= 1).unwrap_or(false) && !obs.body.is_empty() {
        ctx.class("split_after_part_of_the_body");
    }
    if split.map(|k| k >= 1).unwrap_or(false) && matches!(obs.trailers, Some(Ok(true))) {
        ctx.class("trailers_read_on_a_half_split_late");
    }
    if invalid || (reaches_body && seq.len() >= 2) {
        ctx.nontrivial(&(server, seq.to_vec(), ending, format!("{style:?}"), split));
    }
    ctx.sample(|| case());
    Ok(())
}

fn alphabet(server: bool) -> &'static [Sym] {
    if server {
        &ALPHABET
    } else {
        &ALPHABET[..10]
    }
}

fn exhaustive(ctx: &mut Ctx, shard: usize, nshards: usize) -> Verdict {
    let maxn = ctx.tier.pick(4, 5);
    let mut count = 0u64;
    let mut idx = 0usize;
    for server in [true, false] {
        let a = alphabet(server);
        for n in 0..=maxn {
            let total = a.len().pow(n as u32);
            for code in 0..total {
                idx += 1;
                if idx % nshards != shard {
                    continue;
                }
                let mut seq = Vec::with_capacity(n);
                let mut c = code;
                for _ in 0..n {
                    seq.push(a[c % a.len()]);
                    c /= a.len();
                }
                for ending in [Ending::Fin, Ending::Reset(0x10c), Ending::Open] {
                    for (k, style) in [Style::Eager, Style::Tiny, Style::Random].into_iter().enumerate() {
                        let sched = if style == Style::Random { prf_cells((code as u64) << 8 | (n as u64) << 4 | k as u64, 80) } else { Vec::new() };
                        for split in [None, Some(0u8), Some(1), Some(3)] {
                            run_case(server, &seq, ending, style, &sched, split, ctx)?;
                            count += 1;
                        }
                    }
                }
            }
        }
    }
    let _ = count;
    if shard == 0 {
        let per = |k: usize| (0..=maxn).map(|n| k.pow(n as u32) as u64).sum::<u64>();
        ctx.subspace("all sequences up to the length bound x 3 endings x 3 schedule styles x 2 roles x whole stream / split() before the body / after one / after three body chunks (or at the end of the body, before the trailers)", (per(11) + per(10)) * 36);
    }
    let _ = Tier::Quick;
    Ok(())
}

fn run_tape(tape: &[u16], ctx: &mut Ctx) -> Verdict {
    let mut t = Tape::new(tape);
    let server = t.bool();
    let a = alphabet(server);
    let n = t.int(0, 12) as usize;
    let mut seq = Vec::new();
    for _ in 0..n {
        // bias towards valid sequences so that long ones reach the interesting states
        let s = match t.pick(10) {
            0 => Sym::Headers,
            1 | 2 => Sym::DataN,
            3 => Sym::Data0,
            4 => Sym::UnknownN,
            5 => Sym::Unknown0,
            6 if !seq.contains(&Sym::Headers) => Sym::Headers,
            _ => a[t.pick(a.len())],
        };
        seq.push(s);
    }
    if t.chance(2, 3) && !seq.is_empty() {
        seq[0] = if t.chance(1, 4) { Sym::UnknownN } else { Sym::Headers };
    }
    let ending = match t.pick(4) {
        0 | 1 => Ending::Fin,
        2 => Ending::Reset(*t.choose(&[0x10cu64, 0x100, 0, 0x1234_5678, (1 << 62) - 1])),
        _ => Ending::Open,
    };
    let style = match t.pick(3) {
        0 => Style::Eager,
        1 => Style::Tiny,
        _ => Style::Random,
    };
    let split = if t.chance(2, 5) { Some(t.pick(4) as u8) } else { None };
    let sched: Vec<u16> = tape[t.position().min(tape.len())..].to_vec();
    run_case(server, &seq, ending, style, &sched, split, ctx)
}

fn parse_sym(s: &str) -> Option<Sym> {
    ALPHABET.iter().copied().find(|x| format!("{x:?}") == s)
}

fn run_direct(d: &Value, ctx: &mut Ctx) -> Verdict {
    let server = d["role"].as_str() == Some("server");
    let seq: Vec<Sym> = d["seq"].as_array().map(|a| a.iter().filter_map(|x| x.as_str().and_then(parse_sym)).collect()).unwrap_or_default();
    let e = d["ending"].as_str().unwrap_or("Fin");
    let ending = if e == "Fin" {
        Ending::Fin
    } else if e == "Open" {
        Ending::Open
    } else {
        let code: u64 = e.trim_start_matches("Reset(").trim_end_matches(')').parse().unwrap_or(0x10c);
        Ending::Reset(code)
    };
    let style = match d["style"].as_str() {
        Some("Eager") => Style::Eager,
        Some("Tiny") => Style::Tiny,
        _ => Style::Random,
    };
    let sched: Vec<u16> = d["sched"].as_array().map(|a| a.iter().map(|x| x.as_u64().unwrap_or(0) as u16).collect()).unwrap_or_default();
    run_case(server, &seq, ending, style, &sched, d["split"].as_u64().map(|k| k as u8).or(if d["split"].as_bool() == Some(true) { Some(0) } else { None }), ctx)
}

pub fn _b(_: Bytes) {}
