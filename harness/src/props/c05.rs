//! C05 - One connection error, seen everywhere, never lost between tasks (E3: owned schedules over OS threads).

use std::future::Future;
use std::sync::atomic::{AtomicBool, Ordering};
use std::sync::Arc;
use std::task::{Context, Poll, Wake, Waker};

use bytes::Bytes;
use serde_json::{json, Value};

use crate::interleave::race;
use crate::reference::frames as rf;
use crate::runner::{Ctx, Failure, PropDef, Verdict};
use crate::simnet::app::*;
use crate::simnet::exec::{shared, Exec, NoActor, Shared, Style};
use crate::simnet::peer;
use crate::simnet::{Dir, Net, Side};
use crate::tape::{Odometer, Tape};

pub static PROP: PropDef = PropDef {
    id: "C05",
    rule: "case = scenario (role; driver polled before or never; 1..3 request handles each about to raise a different connection error: H3_FRAME_UNEXPECTED from a wrong frame, QPACK_DECOMPRESSION_FAILED, H3_FRAME_ERROR from a frame cut by FIN, \
           H3_NO_ERROR from the last SendRequest drop, or a transport ApplicationClose surfacing on the streams; optionally an error the driver itself detects in the same poll) x schedule: one OS thread per task performing ONE poll, \
           a baton scheduler decides at every hook point (before connection_error.get, get_or_init, waker.register, waker.wake) which thread runs next. ALL interleavings are enumerated (depth-first over the choice points) for 1 and 2 racing handles; 3 handles are sampled from the tape. \
           oracle: let E be the error whose store step ran first. (1) the driver returned E, or its waker fired and its next poll returns E - parked with the error set is a violation; (2) h3-detected E => exactly one close with E's code at the transport, transport-originated E => none; \
           (3) five further driver polls all return E; (4) no handle ever reports a ConnectionError different from E (variant + code) in the race or in later recv_data / send_data / send_response / finish / send_request calls. \
           non-trivial = a schedule in which a stream's store or wake falls strictly between two driver steps; distinct by (scenario, schedule)",
    assumptions: &["granularity = the hook points; AtomicWaker and OnceLock are treated as atomic (trusted base); weak-memory reorderings between hooked operations are not modelled", "pre-emption points reached through the cfg-guarded hook h3::verif"],
    tape_len: 60,
    random_cases: |t| t.pick(3_000, 120_000),
    run_tape,
    exhaustive: Some(exhaustive),
    run_direct: Some(run_direct),
    min_classes: &[("stream_op_between_driver_steps", 300), ("driver_never_polled", 300), ("driver_polled_before", 300), ("role_client", 300), ("role_server", 300), ("winner_stream", 300), ("winner_driver", 50), ("transport_error", 50), ("dropper", 100)],
    extra: None,
};

struct Flag(AtomicBool);
impl Wake for Flag {
    fn wake(self: Arc<Self>) {
        self.0.store(true, Ordering::SeqCst);
    }
    fn wake_by_ref(self: &Arc<Self>) {
        self.0.store(true, Ordering::SeqCst);
    }
}

#[derive(Debug, Clone, Copy, PartialEq, Eq, Hash)]
pub enum Raise {
    FrameUnexpected,
    Qpack,
    FrameError,
    /// nothing is sent on the stream: its poll meets the transport's connection error (needs transport_close)
    Transport,
    /// nothing is sent on the stream: its read fails with ConnectionErrorIncoming::InternalError (an error inside the
    /// transport glue; h3/src/quic.rs: "h3 will close the connection with H3_INTERNAL_ERROR")
    TransportInternal,
}

#[derive(Debug, Clone, PartialEq, Eq, Hash)]
pub struct Scn {
    pub server: bool,
    pub driver_polled_before: bool,
    pub streams: Vec<Raise>,
    /// transport ApplicationClose(code) delivered before the race: every poll surfaces it
    pub transport_close: Option<u64>,
    /// the peer also closed its control stream: the driver detects H3_CLOSED_CRITICAL_STREAM itself
    pub driver_own_error: bool,
    /// client: one more thread drops the last SendRequest (H3_NO_ERROR)
    pub dropper: bool,
    /// the application gives the connection up right after the race - the driver is dropped, not polled again
    pub drop_driver: bool,
    /// server: the connection is polled the way h3-webtransport's `accept_uni()` does it - through
    /// `inner.poll_accept_recv()` alone, from a task that has not polled it before (a session moved to a task of its own)
    pub recv_only: bool,
    /// server (with drop_driver): the connection is not polled in the race but dropped in it - dropping is the server's way of
    /// closing with H3_NO_ERROR, and it takes part in the election of the connection's outcome like the drop of the client's last
    /// SendRequest does
    pub drop_races: bool,
}

fn raise_code(r: Raise) -> u64 {
    match r {
        Raise::FrameUnexpected => code::FRAME_UNEXPECTED,
        Raise::Qpack => code::QPACK_DECOMPRESSION_FAILED,
        Raise::FrameError => code::FRAME_ERROR,
        Raise::Transport => 0,
        Raise::TransportInternal => code::INTERNAL_ERROR,
    }
}

enum DriverObj {
    Client(ClientConn),
    Server(ServerConn),
}

enum StreamObj {
    Client(ClientStream),
    Server(ServerStream),
}

enum Out {
    Driver(DriverObj, Poll<ConnInfo>),
    Stream(StreamObj, Option<Result<(), ErrInfo>>),
    Dropped,
}

fn poll_driver(d: &mut DriverObj, cx: &mut Context<'_>) -> Poll<ConnInfo> {
    match d {
        DriverObj::Client(c) => c.poll_close(cx).map(|e| conn_info(&e)),
        DriverObj::Server(c) => match c.poll_accept_request_stream(cx) {
            Poll::Pending => Poll::Pending,
            Poll::Ready(Err(e)) => Poll::Ready(conn_info(&e)),
            // a new stream or a clean end is not an error: report as "pending" (nothing to say about errors)
            Poll::Ready(Ok(_)) => Poll::Pending,
        },
    }
}

fn scn_json(s: &Scn) -> Value {
    json!({"role": if s.server { "server" } else { "client" }, "driver_polled_before": s.driver_polled_before, "streams": s.streams.iter().map(|r| format!("{r:?}")).collect::<Vec<_>>(), "transport_close": s.transport_close, "driver_own_error": s.driver_own_error, "dropper": s.dropper, "drop_driver": s.drop_driver, "recv_only": s.recv_only, "drop_races": s.drop_races})
}

fn bad_bytes(r: Raise, server: bool) -> (Vec<u8>, bool) {
    // what the raw peer writes on the request stream so that ONE poll of the racing call raises the error
    match (r, server) {
        // client: recv_response
        (Raise::FrameUnexpected, false) => (peer::data_frame(b"x"), false),
        (Raise::Qpack, false) => (rf::frame(rf::T_HEADERS, &[0x00, 0x00, 0xff, 0x24]), false),
        (Raise::FrameError, false) => (vec![0x01, 0x05, 0x00], true),
        // server: recv_data after a resolved request
        (Raise::FrameUnexpected, true) => (rf::varint_frame(rf::T_CANCEL_PUSH, 1), false),
        (Raise::Qpack, true) => (rf::frame(0x09, &[]), false), // H2 reserved => also H3_FRAME_UNEXPECTED on this path
        (Raise::FrameError, true) => (vec![0x00, 0x09, 0x01], true),
        (Raise::Transport, _) | (Raise::TransportInternal, _) => (vec![], false),
    }
}

fn server_code(r: Raise) -> u64 {
    match r {
        Raise::Qpack => code::FRAME_UNEXPECTED,
        other => raise_code(other),
    }
}

/// schedule choice source: either the odometer / a tape
pub fn run_scn(s: &Scn, t: &mut Tape, ctx: &mut Ctx) -> Verdict {
    match crate::runner::catch(|| run_scn_inner(s, t, ctx)) {
        Ok(v) => v,
        Err(p) => Err(Failure::direct(format!("panic outside the racing polls (preparation or later calls): {p}"), json!({"scenario": scn_json(s)}))),
    }
}

fn run_scn_inner(s: &Scn, t: &mut Tape, ctx: &mut Ctx) -> Verdict {
    ctx.eval();
    fastrand::seed(37);
    let net = Net::new();
    let side = if s.server { Side::Server } else { Side::Client };
    let raw = side.other();
    net.set_raw(raw);
    let empty: [u16; 0] = [];
    let k = s.streams.len();
    // ---------------------------------------------------------------- preparation (single threaded)
    let mut ex = Exec::new();
    let mut driver: DriverObj;
    let mut streams: Vec<StreamObj> = Vec::new();
    let mut sr_slot: Option<SendReq> = None;
    let dflag = Arc::new(Flag(AtomicBool::new(false)));
    let dwaker = Waker::from(dflag.clone());
    let ctl = net.raw_open(raw, Dir::Uni);
    net.raw_write(raw, ctl, &peer::control_preamble(&[]));
    if s.server {
        let slot: Shared<Option<ServerConn>> = shared(None);
        let (n2, s2) = (net.clone(), slot.clone());
        ex.spawn("build", async move {
            if let Ok(c) = h3::server::builder().send_grease(false).build(n2.conn(Side::Server)).await {
                *s2.borrow_mut() = Some(c);
            }
        });
        ex.run(&net, &mut NoActor, &mut Tape::new(&empty), Style::Eager, 100_000);
        let Some(mut conn) = slot.borrow_mut().take() else { return Err(Failure::fault("server build failed")) };
        // the peer opens k requests with valid headers; the driver accepts them (so it has been polled before)
        for _ in 0..k {
            let id = net.raw_open(raw, Dir::Bidi);
            net.raw_write(raw, id, &peer::post_request_headers());
        }
        ex.run(&net, &mut NoActor, &mut Tape::new(&empty), Style::Eager, 100_000);
        let mut resolvers = Vec::new();
        let mut cx = Context::from_waker(&dwaker);
        for _ in 0..(k + 2) {
            if let Poll::Ready(Ok(Some(st))) = conn.poll_accept_request_stream(&mut cx) {
                resolvers.push(conn.create_resolver(h3::frame::FrameStream::new(h3::stream::BufRecvStream::new(st))));
            }
        }
        if resolvers.len() != k {
            return Err(Failure::fault(format!("prepared {} of {k} requests", resolvers.len())));
        }
        let out: Shared<Vec<ServerStream>> = shared(Vec::new());
        for r in resolvers {
            let o2 = out.clone();
            ex.spawn("resolve", async move {
                if let Ok((_q, st)) = r.resolve_request().await {
                    o2.borrow_mut().push(st);
                }
            });
        }
        ex.run(&net, &mut NoActor, &mut Tape::new(&empty), Style::Eager, 100_000);
        let v: Vec<ServerStream> = out.borrow_mut().drain(..).collect();
        if v.len() != k {
            return Err(Failure::fault("resolve failed in preparation"));
        }
        let mut v = v;
        v.sort_by_key(|st| st.id().into_inner());
        streams.extend(v.into_iter().map(StreamObj::Server));
        driver = DriverObj::Server(conn);
    } else {
        let slot: Shared<Option<(ClientConn, SendReq)>> = shared(None);
        let (n2, s2) = (net.clone(), slot.clone());
        ex.spawn("build", async move {
            if let Ok(x) = h3::client::builder().send_grease(false).build::<_, _, Bytes>(n2.conn(Side::Client)).await {
                *s2.borrow_mut() = Some(x);
            }
        });
        ex.run(&net, &mut NoActor, &mut Tape::new(&empty), Style::Eager, 100_000);
        let Some((conn, sr)) = slot.borrow_mut().take() else { return Err(Failure::fault("client build failed")) };
        driver = DriverObj::Client(conn);
        if s.driver_polled_before {
            let mut cx = Context::from_waker(&dwaker);
            if poll_driver(&mut driver, &mut cx).is_ready() {
                return Err(Failure::fault("driver ended during preparation"));
            }
            dflag.0.store(false, Ordering::SeqCst);
        }
        let out: Shared<Vec<ClientStream>> = shared(Vec::new());
        let srs: Shared<Option<SendReq>> = shared(None);
        let (o2, srs2) = (out.clone(), srs.clone());
        ex.spawn("requests", async move {
            let mut sr = sr;
            for _ in 0..k {
                let req = http::Request::builder().method("GET").uri("https://example.com/").body(()).unwrap();
                if let Ok(mut st) = sr.send_request(req).await {
                    let _ = st.finish().await;
                    o2.borrow_mut().push(st);
                }
            }
            *srs2.borrow_mut() = Some(sr);
        });
        ex.run(&net, &mut NoActor, &mut Tape::new(&empty), Style::Eager, 100_000);
        let v: Vec<ClientStream> = out.borrow_mut().drain(..).collect();
        if v.len() != k {
            return Err(Failure::fault("send_request failed in preparation"));
        }
        streams.extend(v.into_iter().map(StreamObj::Client));
        sr_slot = srs.borrow_mut().take();
    }
    // the peer's bad bytes, delivered but not yet looked at
    for (i, r) in s.streams.iter().enumerate() {
        let (b, fin) = bad_bytes(*r, s.server);
        net.raw_write(raw, 4 * i as u64, &b);
        if fin {
            net.raw_fin(raw, 4 * i as u64);
        }
    }
    if s.driver_own_error {
        net.raw_fin(raw, ctl);
    }
    if let Some(c) = s.transport_close {
        net.raw_close(raw, c);
    }
    for (i, r) in s.streams.iter().enumerate() {
        if *r == Raise::TransportInternal {
            if let Some(p) = net.lock().pipes.get_mut(&(4 * i as u64, raw)) {
                p.inject_internal = Some("injected transport glue error".into());
            }
        }
    }
    ex.run(&net, &mut NoActor, &mut Tape::new(&empty), Style::Eager, 100_000);
    // wake-ups caused by the deliveries above are real: the driver's flag may legitimately be set already
    // ---------------------------------------------------------------- race
    // (recv_only: the task that polls from here on is not the one that has polled during the preparation)
    let (dflag, dwaker) = if s.recv_only {
        let f = Arc::new(Flag(AtomicBool::new(false)));
        (f.clone(), Waker::from(f))
    } else {
        (dflag, dwaker)
    };
    let mut jobs: Vec<Box<dyn FnOnce() -> Out>> = Vec::new();
    let stream_flags: Vec<Arc<Flag>> = (0..k).map(|_| Arc::new(Flag(AtomicBool::new(false)))).collect();
    {
        let w = dwaker.clone();
        let mut d = driver;
        let recv_only = s.recv_only;
        let drop_races = s.drop_races;
        jobs.push(Box::new(move || {
            if drop_races {
                drop(d);
                return Out::Dropped;
            }
            let mut cx = Context::from_waker(&w);
            let r = match (&mut d, recv_only) {
                (DriverObj::Server(c), true) => match c.inner.poll_accept_recv(&mut cx) {
                    Ok(()) => Poll::Pending,
                    Err(e) => Poll::Ready(conn_info(&e)),
                },
                _ => poll_driver(&mut d, &mut cx),
            };
            Out::Driver(d, r)
        }));
    }
    for (i, st) in streams.into_iter().enumerate() {
        let w = Waker::from(stream_flags[i].clone());
        jobs.push(Box::new(move || {
            let mut cx = Context::from_waker(&w);
            match st {
                StreamObj::Client(mut c) => {
                    let r = {
                        let mut fut = Box::pin(c.recv_response());
                        match fut.as_mut().poll(&mut cx) {
                            Poll::Ready(r) => Some(r.map(|_| ()).map_err(|e| err_info(&e))),
                            Poll::Pending => None,
                        }
                    };
                    Out::Stream(StreamObj::Client(c), r)
                }
                StreamObj::Server(mut c) => {
                    let r = match c.poll_recv_data(&mut cx) {
                        Poll::Ready(r) => Some(r.map(|_| ()).map_err(|e| err_info(&e))),
                        Poll::Pending => None,
                    };
                    Out::Stream(StreamObj::Server(c), r)
                }
            }
        }));
    }
    let mut sr_keep = sr_slot;
    if s.dropper && !s.server {
        let sr = sr_keep.take();
        jobs.push(Box::new(move || {
            drop(sr);
            Out::Dropped
        }));
    }
    let njobs = jobs.len();
    let (results, log) = race(jobs, &mut |enabled| t.pick(enabled.len()));
    // ---------------------------------------------------------------- judge
    let mut driver_obj: Option<DriverObj> = None;
    let mut driver_res: Option<Poll<ConnInfo>> = None;
    let mut stream_objs: Vec<(StreamObj, Option<Result<(), ErrInfo>>)> = Vec::new();
    let mut panic: Option<String> = None;
    for r in results {
        match r {
            Ok(Out::Driver(d, p)) => {
                driver_obj = Some(d);
                driver_res = Some(p);
            }
            Ok(Out::Stream(st, r)) => stream_objs.push((st, r)),
            Ok(Out::Dropped) => {}
            Err(p) => panic = Some(p),
        }
    }
    let log_show: Vec<String> = log.iter().map(|(i, p)| format!("{}:{p}", if *i == 0 { "driver".to_string() } else if *i <= k { format!("stream{}", i - 1) } else { "dropper".to_string() })).collect();
    let closes = net.close_calls(side);
    let race_results: Vec<String> = stream_objs.iter().map(|(_, r)| format!("{r:?}")).collect();
    let dres = format!("{driver_res:?}");
    let case = |extra: &str| json!({"scenario": scn_json(s), "schedule": log_show, "driver_race_result": dres, "stream_race_results": race_results, "closes": format!("{closes:?}"), "note": extra});
    if let Some(p) = panic {
        return Err(Failure::direct(format!("panic in a racing poll: {p}"), case("")));
    }
    let _ = njobs;
    // E = the error whose store step ran first
    let first_store = log.iter().find(|(_, p)| *p == "error.store").map(|(i, _)| *i);
    let expected: Option<ConnInfo> = first_store.map(|i| {
        if i == 0 && s.drop_races {
            ConnInfo::Local { code: code::NO_ERROR }
        } else if i == 0 {
            // the driver: the transport's error, or the closed control stream
            match s.transport_close {
                Some(c) => ConnInfo::RemoteApp { code: c },
                None => ConnInfo::Local { code: code::CLOSED_CRITICAL_STREAM },
            }
        } else if i <= k {
            match s.streams[i - 1] {
                // a handle whose bad input is complete raises its own protocol error (delivered data stays readable after a close)
                Raise::Transport => ConnInfo::RemoteApp { code: s.transport_close.unwrap_or(0) },
                Raise::TransportInternal => ConnInfo::RemoteInternal,
                r => ConnInfo::Local { code: if s.server { server_code(r) } else { raise_code(r) } },
            }
        } else {
            ConnInfo::Local { code: code::NO_ERROR }
        }
    });
    let fail = |m: String| Err(Failure::direct(m, case("")));
    let Some(e) = expected else {
        // nobody stored an error (e.g. the driver accepted nothing): nothing to judge
        ctx.class("no_error_raised");
        return Ok(());
    };
    // (4) racing polls
    for (i, (_, r)) in stream_objs.iter().enumerate() {
        match r {
            Some(Err(ErrInfo::Conn(c))) if *c != e => return fail(format!("stream {i} reported connection error {c:?}, but the connection's error is {e:?}")),
            Some(Err(ErrInfo::Conn(_))) => {}
            Some(other) => return fail(format!("stream {i}: the racing poll returned {other:?}, a connection error was due")),
            None => return fail(format!("stream {i}: the racing poll is pending although its input was complete")),
        }
    }
    if s.drop_driver {
        // the application gives the connection up without polling the driver again: whatever closes the QUIC connection now
        // (h3 does so when a server connection is dropped) uses the code of the error h3 has detected. QUIC keeps the first
        // close, so that is the one judged.
        let seen = matches!(driver_res, Some(Poll::Ready(_)));
        drop(driver_obj.take());
        let closes = net.close_calls(side);
        if let ConnInfo::Local { code } = &e {
            if closes.first().map(|c| c.code) != Some(*code) {
                if s.drop_races {
                    return fail(format!("the connection was dropped while a request handle raised an error; the first outcome stored is {e:?} and every handle reports it, but the transport saw {closes:?}: the QUIC connection must be closed with exactly that code"));
                }
                return fail(format!("h3 detected {e:?}, then the connection was dropped without another poll: the QUIC connection must be closed with that code, the transport saw {closes:?}"));
            }
        }
        drop(stream_objs);
        drop(sr_keep);
        ctx.class(if s.server { "role_server" } else { "role_client" });
        ctx.class(if s.drop_races { "connection_dropped_in_the_race" } else if seen { "driver_dropped_after_it_saw_the_error" } else { "driver_dropped_before_it_saw_the_error" });
        ctx.nontrivial(&(s.clone(), log.clone()));
        return Ok(());
    }
    // (1) driver
    let mut d = driver_obj.expect("driver");
    let dw = Waker::from(dflag.clone());
    let mut cx = Context::from_waker(&dw);
    match driver_res.unwrap() {
        Poll::Ready(c) => {
            if c != e {
                return fail(format!("the driver reported {c:?}, but the first error stored is {e:?}"));
            }
        }
        Poll::Pending => {
            if !dflag.0.load(Ordering::SeqCst) {
                return fail(format!("the connection error {e:?} is set but the driver returned Pending and its waker never fired: it stays parked forever"));
            }
            match poll_driver(&mut d, &mut cx) {
                Poll::Ready(c) if c == e => {}
                other => return fail(format!("the driver was woken but its next poll returned {other:?}, expected {e:?}")),
            }
        }
    }
    // (3) later driver calls
    for n in 0..5 {
        match poll_driver(&mut d, &mut cx) {
            Poll::Ready(c) if c == e => {}
            other => return fail(format!("later driver poll #{n} returned {other:?}, expected {e:?}")),
        }
    }
    // (3b) shutdown() is a driver call too: it reports the connection's error instead of pretending to start a graceful shutdown
    for n in [0usize, 3] {
        let r = match &mut d {
            DriverObj::Client(c) => {
                let mut f = Box::pin(c.shutdown(n));
                f.as_mut().poll(&mut cx).map(|r| r.map_err(|x| conn_info(&x)))
            }
            DriverObj::Server(c) => {
                let mut f = Box::pin(c.shutdown(n));
                f.as_mut().poll(&mut cx).map(|r| r.map_err(|x| conn_info(&x)))
            }
        };
        match r {
            Poll::Ready(Err(c)) if c == e => {}
            other => return fail(format!("shutdown({n}) on the driver after the connection error returned {other:?}, expected {e:?}")),
        }
    }
    // (2) transport
    let closes = net.close_calls(side);
    match &e {
        ConnInfo::Local { code } => {
            if closes.len() != 1 || closes[0].code != *code {
                return fail(format!("h3 detected {e:?}: the transport must see exactly one close with that code, saw {closes:?}"));
            }
        }
        ConnInfo::RemoteInternal => {
            // documented on the trait: an InternalError of the transport glue makes h3 close with H3_INTERNAL_ERROR
            if closes.len() != 1 || closes[0].code != code::INTERNAL_ERROR {
                return fail(format!("the transport glue reported an InternalError: h3 closes with H3_INTERNAL_ERROR (h3/src/quic.rs), saw {closes:?}"));
            }
            ctx.class("transport_internal_error");
        }
        _ => {
            if !closes.is_empty() {
                return fail(format!("transport-originated {e:?}: h3 must not call close, saw {closes:?}"));
            }
        }
    }
    // (4) later calls on every handle
    let noop = futures_util::task::noop_waker();
    let mut ncx = Context::from_waker(&noop);
    let mut later: Vec<ErrInfo> = Vec::new();
    for (st, _) in stream_objs.iter_mut() {
        match st {
            StreamObj::Client(c) => {
                // (after a failed receive call only that call is repeated: recv_trailers while a DATA frame is
                // unread is outside the documented call pattern and panics by design)
                if let Poll::Ready(Err(x)) = c.poll_recv_data(&mut ncx) {
                    later.push(err_info(&x));
                }
                {
                    let mut f = Box::pin(c.send_data(Bytes::from_static(b"late")));
                    if let Poll::Ready(Err(x)) = f.as_mut().poll(&mut ncx) {
                        later.push(err_info(&x));
                    }
                }
                let mut f = Box::pin(c.finish());
                if let Poll::Ready(Err(x)) = f.as_mut().poll(&mut ncx) {
                    later.push(err_info(&x));
                }
            }
            StreamObj::Server(c) => {
                // (recv_trailers in the middle of a DATA frame is outside the documented call pattern and panics by
                // design - frame::tests::poll_next_reamining_data - so the failed recv_data is only repeated)
                if let Poll::Ready(Err(x)) = c.poll_recv_data(&mut ncx) {
                    later.push(err_info(&x));
                }
                {
                    let mut f = Box::pin(c.send_response(http::Response::builder().status(200).body(()).unwrap()));
                    if let Poll::Ready(Err(x)) = f.as_mut().poll(&mut ncx) {
                        later.push(err_info(&x));
                    }
                }
                let mut f = Box::pin(c.finish());
                if let Poll::Ready(Err(x)) = f.as_mut().poll(&mut ncx) {
                    later.push(err_info(&x));
                }
            }
        }
    }
    if let Some(sr) = sr_keep.as_mut() {
        let req = http::Request::builder().method("GET").uri("https://example.com/").body(()).unwrap();
        let mut f = Box::pin(sr.send_request(req));
        if let Poll::Ready(Err(x)) = f.as_mut().poll(&mut ncx) {
            later.push(err_info(&x));
        }
    }
    for x in &later {
        if let ErrInfo::Conn(c) = x {
            if *c != e {
                return fail(format!("a later call on a handle reported connection error {c:?}, the connection's error is {e:?}"));
            }
        }
    }
    // the last SendRequest must not be dropped before the judgement (it would raise H3_NO_ERROR, a legal later event):
    // everything above worked on the snapshot `closes`; from here on nothing reads the transport any more
    drop(sr_keep);
    drop(stream_objs);
    drop(d);
    // ---------------------------------------------------------------- classification
    let driver_steps: Vec<usize> = log.iter().enumerate().filter(|(_, (i, _))| *i == 0).map(|(n, _)| n).collect();
    let between = log.iter().enumerate().any(|(n, (i, p))| *i != 0 && (*p == "error.store" || *p == "waker.wake") && driver_steps.first().map(|f| n > *f).unwrap_or(false) && driver_steps.last().map(|l| n < *l).unwrap_or(false));
    if between {
        ctx.class("stream_op_between_driver_steps");
        ctx.nontrivial(&(s.clone(), log.clone()));
    }
    ctx.class(if s.server { "role_server" } else { "role_client" });
    ctx.class(if s.driver_polled_before || s.server { "driver_polled_before" } else { "driver_never_polled" });
    ctx.class(if first_store == Some(0) { "winner_driver" } else { "winner_stream" });
    if s.transport_close.is_some() {
        ctx.class("transport_error");
    }
    if s.dropper && !s.server {
        ctx.class("dropper");
    }
    ctx.sample(|| case("held"));
    Ok(())
}

fn variants(kmax: usize) -> Vec<Scn> {
    variants_opt(kmax, true)
}

/// `all_droppers` = false: the three-thread dropper variants only for one error kind (quick tier)
fn variants_opt(kmax: usize, all_droppers: bool) -> Vec<Scn> {
    let raises = [Raise::FrameUnexpected, Raise::Qpack, Raise::FrameError];
    let mut v = Vec::new();
    for server in [false, true] {
        for polled in [false, true] {
            if server && !polled {
                continue;
            }
            for k in 1..=kmax {
                // distinct errors per handle
                let combos: Vec<Vec<Raise>> = if k == 1 { raises.iter().map(|r| vec![*r]).collect() } else if k == 2 { vec![vec![raises[0], raises[1]], vec![raises[2], raises[0]], vec![raises[1], raises[2]]] } else { vec![raises.to_vec()] };
                for streams in combos {
                    for (tc, own, dropper, internal) in [(None, false, false, false), (None, true, false, false), (Some(0x1234u64), false, false, false), (None, false, true, false), (None, false, false, true)] {
                        if dropper && server {
                            continue;
                        }
                        if dropper && !all_droppers && streams[0] != Raise::FrameUnexpected {
                            continue;
                        }
                        let mut st = streams.clone();
                        if tc.is_some() {
                            // the first handle has no input of its own: it meets the transport's error
                            st[0] = Raise::Transport;
                        }
                        if internal {
                            st[0] = Raise::TransportInternal;
                        }
                        v.push(Scn { server, driver_polled_before: polled, streams: st.clone(), transport_close: tc, driver_own_error: own, dropper, drop_driver: false, recv_only: false, drop_races: false });
                        if !server && tc.is_none() && !own && !internal && !dropper {
                            // the client driver has no other way of being given up either
                            v.push(Scn { server, driver_polled_before: polled, streams: st.clone(), transport_close: tc, driver_own_error: own, dropper, drop_driver: true, recv_only: false, drop_races: false });
                        }
                        if server && tc.is_none() && !own && !internal {
                            v.push(Scn { server, driver_polled_before: polled, streams: st.clone(), transport_close: tc, driver_own_error: own, dropper, drop_driver: true, recv_only: false, drop_races: false });
                            if k == 1 {
                                v.push(Scn { server, driver_polled_before: polled, streams: st.clone(), transport_close: tc, driver_own_error: own, dropper, drop_driver: false, recv_only: true, drop_races: false });
                            }
                            v.push(Scn { server, driver_polled_before: polled, streams: st, transport_close: tc, driver_own_error: own, dropper, drop_driver: true, recv_only: false, drop_races: true });
                        }
                    }
                }
            }
        }
    }
    v
}


/// Sequential family (no race needed): the FIRST connection error is detected inside `shutdown()` - the peer has asked to stop
/// sending on h3's control stream, so the GOAWAY write fails (H3_CLOSED_CRITICAL_STREAM). It must become the connection's single
/// outcome like any other: one close with that code, the same error from every later driver call and from the request handle.
fn shutdown_failure_case(server: bool, stop_code: u64, ctx: &mut Ctx) -> Verdict {
    use crate::simnet::peer::{PeerOp, RawPeer};
    ctx.eval();
    fastrand::seed(3);
    let net = Net::new();
    let side = if server { Side::Server } else { Side::Client };
    let raw = side.other();
    net.set_raw(raw);
    #[derive(Default, Debug, Clone)]
    struct O {
        shutdown: Option<Result<(), ConnInfo>>,
        later_driver: Vec<Option<ConnInfo>>,
        later_shutdown: Option<Result<(), ConnInfo>>,
        handle: Option<Result<(), ErrInfo>>,
        built: bool,
    }
    let o: Shared<O> = shared(O::default());
    let go = crate::simnet::exec::Signal::new();
    let mut ex = Exec::new();
    let (net2, o2, go2) = (net.clone(), o.clone(), go.clone());
    if server {
        ex.spawn("server", async move {
            let mut conn: ServerConn = match h3::server::builder().send_grease(false).build(net2.conn(Side::Server)).await {
                Ok(c) => c,
                Err(_) => return,
            };
            let Ok(Some(r)) = conn.accept().await else { return };
            let Ok((_q, mut st)) = r.resolve_request().await else { return };
            o2.borrow_mut().built = true;
            go2.wait(0).await;
            let r = conn.shutdown(0).await.map_err(|e| conn_info(&e));
            o2.borrow_mut().shutdown = Some(r);
            for _ in 0..3 {
                let noop = futures_util::task::noop_waker();
                let mut cx = Context::from_waker(&noop);
                let p = match conn.poll_accept_request_stream(&mut cx) {
                    Poll::Ready(Err(e)) => Some(conn_info(&e)),
                    _ => None,
                };
                o2.borrow_mut().later_driver.push(p);
            }
            o2.borrow_mut().later_shutdown = Some(conn.shutdown(5).await.map_err(|e| conn_info(&e)));
            let h = st.send_response(http::Response::builder().status(200).body(()).unwrap()).await.map_err(|e| err_info(&e));
            o2.borrow_mut().handle = Some(h);
            std::future::pending::<()>().await;
            drop((conn, st));
        });
    } else {
        ex.spawn("client", async move {
            let Ok((mut conn, mut sr)): Result<(ClientConn, SendReq), _> = h3::client::builder().send_grease(false).build(net2.conn(Side::Client)).await else { return };
            let req = http::Request::builder().method("POST").uri("https://example.com/").body(()).unwrap();
            let Ok(mut st) = sr.send_request(req).await else { return };
            o2.borrow_mut().built = true;
            go2.wait(0).await;
            let r = conn.shutdown(0).await.map_err(|e| conn_info(&e));
            o2.borrow_mut().shutdown = Some(r);
            for _ in 0..3 {
                let noop = futures_util::task::noop_waker();
                let mut cx = Context::from_waker(&noop);
                let p = match conn.poll_close(&mut cx) {
                    Poll::Ready(e) => Some(conn_info(&e)),
                    _ => None,
                };
                o2.borrow_mut().later_driver.push(p);
            }
            o2.borrow_mut().later_shutdown = Some(conn.shutdown(5).await.map_err(|e| conn_info(&e)));
            let h = st.send_data(Bytes::from_static(b"late")).await.map_err(|e| err_info(&e));
            o2.borrow_mut().handle = Some(h);
            std::future::pending::<()>().await;
            drop((conn, sr, st));
        });
    }
    // h3's control stream is the first unidirectional stream it opens: id 2 (client) / 3 (server)
    let ctl_id = if server { 3 } else { 2 };
    let mut ops = vec![PeerOp::OpenUni(0), PeerOp::Write(0, peer::control_preamble(&[]))];
    if server {
        ops.extend([PeerOp::OpenBidi(1), PeerOp::Write(1, peer::post_request_headers())]);
    }
    ops.extend([PeerOp::Barrier, PeerOp::Adopt(9, ctl_id), PeerOp::Stop(9, stop_code), PeerOp::Barrier, PeerOp::Signal(0)]);
    let mut rp = RawPeer::new(raw, ops);
    rp.signals.push(go.clone());
    let empty: [u16; 0] = [];
    ex.run(&net, &mut rp, &mut Tape::new(&empty), Style::Eager, 100_000);
    if let Some((task, p)) = ex.panics().first() {
        return Err(Failure::new(format!("panic in task {task}: {p}"), json!({"kind": "shutdown_failure", "server": server})));
    }
    let obs = o.borrow().clone();
    let closes = net.close_calls(side);
    let case = || json!({"kind": "shutdown_failure", "role": if server { "server" } else { "client" }, "stop_code": stop_code.to_string(), "observed": format!("{obs:?}"), "closes": format!("{closes:?}")});
    let fail = |m: String| Err(Failure::direct(m, case()));
    if !obs.built {
        return Err(Failure::fault("shutdown_failure_case: the connection was not set up"));
    }
    let e = ConnInfo::Local { code: code::CLOSED_CRITICAL_STREAM };
    if obs.shutdown != Some(Err(e.clone())) {
        return fail(format!("the peer stopped h3's control stream: shutdown(0) must fail with H3_CLOSED_CRITICAL_STREAM, got {:?}", obs.shutdown));
    }
    if closes.len() != 1 || closes[0].code != code::CLOSED_CRITICAL_STREAM {
        return fail(format!("exactly one close with H3_CLOSED_CRITICAL_STREAM is due, saw {closes:?}"));
    }
    if obs.later_driver.iter().any(|p| p.as_ref() != Some(&e)) || obs.later_driver.len() != 3 {
        return fail(format!("later driver calls must report the error shutdown() detected, got {:?}", obs.later_driver));
    }
    if obs.later_shutdown != Some(Err(e.clone())) {
        return fail(format!("a later shutdown(5) must report the same error, got {:?}", obs.later_shutdown));
    }
    match &obs.handle {
        Some(Err(ErrInfo::Conn(c))) if *c == e => {}
        other => return fail(format!("a later call on the request handle must report the connection's error {e:?}, got {other:?}")),
    }
    ctx.class("first_error_detected_inside_shutdown");
    ctx.nontrivial(&("shutdown_failure", server, stop_code));
    Ok(())
}

fn exhaustive(ctx: &mut Ctx, shard: usize, nshards: usize) -> Verdict {
    if shard == 0 {
        for server in [false, true] {
            for code in [0x10cu64, 0x100, 0, (1 << 62) - 1] {
                shutdown_failure_case(server, code, ctx)?;
            }
        }
    }
    // all interleavings for 1 racing handle (quick) / 1 and 2 (thorough); schedules partitioned by index
    let kmax = ctx.tier.pick(1, 2);
    let mut total = 0u64;
    let mut truncated = 0u64;
    let mut unit = 0usize;
    for s in variants_opt(kmax, ctx.tier == crate::runner::Tier::Thorough).into_iter() {
        // the interleaving tree of every variant is split by its first three choices; shards take the subtrees in turn
        for p0 in 0..4u32 {
            for p1 in 0..4u32 {
                for p2 in 0..4u32 {
                    unit += 1;
                    if unit % nshards != shard {
                        continue;
                    }
                    let mut o = Odometer::with_prefix(&[p0, p1, p2]);
                    let mut first = true;
                    loop {
                        let digits = o.current_digits().to_vec();
                        // the validity of the prefix is only known after the first run: do that one without counting
                        let r = if first {
                            let mut probe = Ctx::new(ctx.tier, ctx.seed);
                            let r = o.step(|t| run_scn(&s, t, &mut probe));
                            if o.prefix_valid {
                                // count it
                                ctx.evals(1);
                                for (k, v) in probe.classes {
                                    ctx.class_n(&k, v);
                                }
                                ctx.nontrivial.extend(probe.nontrivial);
                            }
                            first = false;
                            if !o.prefix_valid {
                                break;
                            }
                            r
                        } else {
                            o.step(|t| run_scn(&s, t, ctx))
                        };
                        match r {
                            None => break,
                            Some(Err(mut e)) => {
                                e.direct = Some(json!({"scenario": scn_json(&s), "digits": digits, "decoded": e.case}));
                                return Err(e);
                            }
                            Some(Ok(())) => {}
                        }
                        if s.streams.len() >= 2 {
                            // two racing handles: the tree below one prefix has millions of leaves; every subtree is explored
                            // depth first up to a fixed number of schedules (fixed work), the random tier samples the rest
                            if o.count >= 2_000 {
                                truncated += 1;
                                break;
                            }
                        } else if o.count > 2_000_000 {
                            return Err(Failure::fault("interleaving space larger than expected"));
                        }
                    }
                    if o.prefix_valid {
                        total += o.count;
                    }
                }
            }
        }
    }
    ctx.class_n("interleavings_enumerated", total);
    if truncated > 0 {
        ctx.class_n("two_handle_subtrees_cut_at_2000_schedules", truncated);
    }
    if shard == 0 {
        ctx.subspace("all interleavings (depth-first over the hook-point choices) of 1 driver poll with 1 racing handle (+ dropper / driver's own error / transport error variants); with 2 racing handles in thorough: every subtree below the first three choices, depth first, up to 2000 schedules each", 0);
    }
    Ok(())
}

fn parse_scn(v: &Value) -> Scn {
    let streams = v["streams"].as_array().map(|a| a.iter().map(|x| match x.as_str() { Some("Qpack") => Raise::Qpack, Some("FrameError") => Raise::FrameError, Some("Transport") => Raise::Transport, Some("TransportInternal") => Raise::TransportInternal, _ => Raise::FrameUnexpected }).collect()).unwrap_or_default();
    Scn { server: v["role"].as_str() == Some("server"), driver_polled_before: v["driver_polled_before"].as_bool().unwrap_or(false), streams, transport_close: v["transport_close"].as_u64(), driver_own_error: v["driver_own_error"].as_bool().unwrap_or(false), dropper: v["dropper"].as_bool().unwrap_or(false), drop_driver: v["drop_driver"].as_bool().unwrap_or(false), recv_only: v["recv_only"].as_bool().unwrap_or(false), drop_races: v["drop_races"].as_bool().unwrap_or(false) }
}

fn run_direct(d: &Value, ctx: &mut Ctx) -> Verdict {
    if d["kind"].as_str() == Some("shutdown_failure") {
        return shutdown_failure_case(d["role"].as_str() == Some("server"), d["stop_code"].as_str().and_then(|s| s.parse().ok()).unwrap_or(0x10c), ctx);
    }
    let s = parse_scn(&d["scenario"]);
    let digits: Vec<u32> = d["digits"].as_array().map(|a| a.iter().map(|x| x.as_u64().unwrap_or(0) as u32).collect()).unwrap_or_default();
    let mut t = Tape::from_digits(&digits);
    run_scn(&s, &mut t, ctx)
}

fn run_tape(tape: &[u16], ctx: &mut Ctx) -> Verdict {
    let mut t = Tape::new(tape);
    let all = variants(3);
    // bias towards 2 and 3 racing handles: the exhaustive tier covers 1
    let multi: Vec<&Scn> = all.iter().filter(|s| s.streams.len() >= 2).collect();
    let s = if t.chance(4, 5) { multi[t.pick(multi.len())].clone() } else { all[t.pick(all.len())].clone() };
    run_scn(&s, &mut t, ctx)
}
