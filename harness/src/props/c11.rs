//! C11 - QPACK field sections: what h3 writes and accepts is RFC 9204, exactly (stateless codec).

use bytes::BytesMut;
use h3::qpack::{decode_stateless, encode_stateless, HeaderField};
use serde_json::{json, Value};

use crate::reference::qpack::{self as rq, Field, QErr, Spelling};
use crate::runner::{catch, hex, unhex, Ctx, Failure, PropDef, Verdict};
use crate::tape::Tape;

pub static PROP: PropDef = PropDef {
    id: "C11",
    rule: "every decoded byte string is also decoded from a buffer of several chunks (pseudo-random cuts derived from the bytes; every single cut for <= 10 bytes; bytewise for <= 24 bytes) and must give the same fields or the same refusal; encode cases: field list -> h3 encode_stateless -> reference RFC 9204 decoder must return the same list, returned size == sum(n+v+32). \
           decode cases: byte string -> if h3 accepts, the reference must accept with the same list (so everything the reference rejects - dynamic/post-base references, non-zero Required Insert Count, \
           negative base, static index >= 99, truncated / oversized integers and strings, invalid Huffman - is rejected by h3); valid-by-construction encodings in every legal spelling must be accepted and agree. \
           exhaustive: all strings of <= 3 bytes after the 00 00 prefix, all prefixes of <= 2 bytes followed by c0, all 99 static entries by name+value and by name. \
           non-trivial = accepted input with >= 2 field lines of different representation, or a rejected input derived from a valid one by one mutation, or an encode list with static hits and misses; distinct by input bytes / field list",
    assumptions: &[
        "reference decoder/encoder written from RFC 9204 (capacity 0) with the 99-entry static table typed from Appendix A and the strict Huffman reference",
        "integers: valid-by-construction inputs use at most 9 continuation bytes so no implementation limit is involved",
    ],
    tape_len: 160,
    random_cases: |t| t.pick(1_600_000, 40_000_000),
    run_tape,
    exhaustive: Some(exhaustive),
    run_direct: Some(run_direct),
    min_classes: &[("decode_reject_dynamic", 1000), ("decode_reject_static_index", 100), ("decode_accept_multi_repr", 1000), ("valid_spelling_accepted", 10000), ("encode_static_hit", 1000), ("mutant_rejected", 1000)],
    extra: None,
};

pub const KNOWN_D9B: &str = "D9b-huffman-long-ones-padding-qpack";

fn h3_decode(b: &[u8]) -> Result<Result<Vec<Field>, String>, String> {
    let v = b.to_vec();
    catch(move || {
        let mut buf: &[u8] = &v;
        match decode_stateless(&mut buf, u64::MAX) {
            Ok(d) => Ok(d.fields.into_iter().map(|f| (f.name.to_vec(), f.value.to_vec())).collect()),
            Err(e) => Err(format!("{e:?}")),
        }
    })
}

fn fields_json(f: &[Field]) -> Value {
    Value::Array(f.iter().map(|(n, v)| json!([String::from_utf8_lossy(n), hex(v)])).collect())
}

#[derive(PartialEq, Clone, Copy)]
enum Origin {
    Arbitrary,
    ValidByConstruction,
    Mutant,
}

fn repr_kinds(b: &[u8]) -> usize {
    // number of distinct representation classes among first bytes of lines is not derivable without
    // parsing; cheap proxy used for classification only: parse with the reference and re-encode? no -
    // count distinct top-bit patterns of the bytes at line starts, found by re-walking with the reference.
    let mut kinds = [false; 3];
    let mut pos = match (rq::get_int(b, 8), rq::get_int(b.get(1..).unwrap_or(&[]), 7)) {
        (Some(a), Some(c)) => a.used + c.used,
        _ => return 0,
    };
    while pos < b.len() {
        let first = b[pos];
        let r = &b[pos..];
        if first & 0x80 != 0 {
            kinds[0] = true;
            match rq::get_int(r, 6) {
                Some(d) => pos += d.used,
                None => break,
            }
        } else if first & 0xc0 == 0x40 {
            kinds[1] = true;
            let Some(d) = rq::get_int(r, 4) else { break };
            let Ok((_, _, u)) = rq::get_string_opts(&r[d.used..], 7, true) else { break };
            pos += d.used + u;
        } else if first & 0xe0 == 0x20 {
            kinds[2] = true;
            let Ok((_, _, u)) = rq::get_string_opts(r, 3, true) else { break };
            let Ok((_, _, u2)) = rq::get_string_opts(&r[u..], 7, true) else { break };
            pos += u + u2;
        } else {
            break;
        }
    }
    kinds.iter().filter(|k| **k).count()
}

fn check_decode(b: &[u8], origin: Origin, ctx: &mut Ctx) -> Verdict {
    ctx.eval();
    let case = || json!({"kind": "decode", "bytes": hex(b), "origin": match origin { Origin::Arbitrary => "arbitrary", Origin::ValidByConstruction => "valid", Origin::Mutant => "mutant" }});
    let got = h3_decode(b).map_err(|p| Failure::direct(format!("panic in decode_stateless: {p}"), case()))?;
    // the same section in a buffer of several chunks decodes to the same fields / is refused alike
    for cuts in crate::tape::cut_sets(b) {
        ctx.eval();
        let segs = crate::tape::Segs::new(b, &cuts);
        let g = catch(move || {
            let mut segs = segs;
            decode_stateless(&mut segs, u64::MAX).ok().map(|d| d.fields.into_iter().map(|f| (f.name.to_vec(), f.value.to_vec())).collect::<Vec<Field>>())
        })
        .map_err(|p| Failure::direct(format!("panic in decode_stateless over a segmented buffer (cuts {cuts:?}): {p}"), case()))?;
        if g != got.as_ref().ok().cloned() {
            return Err(Failure::direct(format!("from chunks cut at {cuts:?} h3 decodes {:?}, from one slice {:?}", g.map(|f| fields_json(&f)), got.as_ref().ok().map(|f| fields_json(f))), case()));
        }
        ctx.class("decode_segmented_agrees");
    }
    let want = rq::decode_section(b);
    match (&want, &got) {
        (Ok(w), Ok(g)) => {
            if w != g {
                return Err(Failure::direct(format!("h3 decodes {} but RFC 9204 says {}", fields_json(g), fields_json(w)), case()));
            }
            if origin == Origin::ValidByConstruction {
                ctx.class("valid_spelling_accepted");
            }
            if w.len() >= 2 && repr_kinds(b) >= 2 {
                ctx.class("decode_accept_multi_repr");
                ctx.nontrivial(&(0u8, b.to_vec()));
            } else {
                ctx.class("decode_accept");
            }
            ctx.sample(|| json!({"section": hex(&b[..b.len().min(40)]), "fields": w.len(), "origin_valid": origin == Origin::ValidByConstruction}));
        }
        (Err(_), Err(_)) => {
            match want {
                Err(QErr::DynamicReference) | Err(QErr::PostBaseReference) => ctx.class("decode_reject_dynamic"),
                Err(QErr::StaticIndex(_)) => ctx.class("decode_reject_static_index"),
                Err(QErr::Truncated) => ctx.class("decode_reject_truncated"),
                Err(QErr::Huffman(_)) => ctx.class("decode_reject_huffman"),
                Err(QErr::NonZeroRequiredInsertCount) | Err(QErr::NegativeBase) => ctx.class("decode_reject_prefix"),
                _ => ctx.class("decode_reject_other"),
            }
            if origin == Origin::Mutant {
                ctx.class("mutant_rejected");
                ctx.nontrivial(&(1u8, b.to_vec()));
            }
        }
        (Err(why), Ok(g)) => {
            if matches!(why, QErr::Huffman(_)) {
                // known family D9b: h3 treats >= 8 one-bits after the last symbol as padding
                if let Ok(l) = rq::decode_section_opts(b, true) {
                    if &l == g && ctx.known(KNOWN_D9B) {
                        return Ok(());
                    }
                }
            }
            return Err(Failure::direct(format!("h3 accepts a section RFC 9204 rejects ({why:?}); h3 result {}", fields_json(g)), case()));
        }
        (Ok(w), Err(e)) => {
            // only inputs every conforming decoder must take are demanded
            if origin == Origin::ValidByConstruction {
                return Err(Failure::direct(format!("valid encoding of {} rejected by h3: {e}", fields_json(w)), case()));
            }
            // arbitrary input the reference accepts: h3 may refuse only because of an implementation limit
            // (integers with more than 9 continuation bytes / beyond 62 bits); anything else is a mismatch
            if !has_long_integer(b) {
                return Err(Failure::direct(format!("h3 rejects ({e}) a section that is valid RFC 9204 and within all limits: {}", fields_json(w)), case()));
            }
            ctx.class("decode_reject_impl_limit");
        }
    }
    Ok(())
}

/// does the byte string contain a run of >= 9 bytes with the continuation bit set (an integer that
/// may exceed an implementation's limits)?
fn has_long_integer(b: &[u8]) -> bool {
    let mut run = 0;
    for x in b {
        if x & 0x80 != 0 {
            run += 1;
            if run >= 9 {
                return true;
            }
        } else {
            run = 0;
        }
    }
    false
}

fn check_encode(fields: &[Field], ctx: &mut Ctx) -> Verdict {
    ctx.eval();
    let case = || json!({"kind": "encode", "fields": fields.iter().map(|(n, v)| json!([hex(n), hex(v)])).collect::<Vec<_>>()});
    let hf: Vec<HeaderField> = fields.iter().map(|(n, v)| HeaderField::new(n.clone(), v.clone())).collect();
    let r = catch(move || {
        let mut block = BytesMut::new();
        let r = encode_stateless(&mut block, hf).map_err(|e| format!("{e:?}"));
        (r, block.to_vec())
    })
    .map_err(|p| Failure::direct(format!("panic in encode_stateless: {p}"), case()))?;
    let (res, wire) = r;
    let size = match res {
        Ok(s) => s,
        Err(e) => return Err(Failure::direct(format!("encode_stateless failed: {e}"), case())),
    };
    if size != rq::section_size(fields) {
        return Err(Failure::direct(format!("returned size {size}, RFC 9114 4.2.2 size is {}", rq::section_size(fields)), case()));
    }
    match rq::decode_section(&wire) {
        Ok(back) if back == fields => {}
        other => {
            return Err(Failure::direct(format!("independent decoding of h3's encoding {} gives {:?}", hex(&wire), other.map(|f| fields_json(&f))), case()));
        }
    }
    // and h3 decodes its own output
    match h3_decode(&wire) {
        Ok(Ok(back)) if back == fields => {}
        other => return Err(Failure::direct(format!("h3 does not decode its own encoding: {other:?}"), case())),
    }
    let hits = fields.iter().filter(|(n, v)| !rq::static_find(n, v).is_empty()).count();
    let name_hits = fields.iter().filter(|(n, v)| rq::static_find(n, v).is_empty() && !rq::static_find_name(n).is_empty()).count();
    if hits > 0 {
        ctx.class("encode_static_hit");
    }
    if name_hits > 0 {
        ctx.class("encode_static_name_hit");
    }
    if hits + name_hits < fields.len() {
        ctx.class("encode_literal");
    }
    if (hits > 0 || name_hits > 0) && hits + name_hits < fields.len() {
        ctx.nontrivial(&(2u8, fields.to_vec()));
    }
    ctx.sample(|| json!({"encode_fields": fields.len(), "wire_prefix": hex(&wire[..wire.len().min(24)]), "static_hits": hits, "name_hits": name_hits}));
    Ok(())
}

fn exhaustive(ctx: &mut Ctx, shard: usize, nshards: usize) -> Verdict {
    // all strings of <= 3 bytes after the prefix 00 00
    if shard == 0 {
        check_decode(&[], Origin::Arbitrary, ctx)?;
        check_decode(&[0], Origin::Arbitrary, ctx)?;
        check_decode(&[0, 0], Origin::Arbitrary, ctx)?;
        for a in 0..=255u8 {
            check_decode(&[0, 0, a], Origin::Arbitrary, ctx)?;
            check_decode(&[a], Origin::Arbitrary, ctx)?;
            check_decode(&[a, 0xc0], Origin::Arbitrary, ctx)?;
        }
    }
    for a in 0..=255u8 {
        if (a as usize) % nshards != shard {
            continue;
        }
        for b in 0..=255u8 {
            check_decode(&[0, 0, a, b], Origin::Arbitrary, ctx)?;
            check_decode(&[a, b, 0xc0], Origin::Arbitrary, ctx)?;
            check_decode(&[a, b], Origin::Arbitrary, ctx)?;
            for c in 0..=255u8 {
                check_decode(&[0, 0, a, b, c], Origin::Arbitrary, ctx)?;
            }
        }
    }
    ctx.subspace("all strings of <= 3 bytes after the prefix 00 00", 1 + 256 + 65536 + 16777216);
    ctx.subspace("all prefixes of <= 2 bytes followed by c0", 256 + 65536);
    // static table
    if shard == 1 % nshards {
        for (i, (n, v)) in rq::STATIC_TABLE.iter().enumerate() {
            let f: Field = (n.as_bytes().to_vec(), v.as_bytes().to_vec());
            check_encode(&[f.clone()], ctx)?;
            let mut near = f.clone();
            near.1.push(b'x');
            check_encode(&[near.clone(), f.clone()], ctx)?;
            let mut near_name = f.clone();
            near_name.0.push(b'x');
            check_encode(&[f.clone(), near_name, near], ctx)?;
            // every spelling of this entry
            for red in 0..3usize {
                for k in 0..8usize {
                    let mut out = Vec::new();
                    rq::put_prefix(&mut out, (k * 31) as u64, red);
                    rq::put_field(&mut out, &f, Spelling::Indexed { which: k, redundant: red });
                    rq::put_field(&mut out, &f, Spelling::NameRef { which: k, never_index: k & 1 != 0, huff_value: k & 2 != 0, redundant: red });
                    rq::put_field(&mut out, &f, Spelling::Literal { never_index: k & 4 != 0, huff_name: k & 1 != 0, huff_value: k & 2 != 0, redundant: red });
                    check_decode(&out, Origin::ValidByConstruction, ctx)?;
                }
            }
            // index i spelled directly, and the indices around the end of the table
            let mut out = vec![0u8, 0];
            rq::put_int(&mut out, 6, 0b11, i as u64, 0);
            check_decode(&out, Origin::ValidByConstruction, ctx)?;
        }
        for idx in [98u64, 99, 100, 127, 128, 1000, u32::MAX as u64, (1 << 62) - 1] {
            for (n, fl) in [(6u8, 0b11u8), (4, 0b0101), (4, 0b0111)] {
                let mut out = vec![0u8, 0];
                rq::put_int(&mut out, n, fl, idx, 0);
                if n == 4 {
                    out.extend_from_slice(&[1, b'v']);
                }
                check_decode(&out, if idx < 99 { Origin::ValidByConstruction } else { Origin::Mutant }, ctx)?;
            }
        }
        ctx.subspace("all 99 static entries: encode by name+value / name / near misses; decode in every spelling x redundancy 0..2", 99);
    }
    // integers around the limits of the continuation bytes: 7..11 of them, the last one small, even, odd, large - in every
    // place of a field line where an integer stands (an arithmetic that only looks at the shift amount drops the bits
    // shifted out of the tenth byte)
    if shard == 2 % nshards {
        let mut n = 0u64;
        for k in 7..=11usize {
            for last in [0x00u8, 0x01, 0x02, 0x03, 0x10, 0x7e, 0x7f] {
                for place in 0..5usize {
                    let mut out = vec![0u8, 0];
                    let tail: Vec<u8> = std::iter::repeat(0x80u8).take(k - 1).chain([last]).collect();
                    match place {
                        0 => {
                            out.push(0xff);
                            out.extend(&tail);
                        }
                        1 => {
                            out.push(0x5f);
                            out.extend(&tail);
                            out.extend_from_slice(&[1, b'v']);
                        }
                        2 => {
                            out.push(0x27);
                            out.extend(&tail);
                            out.extend_from_slice(b"name");
                            out.extend_from_slice(&[1, b'v']);
                        }
                        3 => {
                            out.extend_from_slice(&[0x21, b'n', 0x7f]);
                            out.extend(&tail);
                            out.extend_from_slice(b"value");
                        }
                        _ => {
                            // the Delta Base of the prefix
                            out = vec![0u8, 0x7f];
                            out.extend(&tail);
                            out.push(0xc0 | 17);
                        }
                    }
                    check_decode(&out, Origin::Mutant, ctx)?;
                    n += 1;
                }
            }
        }
        ctx.subspace("integers with 7..11 continuation bytes x 7 last bytes x 5 places (static index, name index, name length, value length, Delta Base)", n);
    }
    Ok(())
}

const NAMES: [&str; 16] = [
    ":method", ":path", ":authority", ":status", ":scheme", "accept", "content-type", "cookie", "x-custom", "x", "", "content-length", "cache-control", "vary", "Accept", "x-frame-options",
];

fn gen_field(t: &mut Tape) -> Field {
    match t.pick(6) {
        0 => {
            let (n, v) = rq::STATIC_TABLE[t.pick(99)];
            (n.as_bytes().to_vec(), v.as_bytes().to_vec())
        }
        1 => {
            let (n, _) = rq::STATIC_TABLE[t.pick(99)];
            (n.as_bytes().to_vec(), gen_bytes(t, 40))
        }
        2 => {
            // near miss
            let (n, v) = rq::STATIC_TABLE[t.pick(99)];
            let mut n = n.as_bytes().to_vec();
            let mut v = v.as_bytes().to_vec();
            match t.pick(4) {
                0 => n.push(b's'),
                1 => {
                    if !v.is_empty() {
                        v.pop();
                    } else {
                        v.push(b'0')
                    }
                }
                2 => {
                    if !n.is_empty() {
                        let i = t.pick(n.len());
                        n[i] = n[i].to_ascii_uppercase();
                    }
                }
                _ => v.push(b' '),
            }
            (n, v)
        }
        3 => (t.choose(&NAMES).as_bytes().to_vec(), gen_bytes(t, 300)),
        _ => {
            let m = if t.chance(1, 8) { 300 } else { 20 };
            (gen_bytes(t, m), gen_bytes(t, 300))
        }
    }
}

fn gen_bytes(t: &mut Tape, max: usize) -> Vec<u8> {
    let n = match t.pick(4) {
        0 => t.int(0, 3) as usize,
        1 => t.int(0, 12) as usize,
        2 => t.int(0, 40.min(max as u64)) as usize,
        _ => t.int(0, max as u64) as usize,
    };
    match t.pick(3) {
        0 => (0..n.min(16)).map(|_| t.u8()).collect(),
        1 => {
            let cs = b"abcdefghijklmnopqrstuvwxyz0123456789-_ /:.=%;,*";
            t.bulk(n).into_iter().map(|b| cs[b as usize % cs.len()]).collect()
        }
        _ => t.bulk(n),
    }
}

fn gen_spelling(t: &mut Tape) -> Spelling {
    let redundant = if t.chance(1, 4) { t.int(1, 3) as usize } else { 0 };
    match t.pick(3) {
        0 => Spelling::Indexed { which: t.pick(4), redundant },
        1 => Spelling::NameRef { which: t.pick(4), never_index: t.bool(), huff_value: t.bool(), redundant },
        _ => Spelling::Literal { never_index: t.bool(), huff_name: t.bool(), huff_value: t.bool(), redundant },
    }
}

fn gen_valid(t: &mut Tape) -> (Vec<u8>, Vec<Field>) {
    let n = t.int(0, 6) as usize;
    let fields: Vec<Field> = (0..n).map(|_| gen_field(t)).collect();
    let mut out = Vec::new();
    let db = if t.chance(1, 4) { t.int(0, 1000) } else { 0 };
    rq::put_prefix(&mut out, db, if t.chance(1, 8) { 2 } else { 0 });
    for f in &fields {
        let sp = gen_spelling(t);
        rq::put_field(&mut out, f, sp);
    }
    (out, fields)
}

fn mutate(t: &mut Tape, b: &mut Vec<u8>) {
    if b.is_empty() {
        b.push(t.u8());
        return;
    }
    match t.pick(9) {
        0 => {
            // flip T bit / representation bits of some byte
            let i = t.pick(b.len());
            b[i] ^= *t.choose(&[0x40u8, 0x10, 0x20, 0x80, 0x01]);
        }
        1 => {
            let cut = t.pick(b.len());
            b.truncate(cut);
        }
        2 => {
            // bump a static index across 98/99: append an indexed line with index >= 99
            let idx = 99 + t.int(0, 200);
            rq::put_int(b, 6, 0b11, idx, 0);
        }
        3 => {
            // dynamic reference
            let idx = t.int(0, 70);
            match t.pick(4) {
                0 => rq::put_int(b, 6, 0b10, idx, 0),
                1 => rq::put_int(b, 4, 0b0001, idx, 0),
                2 => {
                    rq::put_int(b, 4, 0b0100, idx, 0);
                    b.extend_from_slice(&[1, b'v']);
                }
                _ => {
                    rq::put_int(b, 3, 0, idx, 0);
                    b.extend_from_slice(&[1, b'v']);
                }
            }
        }
        4 => {
            // non-zero required insert count / sign bit
            if t.bool() {
                b[0] = t.int(1, 255) as u8;
            } else if b.len() > 1 {
                b[1] |= 0x80;
            }
        }
        5 => {
            // lengthen an integer beyond every limit
            let i = t.pick(b.len());
            let n = t.int(8, 14) as usize;
            for _ in 0..n {
                b.insert(i, 0xff);
            }
        }
        6 => {
            // corrupt the last byte (Huffman padding of the last string)
            let i = b.len() - 1;
            b[i] ^= 1 << t.pick(8);
        }
        7 => {
            let i = t.pick(b.len());
            b[i] = t.u8();
        }
        _ => {
            let i = t.pick(b.len() + 1);
            b.insert(i, t.u8());
        }
    }
}

fn run_tape(tape: &[u16], ctx: &mut Ctx) -> Verdict {
    let mut t = Tape::new(tape);
    match t.pick(5) {
        0 => {
            let n = t.int(0, 20) as usize;
            let fields: Vec<Field> = (0..n).map(|_| gen_field(&mut t)).collect();
            check_encode(&fields, ctx)
        }
        1 | 2 => {
            let (wire, _f) = gen_valid(&mut t);
            check_decode(&wire, Origin::ValidByConstruction, ctx)
        }
        3 => {
            let (mut wire, _f) = gen_valid(&mut t);
            let k = t.int(1, 2);
            for _ in 0..k {
                mutate(&mut t, &mut wire);
            }
            check_decode(&wire, Origin::Mutant, ctx)
        }
        _ => {
            let mut b = if t.bool() { vec![0u8, 0] } else { Vec::new() };
            b.extend(t.bytes(24));
            check_decode(&b, Origin::Arbitrary, ctx)
        }
    }
}

fn run_direct(d: &Value, ctx: &mut Ctx) -> Verdict {
    match d.get("kind").and_then(|k| k.as_str()) {
        Some("decode") => {
            let origin = match d.get("origin").and_then(|o| o.as_str()) {
                Some("valid") => Origin::ValidByConstruction,
                Some("mutant") => Origin::Mutant,
                _ => Origin::Arbitrary,
            };
            check_decode(&unhex(d["bytes"].as_str().unwrap_or("")), origin, ctx)
        }
        Some("encode") => {
            let fields: Vec<Field> = d["fields"]
                .as_array()
                .map(|a| a.iter().map(|p| (unhex(p[0].as_str().unwrap_or("")), unhex(p[1].as_str().unwrap_or("")))).collect())
                .unwrap_or_default();
            check_encode(&fields, ctx)
        }
        _ => Err(Failure::fault("unknown direct case")),
    }
}

/// libFuzzer entry: the bytes are a field section
pub fn fuzz_bytes(data: &[u8], ctx: &mut Ctx) -> Verdict {
    check_decode(data, Origin::Arbitrary, ctx)
}
