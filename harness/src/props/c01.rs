//! C01 - End-to-end message fidelity for every message and transport behaviour (h3 client <-> h3 server over simnet).

use std::cell::{Cell, RefCell};
use std::collections::BTreeMap;
use std::rc::Rc;

use bytes::Bytes;
use serde_json::{json, Value};

use crate::reference::frames as rf;
use crate::runner::{Ctx, Failure, PropDef, Verdict};
use crate::simnet::app::*;
use crate::simnet::exec::{shared, Actor, Exec, RunEnd, Shared, Spawner, Style};
use crate::simnet::{Net, Side, UNLIMITED};
use crate::tape::Tape;

pub static PROP: PropDef = PropDef {
    id: "C01",
    rule: "plus a fixed boundary family (bodies of 63..65537 bytes on the DATA length form boundaries in one and two pieces; 100..33000 field lines in headers / trailers of requests / responses under one or three names); case = 1..3 request/response exchanges (method x target form x header multiset with duplicates x body 0..64 KiB in 0..12 send pieces incl. empty pieces x optional trailers, both directions) \
           x application shape (whole stream or split halves on separate tasks; server answers before / after / while reading) x transport (send credit 0/small/unlimited with tape-chosen grants, stream credit, \
           schedule style eager / tiny / random and every scheduling choice from the tape). oracle: what one application sent == what the other received (method, scheme, authority, path, query, per-name value lists in order, \
           body bytes, trailers iff sent, one clean end of body), no error on any call, no close other than the final H3_NO_ERROR. \
           non-trivial = some body has >= 2 send pieces AND some frame header or payload was split across >= 2 delivered chunks AND some write was accepted partially / had to wait; distinct by scenario+schedule hash",
    assumptions: &[
        "simulated transport behaves like a conforming QUIC stack (Quinn 0.11 semantics where stacks differ), see DESIGN.md 2.4",
        "the client closes (drops its last SendRequest) only after both applications are done, so data is never cut by the application's own close",
        "compared: exactly what the statement lists; the default scheme h3 fills in when the caller supplied none, Version and the sensitive flag are ignored",
    ],
    tape_len: 700,
    random_cases: |t| t.pick(160_000, 4_000_000),
    run_tape,
    exhaustive: Some(boundary_family),
    run_direct: None,
    min_classes: &[("nontrivial", 300), ("trailers", 500), ("duplicate_names", 500), ("empty_piece", 300), ("split_halves", 500), ("split_between_body_and_trailers", 500), ("connect_form", 100), ("write_pending", 500), ("style_tiny", 300), ("style_random", 300), ("style_eager", 300)],
    extra: None,
};

#[derive(Debug, Clone)]
pub struct ReqSpec {
    pub method: String,
    pub uri: String,
    pub protocol: Option<&'static str>,
    pub msg: Message,
}

#[derive(Debug, Clone)]
pub struct RespSpec {
    pub status: u16,
    pub msg: Message,
}

#[derive(Debug, Clone)]
pub struct Exchange {
    pub req: ReqSpec,
    pub resp: RespSpec,
    pub client_split: bool,
    /// 0 = read everything then respond, 1 = respond then read, 2 = split halves on two tasks,
    /// 3 = body on the whole stream, then split: trailers on the receive half, response on the send half
    pub server_shape: u8,
    /// C14 only: the client drops its stream after this many send_data calls (no finish)
    pub client_abort: Option<usize>,
    /// C14 only: the server handler drops its stream after send_response and this many send_data calls
    pub server_abort: Option<usize>,
}

#[derive(Debug, Clone, Copy, Default)]
pub struct EndConfig {
    pub grease: bool,
    pub max_field_section_size: Option<u64>,
    pub webtransport: bool,
    pub extended_connect: bool,
    pub datagram: bool,
    pub max_wt_sessions: Option<u64>,
    /// in which order the builder's setters are called (0 = declaration order, 1 = reversed, 2 / 3 = two other permutations;
    /// +4: every boolean setter is first called with the opposite value): the outcome must not depend on it
    pub setter_order: u8,
}

#[derive(Debug, Clone)]
pub struct Scenario {
    pub exchanges: Vec<Exchange>,
    pub concurrent: bool,
    pub style: Style,
    pub credit: [u64; 2],
    pub client_bidi_credit: u64,
    pub uni_credit: [u64; 2],
    pub config: [EndConfig; 2],
    /// C14 only: (after this many accepted requests, shutdown(n))
    pub server_shutdowns: Vec<(usize, usize)>,
    /// C14 only: the client driver calls shutdown(0) before polling
    pub client_shutdown: bool,
}

/// header that tells the server application which exchange a request belongs to (requests opened
/// by concurrent client tasks get their stream ids in scheduling order)
pub const MARK: &str = "x-verif-exchange";

const TOKEN: &[u8] = b"abcdefghijklmnopqrstuvwxyz0123456789-_.~!#$%&'*+^`|";

pub fn gen_name(t: &mut Tape) -> String {
    const COMMON: [&str; 14] = ["accept", "content-type", "cookie", "set-cookie", "x-custom", "user-agent", "content-length", "cache-control", "accept-encoding", "x", "vary", "etag", "x-frame-options", "te"];
    match t.pick(4) {
        0 | 1 => COMMON[t.pick(COMMON.len())].to_string(),
        2 => {
            // near miss of a static table name
            let mut s = COMMON[t.pick(COMMON.len())].to_string();
            s.push(*t.choose(&['s', '-', '2']));
            s
        }
        _ => {
            let n = t.int(1, 12) as usize;
            let s: String = (0..n).map(|_| TOKEN[t.pick(TOKEN.len())] as char).collect();
            if s == "host" {
                "hostx".into()
            } else {
                s
            }
        }
    }
}

pub fn gen_value(t: &mut Tape, max: usize) -> Vec<u8> {
    let n = match t.pick(5) {
        0 => 0,
        1 => t.int(1, 8) as usize,
        2 => t.int(1, 40) as usize,
        _ => t.int(0, max as u64) as usize,
    };
    let raw = t.bulk(n);
    let mode = t.pick(3);
    raw.into_iter()
        .map(|b| match mode {
            0 => b"abcdefghijklmnopqrstuvwxyz0123456789 ;,=/*-"[b as usize % 43],
            1 => {
                // HTAB, SP, VCHAR
                let x = b % 96;
                if x == 95 {
                    9
                } else {
                    0x20 + x
                }
            }
            _ => {
                // incl. obs-text
                if b == 0x7f || (b < 0x20 && b != 9) {
                    0x80 | b
                } else {
                    b
                }
            }
        })
        .collect()
}

pub fn gen_fields(t: &mut Tape, max_fields: usize) -> FieldList {
    let n = match t.pick(4) {
        0 => 0,
        1 => t.int(1, 3) as usize,
        _ => t.int(0, max_fields as u64) as usize,
    };
    let mut out: FieldList = Vec::new();
    for _ in 0..n {
        let name = if !out.is_empty() && t.chance(3, 10) { out[t.pick(out.len())].0.clone() } else { gen_name(t) };
        let v = gen_value(t, 200);
        out.push((name, v));
    }
    out
}

pub fn gen_pieces(t: &mut Tape, max_total: usize) -> Vec<Vec<u8>> {
    let n = match t.pick(5) {
        0 => 0,
        1 => 1,
        _ => t.int(0, 12) as usize,
    };
    let mut out = Vec::new();
    let mut budget = max_total;
    for _ in 0..n {
        let len = match t.pick(6) {
            0 => 0,
            1 => t.int(1, 8) as usize,
            2 => t.int(1, 300) as usize,
            3 => t.int(1, 5000) as usize,
            4 => t.int(1, 20000) as usize,
            _ => t.int(0, 65536) as usize,
        }
        .min(budget);
        budget -= len;
        out.push(t.bulk(len));
    }
    out
}

pub fn gen_authority(t: &mut Tape) -> String {
    let host = *t.choose(&["example.com", "a", "localhost", "sub.domain.example.org", "127.0.0.1", "[::1]", "xn--bcher-kva.example"]);
    let mut s = String::new();
    if t.chance(1, 8) {
        s.push_str(*t.choose(&["user@", "u:p@"]));
    }
    s.push_str(host);
    if t.chance(1, 3) {
        s.push_str(&format!(":{}", t.int(1, 65535)));
    }
    s
}

pub fn gen_path(t: &mut Tape) -> String {
    let mut p = match t.pick(5) {
        0 => String::new(),
        1 => "/".to_string(),
        2 => "/index.html".to_string(),
        _ => {
            let segs = t.int(1, 4);
            let mut s = String::new();
            for _ in 0..segs {
                s.push('/');
                let n = t.int(0, 8) as usize;
                for _ in 0..n {
                    s.push(b"abcXYZ019-._~%2F"[t.pick(16)] as char);
                }
            }
            s.replace('%', "%41")
        }
    };
    if t.chance(1, 3) {
        p.push('?');
        let n = t.int(0, 10) as usize;
        for _ in 0..n {
            p.push(b"abc=&019-._~"[t.pick(12)] as char);
        }
    }
    p
}

pub fn gen_request(t: &mut Tape, body_max: usize) -> ReqSpec {
    let auth = gen_authority(t);
    let kind = t.pick(12);
    let (method, uri, protocol): (String, String, Option<&'static str>) = match kind {
        0 => {
            // CONNECT authority-form
            ("CONNECT".into(), auth.clone(), None)
        }
        1 => {
            let p = *t.choose(&["webtransport", "connect-udp", "connect-ip", "websocket"]);
            let path = gen_path(t);
            ("CONNECT".into(), format!("https://{auth}{path}"), Some(p))
        }
        _ => {
            let m = match t.pick(10) {
                0 | 1 | 2 => "GET",
                3 | 4 => "POST",
                5 => "PUT",
                6 => "DELETE",
                7 => "HEAD",
                8 => "OPTIONS",
                _ => *t.choose(&["PATCH", "PROPFIND", "M-SEARCH", "x", "CUSTOM_METHOD"]),
            };
            let scheme = *t.choose(&["https", "https", "http", "ftp", "custom+x.1"]);
            let path = gen_path(t);
            (m.into(), format!("{scheme}://{auth}{path}"), None)
        }
    };
    let mut fields = gen_fields(t, 12);
    fields.retain(|(n, _)| n != "host" && n != MARK);
    if t.chance(1, 6) {
        // a Host field equal to the authority is legal
        let pos = t.pick(fields.len() + 1);
        fields.insert(pos, ("host".into(), auth.as_bytes().to_vec()));
    }
    let pieces = gen_pieces(t, body_max);
    let trailers = if t.chance(1, 3) { Some(gen_fields(t, 5).into_iter().filter(|(n, _)| n != "host").collect()) } else { None };
    ReqSpec { method, uri, protocol, msg: Message { fields, pieces, trailers } }
}

pub fn gen_response(t: &mut Tape, body_max: usize) -> RespSpec {
    let status = match t.pick(6) {
        0 | 1 | 2 => 200,
        3 => *t.choose(&[204u16, 304, 404, 500, 503, 431, 100, 103]),
        _ => {
            let s = t.int(100, 599) as u16;
            if s == 101 {
                102
            } else {
                s
            }
        }
    };
    let fields = gen_fields(t, 12);
    let pieces = gen_pieces(t, body_max);
    let trailers = if t.chance(1, 3) { Some(gen_fields(t, 5)) } else { None };
    RespSpec { status, msg: Message { fields, pieces, trailers } }
}

pub fn gen_credit(t: &mut Tape) -> u64 {
    match t.pick(6) {
        0 | 1 | 2 => UNLIMITED,
        3 => 0,
        4 => t.int(1, 16),
        _ => t.int(1, 5000),
    }
}

pub fn gen_style(t: &mut Tape) -> Style {
    match t.pick(4) {
        0 => Style::Eager,
        1 => Style::Tiny,
        _ => Style::Random,
    }
}

pub fn gen_scenario(t: &mut Tape) -> Scenario {
    let style = gen_style(t);
    let n = *t.choose(&[1usize, 1, 1, 2, 2, 3]);
    let body_max = if style == Style::Tiny { 3000 } else { 65536 };
    let exchanges = (0..n)
        .map(|k| {
            let mut req = gen_request(t, body_max);
            let pos = t.pick(req.msg.fields.len() + 1);
            req.msg.fields.insert(pos, (MARK.to_string(), k.to_string().into_bytes()));
            Exchange { req, resp: gen_response(t, body_max), client_split: t.chance(1, 3), server_shape: t.pick(4) as u8, client_abort: None, server_abort: None }
        })
        .collect();
    Scenario {
        exchanges,
        concurrent: t.bool(),
        style,
        credit: [gen_credit(t), gen_credit(t)],
        client_bidi_credit: if t.chance(1, 4) { 0 } else { UNLIMITED },
        uni_credit: [if t.chance(1, 5) { t.int(0, 3) } else { UNLIMITED }, if t.chance(1, 5) { t.int(0, 3) } else { UNLIMITED }],
        config: [EndConfig { grease: t.bool(), ..Default::default() }, EndConfig { grease: t.bool(), ..Default::default() }],
        server_shutdowns: Vec::new(),
        client_shutdown: false,
    }
}

const SETTER_PERMS: [[usize; 6]; 4] = [[0, 1, 2, 3, 4, 5], [5, 4, 3, 2, 1, 0], [2, 1, 3, 0, 5, 4], [3, 2, 0, 1, 4, 5]];

pub fn server_builder(c: &EndConfig) -> h3::server::Builder {
    let mut b = h3::server::builder();
    if c.setter_order & 4 != 0 {
        b.send_grease(!c.grease).enable_webtransport(!c.webtransport).enable_extended_connect(!c.extended_connect).enable_datagram(!c.datagram);
    }
    for k in SETTER_PERMS[(c.setter_order & 3) as usize] {
        match k {
            0 => {
                b.send_grease(c.grease);
            }
            1 => {
                b.enable_webtransport(c.webtransport);
            }
            2 => {
                b.enable_extended_connect(c.extended_connect);
            }
            3 => {
                b.enable_datagram(c.datagram);
            }
            4 => {
                if let Some(m) = c.max_field_section_size {
                    b.max_field_section_size(m);
                }
            }
            _ => {
                if let Some(m) = c.max_wt_sessions {
                    b.max_webtransport_sessions(m);
                }
            }
        }
    }
    b
}

pub fn client_builder(c: &EndConfig) -> h3::client::Builder {
    let mut b = h3::client::builder();
    if c.setter_order & 4 != 0 {
        b.send_grease(!c.grease).enable_extended_connect(!c.extended_connect).enable_datagram(!c.datagram);
    }
    for k in SETTER_PERMS[(c.setter_order & 3) as usize] {
        match k {
            0 => {
                b.send_grease(c.grease);
            }
            2 => {
                b.enable_extended_connect(c.extended_connect);
            }
            3 => {
                b.enable_datagram(c.datagram);
            }
            4 => {
                if let Some(m) = c.max_field_section_size {
                    b.max_field_section_size(m);
                }
            }
            _ => {}
        }
    }
    b
}

pub fn build_request(r: &ReqSpec) -> http::Request<()> {
    let mut req = http::Request::builder().method(r.method.as_bytes()).uri(r.uri.as_str()).body(()).expect("generator produced a valid request");
    *req.headers_mut() = header_map(&r.msg.fields);
    if let Some(p) = r.protocol {
        req.extensions_mut().insert(p.parse::<h3::ext::Protocol>().ok().expect("protocol"));
    }
    req
}

pub fn build_response(r: &RespSpec) -> http::Response<()> {
    let mut resp = http::Response::builder().status(r.status).body(()).expect("generator produced a valid response");
    *resp.headers_mut() = header_map(&r.msg.fields);
    resp
}

pub struct World {
    /// per exchange index: client side observation, server side observation
    pub client: Vec<Shared<ExchangeObs>>,
    pub server: Vec<Shared<ExchangeObs>>,
    pub server_driver: Shared<DriverObs>,
    pub client_driver: Shared<DriverObs>,
    /// outstanding client tasks
    pub outstanding: Rc<Cell<usize>>,
    pub master: Rc<RefCell<Option<SendReq>>>,
    pub unmatched: Shared<Vec<String>>,
}

async fn server_handler(resolver: Resolver, exchanges: Vec<Exchange>, obs: Vec<Shared<ExchangeObs>>, unmatched: Shared<Vec<String>>, sp: Spawner) {
    let (req, mut stream) = match resolver.resolve_request().await {
        Ok(x) => x,
        Err(e) => {
            unmatched.borrow_mut().push(format!("resolve_request failed: {:?}", err_info(&e)));
            return;
        }
    };
    let k = req.headers().get(MARK).and_then(|v| v.to_str().ok()).and_then(|s| s.parse::<usize>().ok());
    let Some(k) = k.filter(|k| *k < exchanges.len()) else {
        unmatched.borrow_mut().push(format!("request without a valid {MARK} header: {:?}", req.headers().get(MARK)));
        return;
    };
    let ex = exchanges[k].clone();
    let o = obs[k].clone();
    {
        let mut g = o.borrow_mut();
        g.stream_id = Some(stream.id().into_inner());
        record_request(&mut g.recv, &req);
    }
    if let Some(k) = ex.server_abort {
        // respond partially, then drop the stream between calls
        if stream.send_response(build_response(&ex.resp)).await.is_ok() {
            for p in ex.resp.msg.pieces.iter().take(k) {
                if stream.send_data(Bytes::from(p.clone())).await.is_err() {
                    break;
                }
            }
        }
        o.borrow_mut().send.calls_ok.push("aborted".into());
        return;
    }
    match ex.server_shape {
        0 => {
            if !server_recv_rest(&mut stream, &o).await {
                return;
            }
            if let Err(e) = stream.send_response(build_response(&ex.resp)).await {
                o.borrow_mut().send.error = Some(("send_response".into(), err_info(&e)));
                return;
            }
            o.borrow_mut().send.calls_ok.push("send_response".into());
            server_send_rest(&mut stream, &ex.resp.msg, &o).await;
        }
        1 => {
            if let Err(e) = stream.send_response(build_response(&ex.resp)).await {
                o.borrow_mut().send.error = Some(("send_response".into(), err_info(&e)));
                return;
            }
            o.borrow_mut().send.calls_ok.push("send_response".into());
            if !server_send_rest(&mut stream, &ex.resp.msg, &o).await {
                return;
            }
            server_recv_rest(&mut stream, &o).await;
        }
        3 => {
            // the body on the whole stream, then split: the trailers are asked for on the receive half
            if !server_recv_body(&mut stream, &o).await {
                return;
            }
            let (mut tx, mut rx) = stream.split();
            if !server_half_recv_trailers(&mut rx, &o).await {
                return;
            }
            let resp = build_response(&ex.resp);
            if let Err(e) = tx.send_response(resp).await {
                o.borrow_mut().send.error = Some(("send_response".into(), err_info(&e)));
                return;
            }
            o.borrow_mut().send.calls_ok.push("send_response".into());
            server_half_send_rest(&mut tx, &ex.resp.msg, &o).await;
            drop(rx);
        }
        _ => {
            let (mut tx, mut rx) = stream.split();
            let o2 = o.clone();
            sp.spawn("server-recv-half", async move {
                server_half_recv_rest(&mut rx, &o2).await;
            });
            let resp = build_response(&ex.resp);
            if let Err(e) = tx.send_response(resp).await {
                o.borrow_mut().send.error = Some(("send_response".into(), err_info(&e)));
                return;
            }
            o.borrow_mut().send.calls_ok.push("send_response".into());
            server_half_send_rest(&mut tx, &ex.resp.msg, &o).await;
        }
    }
}

async fn server_main(net: Net, cfg: EndConfig, shutdowns: Vec<(usize, usize)>, exchanges: Vec<Exchange>, world_server: Vec<Shared<ExchangeObs>>, d: Shared<DriverObs>, unmatched: Shared<Vec<String>>, sp: Spawner) {
    let b = server_builder(&cfg);
    let mut conn: ServerConn = match b.build(net.conn(Side::Server)).await {
        Ok(c) => c,
        Err(e) => {
            d.borrow_mut().build_error = Some(conn_info(&e));
            return;
        }
    };
    d.borrow_mut().built = true;
    let mut accepted = 0usize;
    loop {
        for (after, n) in &shutdowns {
            if *after == accepted {
                if let Err(e) = conn.shutdown(*n).await {
                    d.borrow_mut().accepts.push(Err(conn_info(&e)));
                    return;
                }
            }
        }
        match conn.accept().await {
            Ok(Some(resolver)) => {
                accepted += 1;
                let id = resolver.frame_stream.id().into_inner();
                d.borrow_mut().accepts.push(Ok(Some(id)));
                sp.spawn(format!("server-handler-{id}"), server_handler(resolver, exchanges.clone(), world_server.clone(), unmatched.clone(), sp.clone()));
            }
            Ok(None) => {
                d.borrow_mut().accepts.push(Ok(None));
                break;
            }
            Err(e) => {
                d.borrow_mut().accepts.push(Err(conn_info(&e)));
                break;
            }
        }
    }
}

struct Done(Rc<Cell<usize>>);
impl Drop for Done {
    fn drop(&mut self) {
        self.0.set(self.0.get() - 1);
    }
}

async fn client_exchange(mut sr: SendReq, ex: Exchange, o: Shared<ExchangeObs>, sp: Spawner, outstanding: Rc<Cell<usize>>) {
    let _done = Done(outstanding.clone());
    let mut stream = match sr.send_request(build_request(&ex.req)).await {
        Ok(s) => s,
        Err(e) => {
            o.borrow_mut().send.error = Some(("send_request".into(), err_info(&e)));
            return;
        }
    };
    drop(sr);
    {
        let mut g = o.borrow_mut();
        g.stream_id = Some(stream.id().into_inner());
        g.send.calls_ok.push("send_request".into());
    }
    if let Some(k) = ex.client_abort {
        for p in ex.req.msg.pieces.iter().take(k) {
            if stream.send_data(Bytes::from(p.clone())).await.is_err() {
                break;
            }
        }
        o.borrow_mut().send.calls_ok.push("aborted".into());
        return;
    }
    if ex.client_split {
        let (mut tx, mut rx) = stream.split();
        outstanding.set(outstanding.get() + 1);
        let o2 = o.clone();
        let out2 = outstanding.clone();
        sp.spawn("client-recv-half", async move {
            let _d = Done(out2);
            match rx.recv_response().await {
                Ok(resp) => record_response(&mut o2.borrow_mut().recv, &resp),
                Err(e) => {
                    o2.borrow_mut().recv.error = Some(("recv_response".into(), err_info(&e)));
                    return;
                }
            }
            client_half_recv_rest(&mut rx, &o2).await;
        });
        client_half_send_rest(&mut tx, &ex.req.msg, &o).await;
    } else {
        if !client_send_rest(&mut stream, &ex.req.msg, &o).await {
            return;
        }
        match stream.recv_response().await {
            Ok(resp) => record_response(&mut o.borrow_mut().recv, &resp),
            Err(e) => {
                o.borrow_mut().recv.error = Some(("recv_response".into(), err_info(&e)));
                return;
            }
        }
        if ex.server_shape == 3 {
            // (the same exchanges also split late on the client) body on the whole stream, trailers on the receive half
            if !client_recv_body(&mut stream, &o).await {
                return;
            }
            let (tx, mut rx) = stream.split();
            client_half_recv_trailers(&mut rx, &o).await;
            drop(tx);
        } else {
            client_recv_rest(&mut stream, &o).await;
        }
    }
}

async fn client_main(net: Net, sc: Scenario, clients: Vec<Shared<ExchangeObs>>, d: Shared<DriverObs>, sp: Spawner, outstanding: Rc<Cell<usize>>, master: Rc<RefCell<Option<SendReq>>>) {
    let _done = Done(outstanding.clone());
    let mut b = client_builder(&sc.config[0]);
    let (mut conn, sr): (ClientConn, SendReq) = match b.build(net.conn(Side::Client)).await {
        Ok(x) => x,
        Err(e) => {
            d.borrow_mut().build_error = Some(conn_info(&e));
            return;
        }
    };
    d.borrow_mut().built = true;
    if sc.client_shutdown {
        let _ = conn.shutdown(0).await;
    }
    sp.spawn("client-driver", client_driver(conn, d.clone()));
    if sc.concurrent {
        for (k, ex) in sc.exchanges.iter().enumerate() {
            outstanding.set(outstanding.get() + 1);
            sp.spawn(format!("client-exchange-{k}"), client_exchange(sr.clone(), ex.clone(), clients[k].clone(), sp.clone(), outstanding.clone()));
        }
        *master.borrow_mut() = Some(sr);
    } else {
        *master.borrow_mut() = Some(sr.clone());
        for (k, ex) in sc.exchanges.iter().enumerate() {
            outstanding.set(outstanding.get() + 1);
            client_exchange(sr.clone(), ex.clone(), clients[k].clone(), sp.clone(), outstanding.clone()).await;
        }
    }
}

/// drops the client's last SendRequest once everything else is quiet
struct Closer {
    master: Rc<RefCell<Option<SendReq>>>,
    done: bool,
}
impl Actor for Closer {
    fn ready(&mut self, quiet: bool) -> bool {
        !self.done && quiet && self.master.borrow().is_some()
    }
    fn step(&mut self, _net: &Net, _sp: &Spawner) {
        self.done = true;
        let m = self.master.borrow_mut().take();
        drop(m);
    }
}

pub fn scenario_json(sc: &Scenario) -> Value {
    json!({
        "style": format!("{:?}", sc.style), "concurrent": sc.concurrent, "credit": sc.credit.iter().map(|c| if *c == UNLIMITED { -1 } else { *c as i64 }).collect::<Vec<_>>(),
        "client_bidi_credit": if sc.client_bidi_credit == UNLIMITED { -1 } else { sc.client_bidi_credit as i64 },
        "exchanges": sc.exchanges.iter().map(|e| json!({
            "method": e.req.method, "uri": e.req.uri, "protocol": e.req.protocol,
            "req_fields": e.req.msg.fields.iter().map(|(n, v)| format!("{n}: {}", String::from_utf8_lossy(&v[..v.len().min(24)]))).collect::<Vec<_>>(),
            "req_pieces": e.req.msg.pieces.iter().map(|p| p.len()).collect::<Vec<_>>(),
            "req_trailers": e.req.msg.trailers.as_ref().map(|t| t.len()),
            "status": e.resp.status,
            "resp_fields": e.resp.msg.fields.len(),
            "resp_pieces": e.resp.msg.pieces.iter().map(|p| p.len()).collect::<Vec<_>>(),
            "resp_trailers": e.resp.msg.trailers.as_ref().map(|t| t.len()),
            "client_split": e.client_split, "server_shape": e.server_shape,
        })).collect::<Vec<_>>(),
    })
}

fn compare_fields(sent: &FieldList, got: &Option<BTreeMap<String, Vec<Vec<u8>>>>, what: &str) -> Result<(), String> {
    let want = by_name_list(sent);
    match got {
        None => Err(format!("{what}: nothing received")),
        Some(g) => {
            if *g != want {
                let missing: Vec<&String> = want.keys().filter(|k| g.get(*k) != want.get(*k)).collect();
                let extra: Vec<&String> = g.keys().filter(|k| !want.contains_key(*k)).collect();
                Err(format!("{what}: field values differ for {missing:?}, unexpected names {extra:?}"))
            } else {
                Ok(())
            }
        }
    }
}

fn compare_message(sent: &Message, got: &RecvObs, what: &str) -> Result<(), String> {
    if let Some((call, e)) = &got.error {
        return Err(format!("{what}: {call} failed with {e:?}"));
    }
    compare_fields(&sent.fields, &got.headers, &format!("{what} fields"))?;
    if got.body != sent.body() {
        let n = got.body.iter().zip(sent.body().iter()).take_while(|(a, b)| a == b).count();
        return Err(format!("{what}: body differs: sent {} bytes, received {} bytes, first difference at {n}", sent.body().len(), got.body.len()));
    }
    if !got.saw_end_of_body {
        return Err(format!("{what}: end of body not reported"));
    }
    match (&sent.trailers, &got.trailers) {
        (Some(t), Some(Some(g))) => {
            if *g != by_name_list(t) {
                return Err(format!("{what}: trailers differ"));
            }
        }
        (None, Some(None)) => {}
        (s, g) => return Err(format!("{what}: trailers sent: {}, received: {:?}", s.is_some(), g.as_ref().map(|x| x.is_some()))),
    }
    if !got.finished {
        return Err(format!("{what}: receive sequence did not complete"));
    }
    Ok(())
}

fn run_tape(tape: &[u16], ctx: &mut Ctx) -> Verdict {
    let mut t = Tape::new(tape);
    let sc = gen_scenario(&mut t);
    run_scenario(&sc, &mut t, ctx)
}

/// Fixed family of messages whose sizes sit on the boundaries random generation practically never hits: bodies around the
/// varint form boundaries of the DATA length (in one piece and in two), and header / trailer sections with very many values
/// (around the limits of the map the fields are collected in: 24576/24577 and 32768 lines).
fn boundary_family(ctx: &mut Ctx, shard: usize, nshards: usize) -> Verdict {
    let mut idx = 0usize;
    let base = |k: u64| -> Scenario {
        let cells = crate::tape::prf_cells(0xb0_0000 + k, 300);
        let mut t = Tape::new(&cells);
        let mut sc = gen_scenario(&mut t);
        sc.exchanges.truncate(1);
        sc.concurrent = false;
        sc.style = Style::Eager;
        sc.credit = [UNLIMITED, UNLIMITED];
        sc.client_bidi_credit = UNLIMITED;
        sc.uni_credit = [UNLIMITED, UNLIMITED];
        sc
    };
    let empty: [u16; 0] = [];
    for (k, len) in [63usize, 64, 16383, 16384, 16385, 65535, 65536, 65537].into_iter().enumerate() {
        for two in [false, true] {
            for resp in [false, true] {
                idx += 1;
                if idx % nshards != shard {
                    continue;
                }
                let mut sc = base(k as u64);
                let body = crate::tape::prf_bytes(len as u64, len);
                let pieces = if two { vec![body[..len / 2].to_vec(), body[len / 2..].to_vec()] } else { vec![body] };
                if resp {
                    sc.exchanges[0].resp.msg.pieces = pieces;
                } else {
                    sc.exchanges[0].req.msg.pieces = pieces;
                }
                ctx.class("boundary_body_length");
                run_scenario(&sc, &mut Tape::new(&empty), ctx)?;
            }
        }
    }
    for (k, n) in [100usize, 24576, 24577, 32768, 33000].into_iter().enumerate() {
        for place in 0..4u8 {
            for distinct in [1usize, 3] {
                idx += 1;
                if idx % nshards != shard {
                    continue;
                }
                let mut sc = base(100 + k as u64);
                let many: FieldList = (0..n).map(|i| (format!("x-many-{}", i % distinct), format!("v{i}").into_bytes())).collect();
                let ex = &mut sc.exchanges[0];
                match place {
                    0 => ex.req.msg.fields.extend(many),
                    1 => ex.resp.msg.fields.extend(many),
                    2 => ex.req.msg.trailers = Some(many),
                    _ => ex.resp.msg.trailers = Some(many),
                }
                ctx.class("very_many_field_lines");
                run_scenario(&sc, &mut Tape::new(&empty), ctx)?;
            }
        }
    }
    if shard == 0 {
        ctx.subspace("bodies of 63..65537 bytes on the DATA length form boundaries x 1/2 pieces x request/response; 100..33000 field lines x headers/trailers x request/response x 1/3 names", idx as u64);
    }
    Ok(())
}

pub struct Executed {
    pub net: Net,
    pub world: World,
    pub ex: Exec,
    pub end: RunEnd,
}

pub fn execute(sc: &Scenario, t: &mut Tape) -> Executed {
    fastrand::seed(7);
    let net = Net::new();
    {
        let mut g = net.lock();
        g.default_credit = sc.credit;
        g.ends[0].stream_credit = [sc.client_bidi_credit, sc.uni_credit[0]];
        g.ends[1].stream_credit = [UNLIMITED, sc.uni_credit[1]];
    }
    let n = sc.exchanges.len();
    let world = World {
        client: (0..n).map(|_| new_obs()).collect(),
        server: (0..n).map(|_| new_obs()).collect(),
        server_driver: shared(DriverObs::default()),
        client_driver: shared(DriverObs::default()),
        outstanding: Rc::new(Cell::new(1)),
        master: Rc::new(RefCell::new(None)),
        unmatched: shared(Vec::new()),
    };
    let mut ex = Exec::new();
    let sp = ex.spawner.clone();
    ex.spawn("server-main", server_main(net.clone(), sc.config[1], sc.server_shutdowns.clone(), sc.exchanges.clone(), world.server.clone(), world.server_driver.clone(), world.unmatched.clone(), sp.clone()));
    ex.spawn("client-main", client_main(net.clone(), sc.clone(), world.client.clone(), world.client_driver.clone(), sp.clone(), world.outstanding.clone(), world.master.clone()));
    let mut closer = Closer { master: world.master.clone(), done: false };
    let end = ex.run(&net, &mut closer, t, sc.style, 600_000);
    Executed { net, world, ex, end }
}

pub fn run_scenario(sc: &Scenario, t: &mut Tape, ctx: &mut Ctx) -> Verdict {
    ctx.eval();
    let Executed { net, world, ex, end } = execute(sc, t);
    let case = || {
        json!({
            "scenario": scenario_json(sc),
            "client": world.client.iter().map(|o| obs_json(&o.borrow())).collect::<Vec<_>>(),
            "server": world.server.iter().map(|o| obs_json(&o.borrow())).collect::<Vec<_>>(),
            "server_accepts": format!("{:?}", world.server_driver.borrow().accepts),
            "client_driver": format!("{:?}", world.client_driver.borrow().closed),
            "pending_tasks": ex.pending_tasks(),
            "steps": ex.steps,
        })
    };
    if end == RunEnd::StepBound {
        return Err(Failure::fault(format!("step bound hit after {} steps {}", ex.steps, ex.trace_tail(40))));
    }
    if let Some(f) = net.lock().faults.first() {
        return Err(Failure::fault(format!("sim fault: {f}")));
    }
    if let Some((task, p)) = ex.panics().first() {
        return Err(Failure::new(format!("panic in task {task}: {p}"), case()));
    }
    if let Some(u) = world.unmatched.borrow().first() {
        return Err(Failure::new(format!("server application: {u}"), case()));
    }
    // every exchange completed, with identical content in both directions
    for (k, e) in sc.exchanges.iter().enumerate() {
        let so = world.server[k].borrow();
        let co = world.client[k].borrow();
        if let Some((call, err)) = &co.send.error {
            return Err(Failure::new(format!("exchange {k}: client {call} failed with {err:?}"), case()));
        }
        if let Some((call, err)) = &so.send.error {
            return Err(Failure::new(format!("exchange {k}: server {call} failed with {err:?}"), case()));
        }
        // request as seen by the server
        let uri: http::Uri = e.req.uri.parse().expect("uri");
        let r = &so.recv;
        if r.method.as_deref() != Some(e.req.method.as_str()) {
            return Err(Failure::new(format!("exchange {k}: method {:?} expected {}", r.method, e.req.method), case()));
        }
        let connect_plain = e.req.method == "CONNECT" && e.req.protocol.is_none();
        if !connect_plain && r.scheme.as_deref() != uri.scheme_str() {
            return Err(Failure::new(format!("exchange {k}: scheme {:?} expected {:?}", r.scheme, uri.scheme_str()), case()));
        }
        if r.authority.as_deref() != uri.authority().map(|a| a.as_str()) {
            return Err(Failure::new(format!("exchange {k}: authority {:?} expected {:?}", r.authority, uri.authority()), case()));
        }
        let norm = |p: &str| if p.is_empty() { "/".to_string() } else { p.to_string() };
        if !connect_plain && r.path.as_deref().map(norm) != Some(norm(uri.path())) {
            return Err(Failure::new(format!("exchange {k}: path {:?} expected {:?}", r.path, uri.path()), case()));
        }
        if !connect_plain && r.query.as_deref() != uri.query() {
            return Err(Failure::new(format!("exchange {k}: query {:?} expected {:?}", r.query, uri.query()), case()));
        }
        if r.protocol.as_deref() != e.req.protocol {
            return Err(Failure::new(format!("exchange {k}: protocol {:?} expected {:?}", r.protocol, e.req.protocol), case()));
        }
        if let Err(m) = compare_message(&e.req.msg, r, &format!("exchange {k} request")) {
            return Err(Failure::new(m, case()));
        }
        let c = &co.recv;
        if c.error.is_none() && c.status != Some(e.resp.status) {
            return Err(Failure::new(format!("exchange {k}: status {:?} expected {}", c.status, e.resp.status), case()));
        }
        if let Err(m) = compare_message(&e.resp.msg, c, &format!("exchange {k} response")) {
            return Err(Failure::new(m, case()));
        }
    }
    // connection outcome: only the final clean close
    let closes_c = net.close_calls(Side::Client);
    let closes_s = net.close_calls(Side::Server);
    for c in closes_c.iter().chain(closes_s.iter()) {
        if c.code != code::NO_ERROR {
            return Err(Failure::new(format!("connection closed with code {:#x}", c.code), case()));
        }
    }
    if closes_c.len() != 1 {
        return Err(Failure::new(format!("client closed the connection {} times, expected exactly the final clean close", closes_c.len()), case()));
    }
    match &world.client_driver.borrow().closed {
        Some(ConnInfo::Local { code }) if *code == code::NO_ERROR => {}
        other => return Err(Failure::new(format!("client driver ended with {other:?}, expected the clean local close"), case())),
    }
    {
        let d = world.server_driver.borrow();
        let accepted: Vec<u64> = d.accepts.iter().filter_map(|a| a.as_ref().ok().and_then(|x| *x)).collect();
        let mut sorted = accepted.clone();
        sorted.sort();
        if sorted != (0..sc.exchanges.len() as u64).map(|k| k * 4).collect::<Vec<_>>() {
            return Err(Failure::new(format!("server accepted streams {accepted:?}"), case()));
        }
        match d.accepts.last() {
            Some(Err(ConnInfo::RemoteApp { code })) if *code == code::NO_ERROR => {}
            other => return Err(Failure::new(format!("server accept loop ended with {other:?}, expected the peer's clean close"), case())),
        }
    }
    if !ex.pending_tasks().is_empty() {
        return Err(Failure::new(format!("tasks still pending at quiescence: {:?}", ex.pending_tasks()), case()));
    }

    // ---- classification
    let g = net.lock();
    let mut split_frame = false;
    let mut write_pending = false;
    for ((stream, _writer), p) in g.pipes.iter() {
        if p.write_pendings > 0 {
            write_pending = true;
        }
        if stream & 2 != 0 {
            continue;
        }
        // chunk boundaries vs frame spans of the request stream bytes
        let seg = rf::segment(&p.written);
        let mut pos = 0usize;
        for c in p.chunk_sizes.iter().take(p.chunk_sizes.len().saturating_sub(1)) {
            pos += *c as usize;
            if seg.spans.iter().any(|(s, _h, e)| pos > *s && pos < *e) {
                split_frame = true;
            }
        }
    }
    drop(g);
    let multi_piece = sc.exchanges.iter().any(|e| e.req.msg.pieces.len() >= 2 || e.resp.msg.pieces.len() >= 2);
    if sc.exchanges.iter().any(|e| e.req.msg.trailers.is_some() || e.resp.msg.trailers.is_some()) {
        ctx.class("trailers");
    }
    if sc.exchanges.iter().any(|e| {
        let m = by_name_list(&e.req.msg.fields);
        m.values().any(|v| v.len() > 1)
    }) {
        ctx.class("duplicate_names");
    }
    if sc.exchanges.iter().any(|e| e.req.msg.pieces.iter().chain(e.resp.msg.pieces.iter()).any(|p| p.is_empty())) {
        ctx.class("empty_piece");
    }
    if sc.exchanges.iter().any(|e| e.server_shape == 3) {
        ctx.class("split_between_body_and_trailers");
    }
    if sc.exchanges.iter().any(|e| e.client_split || e.server_shape == 2) {
        ctx.class("split_halves");
    }
    if sc.exchanges.iter().any(|e| e.req.method == "CONNECT") {
        ctx.class("connect_form");
    }
    if write_pending {
        ctx.class("write_pending");
    }
    if split_frame {
        ctx.class("frame_split_across_chunks");
    }
    ctx.class(match sc.style {
        Style::Eager => "style_eager",
        Style::Tiny => "style_tiny",
        Style::Random => "style_random",
    });
    if sc.exchanges.len() > 1 {
        ctx.class(if sc.concurrent { "multi_concurrent" } else { "multi_sequential" });
    }
    if multi_piece && split_frame && write_pending {
        ctx.class("nontrivial");
        ctx.nontrivial(&(format!("{:?}", scenario_json(sc)), ex.steps));
    }
    ctx.sample(|| json!({"scenario": scenario_json(sc), "steps": ex.steps, "frame_split": split_frame, "write_pending": write_pending}));
    Ok(())
}

pub fn _b(_: Bytes) {}
