//! C02 - Frame boundaries follow RFC 9114 7.1 exactly, independent of chunking.

use std::cell::Cell;
use std::collections::VecDeque;
use std::rc::Rc;
use std::task::{Context, Poll};

use bytes::{Buf, Bytes};
use h3::frame::{FrameProtocolError, FrameStream, FrameStreamError};
use h3::proto::frame::{Frame, FrameError, PayloadLen, SettingId};
use h3::proto::varint::VarInt;
use h3::quic::{RecvStream, StreamErrorIncoming, StreamId};
use h3::stream::BufRecvStream;
use serde_json::{json, Value};

use crate::reference::frames::{self as rf, End, ErrClass, Ev};
use crate::reference::settings as rs;
use crate::reference::varint as rv;
use crate::runner::{catch, hex, unhex, Ctx, Failure, PropDef, Tier, Verdict};
use crate::tape::Tape;

pub static PROP: PropDef = PropDef {
    id: "C02",
    rule: "case = (byte string, chunking, end of stream present or not, pending pattern). oracle (a): Frame::decode on the contiguous string vs the reference TLV segmenter (same frame and bytes consumed, or the same class of refusal); \
           (b) FrameStream drained over a scripted RecvStream (poll_next, poll_data to exhaustion after each DATA header) must produce the reference event list of the whole string for EVERY chunking, with terminal: \
           clean end -> Ok(None); input ends inside a frame -> with end of stream an error that maps to H3_FRAME_ERROR (UnexpectedEnd / Malformed / InvalidFrameValue), without it Pending; layout errors of complete frames -> H3_FRAME_ERROR class; H2-reserved types -> forbidden. \
           exhaustive: all strings <= 2 bytes (<= 3 thorough) x all chunkings x eos; structured 1-frame strings over 14 types x all 4x4 varint forms x payload alphabet x declared length -1/0/+1 x all 2^(n-1) chunkings x every cut; 2-frame strings in minimal forms. \
           type 0x41 (WebTransport pseudo frame) at a frame boundary is excluded (counted). non-trivial = string with >= 1 complete frame and (a chunk boundary inside a frame header or payload, or a length/field mismatch, or a cut by end of stream); distinct by (bytes, chunking, eos)",
    assumptions: &[
        "reference segmenter written from RFC 9114 section 7 (src/reference/frames.rs)",
        "SETTINGS content errors are judged by C13; here a malformed SETTINGS payload may surface as either the settings or the frame error class",
        "an HTTP/2-reserved frame that is also incomplete may be reported as forbidden, as a frame error (end of stream) or waited for (open stream)",
    ],
    tape_len: 200,
    random_cases: |t| t.pick(300_000, 10_000_000),
    run_tape,
    exhaustive: Some(exhaustive),
    run_direct: Some(run_direct),
    min_classes: &[("split_inside_header", 10000), ("split_inside_payload", 10000), ("cut_by_eos", 10000), ("layout_error", 5000), ("forbidden", 1000), ("unknown_skipped", 10000), ("clean_end", 10000)],
    extra: None,
};

// ------------------------------------------------------------------------------------------------
// scripted receive stream

#[derive(Clone, Debug)]
pub enum Step {
    Chunk(Vec<u8>),
    Pending,
}

pub struct Script {
    steps: VecDeque<Step>,
    eos: bool,
    starved: Rc<Cell<bool>>,
}

impl RecvStream for Script {
    type Buf = Bytes;
    fn poll_data(&mut self, _cx: &mut Context<'_>) -> Poll<Result<Option<Bytes>, StreamErrorIncoming>> {
        match self.steps.pop_front() {
            Some(Step::Chunk(b)) => Poll::Ready(Ok(Some(Bytes::from(b)))),
            Some(Step::Pending) => Poll::Pending,
            None => {
                if self.eos {
                    Poll::Ready(Ok(None))
                } else {
                    self.starved.set(true);
                    Poll::Pending
                }
            }
        }
    }
    fn stop_sending(&mut self, _error_code: u64) {}
    fn recv_id(&self) -> StreamId {
        StreamId::try_from(0u64).unwrap()
    }
}

#[derive(Debug, Clone, PartialEq)]
pub enum Term {
    CleanEnd,
    PendingNext,
    PendingData,
    Err(String, Option<ErrClass>),
    Excluded,
}

pub fn class_of(e: &FrameStreamError) -> (String, Option<ErrClass>) {
    let c = match e {
        FrameStreamError::UnexpectedEnd => Some(ErrClass::Layout),
        FrameStreamError::Proto(FrameProtocolError::Malformed) | FrameStreamError::Proto(FrameProtocolError::InvalidFrameValue) => Some(ErrClass::Layout),
        FrameStreamError::Proto(FrameProtocolError::ForbiddenFrame(_)) => Some(ErrClass::Forbidden),
        FrameStreamError::Proto(FrameProtocolError::Settings(_)) => Some(ErrClass::Settings),
        _ => None,
    };
    (format!("{e:?}"), c)
}

fn settings_to_ev(s: &h3::proto::frame::Settings) -> Vec<(u64, u64)> {
    let mut v = Vec::new();
    for id in rs::KNOWN {
        if let Some(x) = s.get(SettingId(id)) {
            v.push((id, x));
        }
    }
    v
}

fn norm_settings(e: &[(u64, u64)]) -> Vec<(u64, u64)> {
    let mut v: Vec<(u64, u64)> = Vec::new();
    for id in rs::KNOWN {
        if let Some((_, x)) = e.iter().find(|(i, _)| *i == id) {
            v.push((id, *x));
        }
    }
    v
}

fn frame_to_ev(f: Frame<PayloadLen>) -> Result<Ev, String> {
    Ok(match f {
        Frame::Headers(b) => Ev::Headers(b.to_vec()),
        Frame::CancelPush(id) => Ev::CancelPush(VarInt::from(id).into_inner()),
        Frame::Settings(s) => Ev::Settings(settings_to_ev(&s)),
        Frame::PushPromise(pp) => {
            // fields are private: read them from the derived Debug output "PushPromise { id: N, encoded: b\"..\" }"
            let d = format!("{pp:?}");
            let id: u64 = d.split("id: ").nth(1).and_then(|r| r.split(',').next()).and_then(|x| x.trim().parse().ok()).ok_or("cannot parse PushPromise debug")?;
            Ev::PushPromise(id, d.into_bytes())
        }
        Frame::Goaway(v) => Ev::Goaway(v.into_inner()),
        Frame::MaxPushId(id) => Ev::MaxPushId(VarInt::from(id).into_inner()),
        Frame::WebTransportStream(_) => return Err("wt".into()),
        Frame::Grease => return Err("Frame::Grease decoded".into()),
        Frame::Data(_) => unreachable!(),
    })
}

fn ref_pp_debug(id: u64, block: &[u8]) -> Vec<u8> {
    format!("PushPromise {{ id: {}, encoded: {:?} }}", id, Bytes::copy_from_slice(block)).into_bytes()
}

/// drain a FrameStream over the script; returns (events, terminal)
pub fn drain(steps: Vec<Step>, eos: bool) -> Result<(Vec<Ev>, Term), String> {
    catch(move || {
        let starved = Rc::new(Cell::new(false));
        let script = Script { steps: steps.into(), eos, starved: starved.clone() };
        let mut fs: FrameStream<Script, Bytes> = FrameStream::new(BufRecvStream::new(script));
        let waker = futures_util::task::noop_waker();
        let mut cx = Context::from_waker(&waker);
        let mut evs = Vec::new();
        let mut guard = 0u32;
        loop {
            guard += 1;
            if guard > 2_000_000 {
                return (evs, Term::Err("drain does not terminate".into(), None));
            }
            match fs.poll_next(&mut cx) {
                Poll::Pending => {
                    if starved.get() {
                        return (evs, Term::PendingNext);
                    }
                }
                Poll::Ready(Ok(None)) => return (evs, Term::CleanEnd),
                Poll::Ready(Err(e)) => {
                    let (s, c) = class_of(&e);
                    return (evs, Term::Err(s, c));
                }
                Poll::Ready(Ok(Some(Frame::Data(PayloadLen(len))))) => {
                    let mut data = Vec::new();
                    loop {
                        guard += 1;
                        if guard > 2_000_000 {
                            return (evs, Term::Err("drain does not terminate".into(), None));
                        }
                        match fs.poll_data(&mut cx) {
                            Poll::Pending => {
                                if starved.get() {
                                    evs.push(Ev::DataPartial(len as u64, data));
                                    return (evs, Term::PendingData);
                                }
                            }
                            Poll::Ready(Ok(None)) => break,
                            Poll::Ready(Ok(Some(mut b))) => {
                                while b.has_remaining() {
                                    let c = b.chunk().to_vec();
                                    b.advance(c.len());
                                    data.extend_from_slice(&c);
                                }
                            }
                            Poll::Ready(Err(e)) => {
                                evs.push(Ev::DataPartial(len as u64, data));
                                let (s, c) = class_of(&e);
                                return (evs, Term::Err(s, c));
                            }
                        }
                    }
                    if data.len() == len {
                        evs.push(Ev::Data(data));
                    } else {
                        // poll_data said "no more" before the declared length was delivered
                        evs.push(Ev::DataPartial(len as u64, data));
                    }
                }
                Poll::Ready(Ok(Some(f))) => match frame_to_ev(f) {
                    Ok(e) => evs.push(e),
                    Err(w) if w == "wt" => return (evs, Term::Excluded),
                    Err(w) => return (evs, Term::Err(w, None)),
                },
            }
        }
    })
}

fn expected(seg: &rf::Seg, eos: bool) -> (Vec<Ev>, Vec<Term>) {
    let mut evs: Vec<Ev> = seg
        .events
        .iter()
        .filter(|e| !matches!(e, Ev::Skipped(..)))
        .map(|e| match e {
            Ev::Settings(s) => Ev::Settings(norm_settings(s)),
            Ev::PushPromise(id, b) => Ev::PushPromise(*id, ref_pp_debug(*id, b)),
            o => o.clone(),
        })
        .collect();
    let lay = |s: &str| Term::Err(s.to_string(), Some(ErrClass::Layout));
    let terms = match &seg.end {
        End::Boundary => {
            if eos {
                vec![Term::CleanEnd]
            } else {
                vec![Term::PendingNext]
            }
        }
        End::Inside => {
            let in_data = matches!(seg.events.last(), Some(Ev::DataPartial(..)));
            if eos {
                vec![lay("layout")]
            } else if in_data {
                vec![Term::PendingData]
            } else {
                vec![Term::PendingNext]
            }
        }
        End::Error { classes, at } => {
            let complete = seg.spans.iter().any(|(s, _, _)| s == at);
            let mut t: Vec<Term> = classes.iter().map(|c| Term::Err("class".into(), Some(*c))).collect();
            if !complete && !eos {
                t.push(Term::PendingNext);
            }
            if !complete && eos && !classes.contains(&ErrClass::Layout) {
                t.push(lay("layout"));
            }
            t
        }
    };
    // a DataPartial with zero bytes and an open stream: h3 reports the header then pends
    if let Some(Ev::DataPartial(_, _)) = evs.last() {
        // keep
    }
    let _ = &mut evs;
    (evs, terms)
}

fn term_matches(got: &Term, allowed: &[Term]) -> bool {
    allowed.iter().any(|a| match (a, got) {
        (Term::Err(_, ca), Term::Err(_, cg)) => ca == cg && cg.is_some(),
        (x, y) => x == y,
    })
}

pub fn chunk_by_mask(b: &[u8], mask: u64) -> Vec<Vec<u8>> {
    // bit i set => boundary after byte i (i in 0..n-1)
    let mut out = Vec::new();
    let mut cur = Vec::new();
    for (i, x) in b.iter().enumerate() {
        cur.push(*x);
        if i + 1 < b.len() && i < 63 && (mask >> i) & 1 == 1 {
            out.push(std::mem::take(&mut cur));
        }
    }
    if !cur.is_empty() {
        out.push(cur);
    }
    out
}

fn classify(b: &[u8], seg: &rf::Seg, chunks: &[Vec<u8>], eos: bool, ctx: &mut Ctx) -> bool {
    // boundaries
    let mut bounds = Vec::new();
    let mut p = 0;
    for c in chunks.iter().take(chunks.len().saturating_sub(1)) {
        p += c.len();
        bounds.push(p);
    }
    let mut in_hdr = false;
    let mut in_pay = false;
    for (s, h, e) in &seg.spans {
        for bd in &bounds {
            if bd > s && bd < h {
                in_hdr = true;
            }
            if bd > h && bd < e {
                in_pay = true;
            }
        }
    }
    // also boundaries inside the trailing incomplete frame
    if let Some(last) = seg.starts.last() {
        if !seg.spans.iter().any(|(s, _, _)| s == last) {
            if bounds.iter().any(|bd| bd > last) {
                in_hdr = true;
            }
        }
    }
    let cut = eos && matches!(seg.end, End::Inside);
    let layout = matches!(&seg.end, End::Error { classes, .. } if classes.contains(&ErrClass::Layout) && classes.len() == 1);
    let forbidden = matches!(&seg.end, End::Error { classes, .. } if classes.contains(&ErrClass::Forbidden));
    if in_hdr {
        ctx.class("split_inside_header");
    }
    if in_pay {
        ctx.class("split_inside_payload");
    }
    if cut {
        ctx.class("cut_by_eos");
    }
    if layout {
        ctx.class("layout_error");
    }
    if forbidden {
        ctx.class("forbidden");
    }
    if seg.events.iter().any(|e| matches!(e, Ev::Skipped(..))) {
        ctx.class("unknown_skipped");
    }
    if matches!(seg.end, End::Boundary) && eos {
        ctx.class("clean_end");
    }
    let _ = b;
    !seg.spans.is_empty() && (in_hdr || in_pay || layout || cut)
}

pub const KNOWN_NONE: &str = "";

/// oracle (b)
pub fn check_stream(b: &[u8], chunks: Vec<Vec<u8>>, eos: bool, pend: u8, seg: &rf::Seg, ctx: &mut Ctx) -> Verdict {
    ctx.eval();
    let case = || json!({"kind": "stream", "bytes": hex(b), "chunks": chunks.iter().map(|c| c.len()).collect::<Vec<_>>(), "eos": eos, "pend": pend});
    if seg.has_wt {
        ctx.class("excluded_wt_0x41");
        return Ok(());
    }
    let nt = classify(b, seg, &chunks, eos, ctx);
    let mut steps = Vec::new();
    for (i, c) in chunks.iter().enumerate() {
        match pend {
            1 => steps.push(Step::Pending),
            2 if i % 2 == 1 => steps.push(Step::Pending),
            _ => {}
        }
        steps.push(Step::Chunk(c.clone()));
    }
    if pend == 1 {
        steps.push(Step::Pending);
    }
    let (evs, term) = drain(steps, eos).map_err(|p| Failure::direct(format!("panic while draining the frame stream: {p}"), case()))?;
    if term == Term::Excluded {
        ctx.class("excluded_wt_0x41");
        return Ok(());
    }
    let (want_evs, want_terms) = expected(seg, eos);
    // the bytes of a DATA frame that is cut short may or may not be handed out before the error / while
    // waiting (C01/C03 decide delivery); what was handed out must be a prefix of what is there
    let mut evs = evs;
    if let (Some(Ev::DataPartial(lg, dg)), Some(Ev::DataPartial(lw, dw))) = (evs.last().cloned(), want_evs.last()) {
        if lg == *lw && dw.starts_with(&dg) && !matches!(term, Term::CleanEnd) {
            *evs.last_mut().unwrap() = Ev::DataPartial(lg, dw.clone());
        }
    }
    if evs != want_evs {
        return Err(Failure::direct(format!("frames acted on: {} ; RFC 9114 7.1 segmentation: {} (terminal {:?})", show(&evs), show(&want_evs), term), case()));
    }
    if !term_matches(&term, &want_terms) {
        return Err(Failure::direct(format!("after the frames {} the stream ended as {:?}; expected one of {:?}", show(&evs), term, want_terms), case()));
    }
    if nt {
        ctx.nontrivial(&(b.to_vec(), chunks.iter().map(|c| c.len()).collect::<Vec<_>>(), eos, pend));
    }
    ctx.sample(|| json!({"bytes": hex(&b[..b.len().min(32)]), "len": b.len(), "chunks": chunks.iter().map(|c| c.len()).collect::<Vec<_>>(), "eos": eos, "frames": want_evs.len(), "terminal": format!("{term:?}")}));
    Ok(())
}

fn show(e: &[Ev]) -> String {
    let v: Vec<String> = e
        .iter()
        .map(|e| match e {
            Ev::Data(d) => format!("DATA({})", d.len()),
            Ev::DataPartial(l, d) => format!("DATA(declared {l}, got {})", d.len()),
            Ev::Headers(h) => format!("HEADERS({})", h.len()),
            Ev::PushPromise(id, _) => format!("PUSH_PROMISE({id})"),
            o => format!("{o:?}"),
        })
        .collect();
    format!("[{}]", v.join(", "))
}

/// oracle (a): Frame::decode on the contiguous string
pub fn check_decode(b: &[u8], seg: &rf::Seg, ctx: &mut Ctx) -> Verdict {
    ctx.eval();
    let case = || json!({"kind": "decode", "bytes": hex(b)});
    if seg.has_wt && seg.starts.len() == 1 {
        return Ok(());
    }
    let b2 = b.to_vec();
    let (res, used) = catch(move || {
        let mut buf: &[u8] = &b2;
        let r = Frame::decode(&mut buf);
        let used = b2.len() - buf.remaining();
        (r.map(|f| match f {
            Frame::Data(PayloadLen(l)) => Ev::DataPartial(l as u64, vec![]),
            o => frame_to_ev(o).unwrap_or(Ev::Skipped(u64::MAX, 0)),
        }), used)
    })
    .map_err(|p| Failure::direct(format!("panic in Frame::decode: {p}"), case()))?;
    // what the reference says about the FIRST frame
    let first_complete = seg.spans.first().filter(|(s, _, _)| *s == 0).copied();
    let first_err = matches!(&seg.end, End::Error { at, .. } if *at == 0);
    let first_ev = seg.events.first();
    let bad = |msg: String| Err(Failure::direct(msg, case()));
    match res {
        Ok(ev) => {
            match (&ev, first_ev) {
                (Ev::DataPartial(l, _), Some(Ev::Data(d))) if !first_err => {
                    let (_, h, _) = first_complete.unwrap();
                    if *l != d.len() as u64 || used != h {
                        return bad(format!("DATA header: len {l} used {used}, expected len {} used {h}", d.len()));
                    }
                }
                (Ev::DataPartial(l, _), Some(Ev::DataPartial(l2, _))) if !first_err => {
                    if l != l2 {
                        return bad(format!("DATA header: len {l} expected {l2}"));
                    }
                }
                (got, Some(want)) if !first_err && first_complete.is_some() => {
                    let want = match want {
                        Ev::Settings(s) => Ev::Settings(norm_settings(s)),
                        Ev::PushPromise(id, blk) => Ev::PushPromise(*id, ref_pp_debug(*id, blk)),
                        o => o.clone(),
                    };
                    if *got != want || used != first_complete.unwrap().2 {
                        return bad(format!("decoded {got:?} using {used} bytes; expected {want:?} using {}", first_complete.unwrap().2));
                    }
                }
                (got, _) => return bad(format!("decoded {got:?} ({used} bytes) but the reference has no such first frame (end {:?})", seg.end)),
            }
        }
        Err(FrameError::UnknownFrame(ty)) => match first_ev {
            Some(Ev::Skipped(t, _)) if *t == ty && !first_err && used == first_complete.map(|s| s.2).unwrap_or(usize::MAX) => {}
            _ => return bad(format!("UnknownFrame({ty}) using {used} bytes; reference first event {first_ev:?}")),
        },
        Err(FrameError::Incomplete(_)) => {
            // only legitimate when the first frame is incomplete in the input
            let incomplete = first_complete.is_none() && !matches!(first_ev, Some(Ev::DataPartial(..)));
            let h2_incomplete = first_err && first_complete.is_none();
            if !(incomplete || h2_incomplete) || (first_err && first_complete.is_some()) {
                return bad(format!("Incomplete reported for a frame that is completely present (reference: {:?} / {:?})", first_ev, seg.end));
            }
        }
        Err(e) => {
            let class = match &e {
                FrameError::Malformed | FrameError::InvalidFrameValue => Some(ErrClass::Layout),
                FrameError::UnsupportedFrame(_) => Some(ErrClass::Forbidden),
                FrameError::Settings(_) => Some(ErrClass::Settings),
                _ => None,
            };
            let ok = match (&seg.end, class) {
                (End::Error { classes, at }, Some(c)) if *at == 0 => classes.contains(&c),
                _ => false,
            };
            if !ok {
                return bad(format!("refused with {e:?}; reference: first event {first_ev:?}, end {:?}", seg.end));
            }
        }
    }
    Ok(())
}

fn check_all(b: &[u8], masks: &mut dyn Iterator<Item = u64>, ctx: &mut Ctx) -> Verdict {
    let seg = rf::segment(b);
    check_decode(b, &seg, ctx)?;
    for m in masks {
        let chunks = chunk_by_mask(b, m);
        for eos in [true, false] {
            check_stream(b, chunks.clone(), eos, 0, &seg, ctx)?;
        }
        // one pending variant per chunking (alternating) to exercise re-entry
        check_stream(b, chunks.clone(), true, 1, &seg, ctx)?;
    }
    Ok(())
}

fn all_masks(n: usize) -> impl Iterator<Item = u64> {
    let bits = n.saturating_sub(1).min(16);
    0..(1u64 << bits)
}

const TYPES: [u64; 14] = [0x0, 0x1, 0x3, 0x4, 0x5, 0x7, 0xd, 0x2, 0x6, 0x8, 0x9, 0x21, 0x0f, 0x40];

fn payload_options(ty: u64) -> Vec<Vec<u8>> {
    match ty {
        0x3 | 0x7 | 0xd => vec![vec![], vec![0x04], vec![0x40, 0x04], vec![0x04, 0x00], vec![0x40], vec![0xc0, 0, 0], vec![0x08, 0x04, 0x00]],
        0x4 => vec![vec![], vec![0x06, 0x10], vec![0x06], vec![0x02, 0x00], vec![0x06, 1, 0x06, 2], vec![0x21, 0x00, 0x21, 0x01], vec![0x06, 0x40]],
        0x5 => vec![vec![], vec![0x01], vec![0x01, 0xaa], vec![0x40], vec![0x40, 0x01, 0xbb]],
        _ => vec![vec![], vec![0xaa], vec![0x00, 0x00], vec![0x07, 0x01, 0x00]],
    }
}

fn exhaustive(ctx: &mut Ctx, shard: usize, nshards: usize) -> Verdict {
    let mut idx: u64 = 0;
    let mut mine = || {
        idx += 1;
        (idx as usize) % nshards == shard
    };
    // (i) all short strings
    if mine() {
        check_all(&[], &mut std::iter::once(0), ctx)?;
    }
    for a in 0..=255u8 {
        if mine() {
            check_all(&[a], &mut std::iter::once(0), ctx)?;
        }
        for b in 0..=255u8 {
            if !mine() {
                continue;
            }
            check_all(&[a, b], &mut all_masks(2), ctx)?;
            if ctx.tier == Tier::Thorough {
                for c in 0..=255u8 {
                    check_all(&[a, b, c], &mut all_masks(3), ctx)?;
                }
            }
        }
    }
    ctx.subspace("all strings of <= 2 bytes (<= 3 thorough) x all chunkings x eos", ctx.tier.pick(65793, 16843009));
    // (ii) one structured frame: every type x varint forms x payload alphabet x declared length delta x every cut x all chunkings
    let forms = [1usize, 2, 4, 8];
    let mut n1 = 0u64;
    for ty in TYPES {
        for tf in forms {
            for lf in forms {
                if ctx.tier == Tier::Quick && tf > 2 && lf > 2 {
                    continue;
                }
                for p in payload_options(ty) {
                    for delta in [-1i64, 0, 1] {
                        let declared = p.len() as i64 + delta;
                        if declared < 0 {
                            continue;
                        }
                        if !mine() {
                            continue;
                        }
                        let mut b = Vec::new();
                        rf::put_frame_raw(&mut b, ty, tf, declared as u64, lf, &p);
                        // trailing bytes so that "declared one longer" eats something and surplus has a next frame
                        for tail in [&[][..], &[0x21, 0x00][..]] {
                            let mut s = b.clone();
                            s.extend_from_slice(tail);
                            n1 += 1;
                            if s.len() <= 11 {
                                check_all(&s, &mut all_masks(s.len()), ctx)?;
                            } else {
                                let n = s.len();
                                let mut ms = vec![0u64, u64::MAX];
                                for i in 0..n - 1 {
                                    ms.push(1 << i);
                                }
                                check_all(&s, &mut ms.into_iter(), ctx)?;
                            }
                            // every cut, three canonical chunkings
                            for cut in 0..s.len() {
                                check_all(&s[..cut], &mut [0u64, u64::MAX, 0b1010_1010_1010].into_iter(), ctx)?;
                            }
                        }
                    }
                }
            }
        }
    }
    ctx.subspace("1-frame strings: 14 types x varint forms x payload alphabet x declared length -1/0/+1 x tail x (all chunkings | every cut)", n1);
    // (iii) two frames, minimal forms
    let mut n2 = 0u64;
    let t2: &[u64] = if ctx.tier == Tier::Quick { &[0x0, 0x1, 0x7, 0x4, 0x2, 0x21] } else { &TYPES };
    for ty1 in t2 {
        for p1 in payload_options(*ty1) {
            for d1 in [-1i64, 0, 1] {
                let dec1 = p1.len() as i64 + d1;
                if dec1 < 0 {
                    continue;
                }
                for ty2 in t2 {
                    if !mine() {
                        continue;
                    }
                    for p2 in payload_options(*ty2) {
                        for d2 in [0i64, 1] {
                            let mut b = Vec::new();
                            rf::put_frame_raw(&mut b, *ty1, 1, dec1 as u64, 1, &p1);
                            rf::put_frame_raw(&mut b, *ty2, 1, (p2.len() as i64 + d2) as u64, 1, &p2);
                            n2 += 1;
                            if b.len() <= 9 {
                                check_all(&b, &mut all_masks(b.len()), ctx)?;
                            } else {
                                let n = b.len();
                                let mut ms = vec![0u64, u64::MAX];
                                for i in 0..n - 1 {
                                    ms.push(1 << i);
                                }
                                check_all(&b, &mut ms.into_iter(), ctx)?;
                            }
                        }
                    }
                }
            }
        }
    }
    ctx.subspace("2-frame strings in minimal forms x payload alphabets x declared length deltas x chunkings", n2);
    Ok(())
}

fn gen_frame(t: &mut Tape, out: &mut Vec<u8>) {
    let ty = match t.pick(8) {
        0 => 0x0,
        1 => 0x1,
        2 => *t.choose(&TYPES),
        3 => *t.choose(&[0x3u64, 0x7, 0xd, 0x4, 0x5]),
        4 => 0x21 + 0x1f * t.int(0, 1 << 20),
        5 => t.int(0, 0x50),
        6 => *t.choose(&[0x2u64, 0x6, 0x8, 0x9]),
        _ => t.u64() >> 2 >> t.pick(56),
    };
    let tf = *t.choose(&[1usize, 1, 1, 2, 4, 8]);
    let lf = *t.choose(&[1usize, 1, 1, 2, 4, 8]);
    let payload: Vec<u8> = match t.pick(6) {
        0 => t.choose(&payload_options(ty)).clone(),
        1 => t.bytes(8),
        2 => {
            let n = t.int(0, 200) as usize;
            t.bulk(n)
        }
        3 => {
            let n = t.int(0, if ty == 0 { 65536 } else { 4096 }) as usize;
            t.bulk(n)
        }
        4 => rv::encode(t.u64() >> 2 >> t.pick(60)).unwrap(),
        _ => vec![],
    };
    let declared = match t.pick(8) {
        0 => payload.len() as u64 + t.int(1, 3),
        1 => (payload.len() as u64).saturating_sub(t.int(1, 2)),
        2 if t.chance(1, 4) => t.u64() >> 2,
        _ => payload.len() as u64,
    };
    rf::put_frame_raw(out, ty, tf, declared, lf, &payload);
}

fn gen_chunks(t: &mut Tape, b: &[u8]) -> Vec<Vec<u8>> {
    match t.pick(4) {
        0 => {
            if b.is_empty() {
                vec![]
            } else {
                vec![b.to_vec()]
            }
        }
        // byte at a time (bounded: h3's buffer list is quadratic in the number of buffered chunks, which is
        // a cost, not a correctness matter)
        1 if b.len() <= 1024 => b.iter().map(|x| vec![*x]).collect(),
        _ => {
            let mut out = Vec::new();
            let mut pos = 0;
            while pos < b.len() {
                let max = if b.len() > 2048 { *t.choose(&[64usize, 700, 5000, 70000]) } else { *t.choose(&[1usize, 2, 3, 8, 64, 5000]) };
                let n = (t.int(1, max as u64) as usize).min(b.len() - pos);
                out.push(b[pos..pos + n].to_vec());
                pos += n;
            }
            out
        }
    }
}

fn run_tape(tape: &[u16], ctx: &mut Ctx) -> Verdict {
    let mut t = Tape::new(tape);
    let mut b = Vec::new();
    if t.chance(1, 10) {
        b = t.bytes(16);
    } else {
        let n = t.int(1, 4);
        for _ in 0..n {
            gen_frame(&mut t, &mut b);
        }
    }
    if t.chance(1, 3) && !b.is_empty() {
        let cut = t.pick(b.len() + 1);
        b.truncate(cut);
    }
    let eos = t.bool();
    let pend = t.pick(3) as u8;
    let chunks = gen_chunks(&mut t, &b);
    let seg = rf::segment(&b);
    check_decode(&b, &seg, ctx)?;
    check_stream(&b, chunks, eos, pend, &seg, ctx)?;
    // metamorphic partner: the same bytes as one chunk must behave identically (implied by both matching the reference)
    Ok(())
}

fn run_direct(d: &Value, ctx: &mut Ctx) -> Verdict {
    let b = unhex(d["bytes"].as_str().unwrap_or(""));
    let seg = rf::segment(&b);
    match d.get("kind").and_then(|k| k.as_str()) {
        Some("decode") => check_decode(&b, &seg, ctx),
        Some("stream") => {
            let lens: Vec<usize> = d["chunks"].as_array().map(|a| a.iter().map(|x| x.as_u64().unwrap_or(0) as usize).collect()).unwrap_or_default();
            let mut chunks = Vec::new();
            let mut pos = 0;
            for l in lens {
                chunks.push(b[pos..pos + l].to_vec());
                pos += l;
            }
            check_stream(&b, chunks, d["eos"].as_bool().unwrap_or(true), d["pend"].as_u64().unwrap_or(0) as u8, &seg, ctx)
        }
        _ => Err(Failure::fault("unknown direct case")),
    }
}

/// libFuzzer entry: first two bytes choose end-of-stream / pending pattern / chunking seed, the rest are the stream bytes
pub fn fuzz_bytes(data: &[u8], ctx: &mut Ctx) -> Verdict {
    if data.len() < 2 {
        return Ok(());
    }
    let (ctl, b) = data.split_at(2);
    let eos = ctl[0] & 1 == 1;
    let pend = (ctl[0] >> 1) % 3;
    let seg = rf::segment(b);
    check_decode(b, &seg, ctx)?;
    // chunking from a PRF of the second control byte: sizes 1..8 or whole
    let chunks: Vec<Vec<u8>> = match ctl[1] % 4 {
        0 => {
            if b.is_empty() {
                vec![]
            } else {
                vec![b.to_vec()]
            }
        }
        1 => b.iter().map(|x| vec![*x]).collect(),
        _ => {
            let sizes = crate::tape::prf_bytes(ctl[1] as u64, b.len() + 1);
            let mut out = Vec::new();
            let mut pos = 0;
            let mut i = 0;
            while pos < b.len() {
                let n = (1 + (sizes[i] % 8) as usize).min(b.len() - pos);
                out.push(b[pos..pos + n].to_vec());
                pos += n;
                i += 1;
            }
            out
        }
    };
    check_stream(b, chunks, eos, pend, &seg, ctx)
}
