//! C12 - Only well-formed messages reach the application; sent ones are well-formed.

use std::convert::TryFrom;

use h3::proto::headers::Header;
use h3::qpack::HeaderField;
use serde_json::{json, Value};

use crate::reference::fields::{self as rfl, Judgement, MsgKind};
use crate::reference::frames::{self as rf, Ev};
use crate::reference::qpack::{self as rq, Field};
use crate::runner::{catch, hex, unhex, Ctx, Failure, PropDef, Verdict};
use crate::simnet::app::*;
use crate::simnet::exec::{shared, Exec, RunEnd, Shared, Spawner, Style};
use crate::simnet::peer::{self, PeerOp, RawPeer};
use crate::simnet::{Net, Side};
use crate::tape::Tape;

use super::c01;

pub static PROP: PropDef = PropDef {
    id: "C12",
    rule: "receive cases: (request|response|trailers, field list) built from a valid base message plus 0..3 mutations from a catalogue (uppercase / empty / CTL / SP / separator / non-ASCII names, unknown ':x' pseudo names, CR/LF/NUL in values, \
           :method absent or not a token, authority and Host absent / empty / different, :status absent / not three digits, unparsable :scheme/:path/:authority/:protocol; preserving: extra, repeated and reordered regular fields, HTAB/obs-text values, Host only, both equal) or random lists; \
           judged by a three-valued reference validator implementing exactly the statement's clauses: MustAccept => delivered, MustReject => refused, Unspecified => either. Checked at the unit level (Header::try_from + into_*_parts) and at the API \
           (sections encoded by the reference encoder and injected by the raw peer: delivery, or StreamError H3_MESSAGE_ERROR on that stream and no close). \
           send cases: every HEADERS frame h3 writes for generated http::Request/Response/trailer maps, decoded by the reference: pseudo fields before regular ones, each at most once, values as supplied, no pseudo field in trailers. \
           exhaustive: every single mutation x every field position of the base messages. non-trivial = exactly one invalidating mutation, or a valid case with >= 1 preserving mutation; distinct by (kind, field list)",
    assumptions: &[
        "three-valued validator in src/reference/fields.rs; where the statement is silent (misplaced / repeated pseudo fields, pseudo fields in trailers, :status in a request, missing :scheme/:path, C0 controls other than CR/LF/NUL) either behaviour passes",
    ],
    tape_len: 400,
    random_cases: |t| t.pick(600_000, 20_000_000),
    run_tape,
    exhaustive: Some(exhaustive),
    run_direct: Some(run_direct),
    min_classes: &[("unit_must_reject", 20000), ("unit_must_accept", 20000), ("api_refused_message_error", 1000), ("api_delivered", 1000), ("send_checked", 500), ("one_invalidating_mutation", 2000), ("preserving_mutation", 2000)],
    extra: None,
};

fn kind_name(k: MsgKind) -> &'static str {
    match k {
        MsgKind::Request => "request",
        MsgKind::Response => "response",
        MsgKind::Trailers => "trailers",
    }
}

fn fields_json(f: &[Field]) -> Value {
    Value::Array(f.iter().map(|(n, v)| json!([hex(n), hex(v)])).collect())
}

fn fields_show(f: &[Field]) -> Vec<String> {
    f.iter().map(|(n, v)| format!("{}: {}", String::from_utf8_lossy(n).escape_default(), String::from_utf8_lossy(v).escape_default())).collect()
}

/// unit level: is the message delivered?
fn h3_unit(kind: MsgKind, fields: &[Field]) -> Result<Result<(), String>, String> {
    let hf: Vec<HeaderField> = fields.iter().map(|(n, v)| HeaderField::new(n.clone(), v.clone())).collect();
    catch(move || {
        let h = Header::try_from(hf).map_err(|e| format!("{e}"))?;
        match kind {
            MsgKind::Request => h.into_request_parts().map(|_| ()).map_err(|e| format!("{e}")),
            MsgKind::Response => h.into_response_parts().map(|_| ()).map_err(|e| format!("{e}")),
            MsgKind::Trailers => {
                let _ = h.into_fields();
                Ok(())
            }
        }
    })
}

fn check_unit(kind: MsgKind, fields: &[Field], label: u8, ctx: &mut Ctx) -> Verdict {
    ctx.eval();
    let case = || json!({"kind": "unit", "msg": kind_name(kind), "fields": fields_json(fields), "show": fields_show(fields)});
    let got = h3_unit(kind, fields).map_err(|p| Failure::direct(format!("panic while validating a decoded field section: {p}"), case()))?;
    let j = rfl::judge(kind, fields);
    match (&j, &got) {
        (Judgement::MustAccept, Ok(())) => ctx.class("unit_must_accept"),
        (Judgement::MustReject(_), Err(_)) => ctx.class("unit_must_reject"),
        (Judgement::Unspecified(_), _) => ctx.class("unit_unspecified"),
        (Judgement::MustAccept, Err(e)) => return Err(Failure::direct(format!("well-formed {} refused: {e}", kind_name(kind)), case())),
        (Judgement::MustReject(why), Ok(())) => return Err(Failure::direct(format!("malformed {} would be handed to the application: {why}", kind_name(kind)), case())),
    }
    match label {
        1 => {
            ctx.class("one_invalidating_mutation");
            ctx.nontrivial(&(kind_name(kind), fields.to_vec()));
        }
        2 => {
            ctx.class("preserving_mutation");
            ctx.nontrivial(&(kind_name(kind), fields.to_vec()));
        }
        _ => {}
    }
    ctx.sample(|| json!({"msg": kind_name(kind), "fields": fields_show(fields), "reference": format!("{j:?}"), "delivered": got.is_ok()}));
    Ok(())
}

// ------------------------------------------------------------------------------------------------
// API level

#[derive(Default, Debug, Clone)]
struct Obs {
    result: Option<Result<(), ErrInfo>>,
    second: Option<Result<(), ErrInfo>>,
    driver: Option<ConnInfo>,
}

async fn api_server(net: Net, kind: MsgKind, o: Shared<Obs>, sp: Spawner) {
    let mut conn: ServerConn = match h3::server::builder().send_grease(false).build(net.conn(Side::Server)).await {
        Ok(c) => c,
        Err(_) => return,
    };
    let mut n = 0;
    loop {
        match conn.accept().await {
            Ok(Some(r)) => {
                n += 1;
                let first = n == 1;
                let o2 = o.clone();
                sp.spawn("handler", async move {
                    let res = r.resolve_request().await;
                    let r = match res {
                        Err(e) => Err(err_info(&e)),
                        Ok((_req, mut s)) => {
                            if kind == MsgKind::Trailers && first {
                                let mut out = Ok(());
                                loop {
                                    match s.recv_data().await {
                                        Ok(Some(_)) => {}
                                        Ok(None) => break,
                                        Err(e) => {
                                            out = Err(err_info(&e));
                                            break;
                                        }
                                    }
                                }
                                if out.is_ok() {
                                    out = s.recv_trailers().await.map(|_| ()).map_err(|e| err_info(&e));
                                }
                                out
                            } else {
                                Ok(())
                            }
                        }
                    };
                    if first {
                        o2.borrow_mut().result = Some(r);
                    } else {
                        o2.borrow_mut().second = Some(r);
                    }
                    std::future::pending::<()>().await;
                });
            }
            Ok(None) => break,
            Err(e) => {
                o.borrow_mut().driver = Some(conn_info(&e));
                break;
            }
        }
    }
    std::future::pending::<()>().await;
    drop(conn);
}

async fn api_client(net: Net, kind: MsgKind, o: Shared<Obs>, sp: Spawner) {
    let Ok((conn, mut sr)): Result<(ClientConn, SendReq), _> = h3::client::builder().send_grease(false).build(net.conn(Side::Client)).await else { return };
    let o2 = o.clone();
    sp.spawn("client-driver", async move {
        let mut conn = conn;
        let e = std::future::poll_fn(|cx| conn.poll_close(cx)).await;
        o2.borrow_mut().driver = Some(conn_info(&e));
        std::future::pending::<()>().await;
        drop(conn);
    });
    let mut keep = Vec::new();
    for k in 0..2 {
        let req = http::Request::builder().method("GET").uri("https://example.com/").body(()).unwrap();
        let Ok(mut s) = sr.send_request(req).await else { break };
        let _ = s.finish().await;
        let r = match s.recv_response().await {
            Err(e) => Err(err_info(&e)),
            Ok(_) => {
                if kind == MsgKind::Trailers && k == 0 {
                    let mut out = Ok(());
                    loop {
                        match s.recv_data().await {
                            Ok(Some(_)) => {}
                            Ok(None) => break,
                            Err(e) => {
                                out = Err(err_info(&e));
                                break;
                            }
                        }
                    }
                    if out.is_ok() {
                        out = s.recv_trailers().await.map(|_| ()).map_err(|e| err_info(&e));
                    }
                    out
                } else {
                    Ok(())
                }
            }
        };
        if k == 0 {
            o.borrow_mut().result = Some(r);
        } else {
            o.borrow_mut().second = Some(r);
        }
        // keep the stream until the end
        keep.push(s);
    }
    std::future::pending::<()>().await;
    drop((sr, keep));
}

/// `server`: the h3 end under test is the server (request / request trailers), else the client
fn check_api(kind: MsgKind, server: bool, fields: &[Field], spell: usize, ctx: &mut Ctx) -> Verdict {
    ctx.eval();
    fastrand::seed(13);
    let case = || json!({"kind": "api", "msg": kind_name(kind), "server": server, "fields": fields_json(fields), "show": fields_show(fields), "spell": spell});
    let net = Net::new();
    let side = if server { Side::Server } else { Side::Client };
    let raw = side.other();
    net.set_raw(raw);
    let o: Shared<Obs> = shared(Obs::default());
    let mut ex = Exec::new();
    let sp = ex.spawner.clone();
    if server {
        ex.spawn("server", api_server(net.clone(), kind, o.clone(), sp.clone()));
    } else {
        ex.spawn("client", api_client(net.clone(), kind, o.clone(), sp.clone()));
    }
    // encode with the reference encoder, spelling chosen by `spell`
    let mut sec = Vec::new();
    rq::put_prefix(&mut sec, 0, 0);
    for (i, f) in fields.iter().enumerate() {
        let sp = match (spell + i) % 3 {
            0 => rq::Spelling::Indexed { which: 0, redundant: 0 },
            1 => rq::Spelling::NameRef { which: 0, never_index: i % 2 == 0, huff_value: spell % 2 == 0, redundant: 0 },
            _ => rq::Spelling::Literal { never_index: false, huff_name: spell % 2 == 1, huff_value: i % 2 == 0, redundant: 0 },
        };
        rq::put_field(&mut sec, f, sp);
    }
    let frame = rf::frame(rf::T_HEADERS, &sec);
    let mut ops = vec![PeerOp::OpenUni(0), PeerOp::Write(0, peer::control_preamble(&[]))];
    if server {
        ops.push(PeerOp::OpenBidi(1));
        if kind == MsgKind::Trailers {
            ops.push(PeerOp::Write(1, peer::post_request_headers()));
            ops.push(PeerOp::Write(1, peer::data_frame(b"x")));
        }
        ops.extend([PeerOp::Write(1, frame.clone()), PeerOp::Fin(1), PeerOp::Barrier]);
        ops.extend([PeerOp::OpenBidi(2), PeerOp::Write(2, peer::simple_request_headers()), PeerOp::Fin(2)]);
    } else {
        ops.extend([PeerOp::Barrier, PeerOp::Adopt(1, 0)]);
        if kind == MsgKind::Trailers {
            ops.push(PeerOp::Write(1, peer::simple_response_headers("200")));
            ops.push(PeerOp::Write(1, peer::data_frame(b"x")));
        }
        ops.extend([PeerOp::Write(1, frame.clone()), PeerOp::Fin(1), PeerOp::Barrier]);
        ops.extend([PeerOp::Adopt(2, 4), PeerOp::Write(2, peer::simple_response_headers("204")), PeerOp::Fin(2)]);
    }
    let mut peer = RawPeer::new(raw, ops);
    let empty: [u16; 0] = [];
    let mut t = Tape::new(&empty);
    let end = ex.run(&net, &mut peer, &mut t, if spell % 2 == 0 { Style::Eager } else { Style::Tiny }, 200_000);
    if end == RunEnd::StepBound {
        return Err(Failure::fault("step bound"));
    }
    if let Some((task, p)) = ex.panics().first() {
        return Err(Failure::direct(format!("panic in task {task}: {p}"), case()));
    }
    let obs = o.borrow().clone();
    let closes = net.close_calls(side);
    let j = rfl::judge(kind, fields);
    let fail = |m: String| Err(Failure::direct(format!("{m}; observed {obs:?}, closes {closes:?}, reference {j:?}"), case()));
    if !closes.is_empty() || obs.driver.is_some() {
        return fail("a malformed or well-formed message must never close the connection".into());
    }
    let delivered = matches!(obs.result, Some(Ok(())));
    let refused_ok = matches!(&obs.result, Some(Err(ErrInfo::Stream { code })) if *code == code::MESSAGE_ERROR);
    match j {
        Judgement::MustAccept if !delivered => return fail("well-formed message was not delivered".into()),
        Judgement::MustReject(_) if !refused_ok => return fail("malformed message must be refused with H3_MESSAGE_ERROR on that stream".into()),
        Judgement::Unspecified(_) if !delivered && !refused_ok => return fail("message neither delivered nor refused with H3_MESSAGE_ERROR".into()),
        _ => {}
    }
    if !matches!(obs.second, Some(Ok(()))) {
        return fail("the following message on the same connection was not delivered".into());
    }
    if delivered {
        ctx.class("api_delivered");
    } else {
        ctx.class("api_refused_message_error");
    }
    Ok(())
}

// ------------------------------------------------------------------------------------------------
// send side

fn check_send(tape: &[u16], ctx: &mut Ctx) -> Verdict {
    ctx.eval();
    let mut t = Tape::new(tape);
    let sc = c01::gen_scenario(&mut t);
    let r = c01::execute(&sc, &mut t);
    let case = || json!({"kind": "send", "scenario": c01::scenario_json(&sc)});
    if r.end == RunEnd::StepBound {
        return Err(Failure::fault("step bound"));
    }
    if let Some((task, p)) = r.ex.panics().first() {
        return Err(Failure::new(format!("panic in task {task}: {p}"), case()));
    }
    let g = r.net.lock();
    for k in 0..sc.exchanges.len() {
        let co = r.world.client[k].borrow();
        let Some(stream) = co.stream_id else { continue };
        let e = &sc.exchanges[k];
        for (writer, is_req) in [(Side::Client, true), (Side::Server, false)] {
            let Some(p) = g.pipes.get(&(stream, writer)) else { continue };
            let seg = rf::segment(&p.written);
            let mut hdr_idx = 0;
            for ev in &seg.events {
                let Ev::Headers(h) = ev else { continue };
                let fields = rq::decode_section(h).map_err(|e| Failure::new(format!("h3 wrote a field section the reference cannot decode: {e:?}"), case()))?;
                let first = hdr_idx == 0;
                hdr_idx += 1;
                // pseudo fields first, each at most once
                let mut seen_regular = false;
                let mut pseudo: Vec<(&[u8], &[u8])> = Vec::new();
                for (n, v) in &fields {
                    if n.first() == Some(&b':') {
                        if seen_regular {
                            return Err(Failure::new(format!("pseudo-header field {} after a regular field", String::from_utf8_lossy(n)), case()));
                        }
                        if pseudo.iter().any(|(pn, _)| *pn == n.as_slice()) {
                            return Err(Failure::new(format!("pseudo-header field {} sent twice", String::from_utf8_lossy(n)), case()));
                        }
                        pseudo.push((n, v));
                    } else {
                        seen_regular = true;
                    }
                }
                let pv = |n: &[u8]| pseudo.iter().find(|(pn, _)| *pn == n).map(|(_, v)| v.to_vec());
                if !first {
                    if !pseudo.is_empty() {
                        return Err(Failure::new("pseudo-header field in trailers", case()));
                    }
                    continue;
                }
                if is_req {
                    let uri: http::Uri = e.req.uri.parse().unwrap();
                    if pv(b":method").as_deref() != Some(e.req.method.as_bytes()) {
                        return Err(Failure::new(format!(":method on the wire {:?}, supplied {}", pv(b":method").map(|v| String::from_utf8_lossy(&v).to_string()), e.req.method), case()));
                    }
                    if pv(b":authority").as_deref() != uri.authority().map(|a| a.as_str().as_bytes()) {
                        return Err(Failure::new(":authority on the wire differs from the supplied one", case()));
                    }
                    let plain_connect = e.req.method == "CONNECT" && e.req.protocol.is_none();
                    if !plain_connect {
                        let want_path = match uri.path_and_query() {
                            Some(pq) if !pq.path().is_empty() || e.req.method == "OPTIONS" => pq.as_str().to_string(),
                            Some(pq) => format!("/{}", pq.query().map(|q| format!("?{q}")).unwrap_or_default()),
                            None => "/".to_string(),
                        };
                        let got = pv(b":path").map(|v| String::from_utf8_lossy(&v).to_string());
                        // an empty path is sent as "/" (RFC 9114 4.3.1); with a query the statement's "path (with query)" applies
                        let norm = |s: &str| if s.is_empty() || s.starts_with('?') { format!("/{s}") } else { s.to_string() };
                        if got.as_deref().map(norm) != Some(norm(&want_path)) {
                            return Err(Failure::new(format!(":path on the wire {got:?}, supplied {want_path:?}"), case()));
                        }
                        if let Some(s) = uri.scheme_str() {
                            if pv(b":scheme").as_deref() != Some(s.as_bytes()) {
                                return Err(Failure::new(":scheme on the wire differs from the supplied one", case()));
                            }
                        }
                    }
                    if pv(b":protocol").as_deref() != e.req.protocol.map(|p| p.as_bytes()) {
                        return Err(Failure::new(":protocol on the wire differs from the supplied one", case()));
                    }
                    if pv(b":status").is_some() {
                        return Err(Failure::new(":status in a request", case()));
                    }
                } else {
                    if pv(b":status") != Some(e.resp.status.to_string().into_bytes()) {
                        return Err(Failure::new(format!(":status on the wire {:?}, supplied {}", pv(b":status"), e.resp.status), case()));
                    }
                    if pseudo.len() != 1 {
                        return Err(Failure::new("response carries pseudo-header fields other than :status", case()));
                    }
                }
            }
        }
    }
    ctx.class("send_checked");
    Ok(())
}

// ------------------------------------------------------------------------------------------------
// generators

fn f(l: &[(&str, &str)]) -> Vec<Field> {
    l.iter().map(|(n, v)| (n.as_bytes().to_vec(), v.as_bytes().to_vec())).collect()
}

fn bases() -> Vec<(MsgKind, Vec<Field>)> {
    vec![
        (MsgKind::Request, f(&[(":method", "GET"), (":scheme", "https"), (":authority", "example.com"), (":path", "/"), ("accept", "*/*"), ("x-a", "1")])),
        (MsgKind::Request, f(&[(":method", "POST"), (":scheme", "http"), (":authority", "example.com:8080"), (":path", "/a/b?c=d"), ("host", "example.com:8080"), ("content-type", "text/plain"), ("cookie", "a=b"), ("cookie", "c=d")])),
        (MsgKind::Request, f(&[(":method", "CONNECT"), (":authority", "example.com:443"), ("x-b", "2")])),
        (MsgKind::Request, f(&[(":method", "CONNECT"), (":protocol", "webtransport"), (":scheme", "https"), (":authority", "example.com"), (":path", "/wt"), ("origin", "https://example.com")])),
        (MsgKind::Response, f(&[(":status", "200"), ("content-type", "text/html; charset=utf-8"), ("set-cookie", "a=1"), ("set-cookie", "b=2")])),
        (MsgKind::Response, f(&[(":status", "404")])),
        (MsgKind::Trailers, f(&[("x-checksum", "abc"), ("x-t", "")])),
        (MsgKind::Trailers, vec![]),
    ]
}

const NMUT: usize = 53;

/// apply mutation `m` at position `pos`; returns label: 1 = invalidating, 2 = preserving, 0 = unspecified/other, None = not applicable
fn mutate(kind: MsgKind, fields: &mut Vec<Field>, m: usize, pos: usize) -> Option<u8> {
    let regular: Vec<usize> = fields.iter().enumerate().filter(|(_, (n, _))| n.first() != Some(&b':')).map(|(i, _)| i).collect();
    let any = if fields.is_empty() { None } else { Some(pos % fields.len()) };
    let reg = if regular.is_empty() { None } else { Some(regular[pos % regular.len()]) };
    let remove = |fields: &mut Vec<Field>, name: &[u8]| -> bool {
        let before = fields.len();
        fields.retain(|(n, _)| n.as_slice() != name);
        fields.len() != before
    };
    let set = |fields: &mut Vec<Field>, name: &[u8], v: &[u8]| -> bool {
        let mut hit = false;
        for (n, val) in fields.iter_mut() {
            if n.as_slice() == name {
                *val = v.to_vec();
                hit = true;
            }
        }
        hit
    };
    let name_mut = |fields: &mut Vec<Field>, i: Option<usize>, g: &dyn Fn(&mut Vec<u8>)| -> Option<u8> {
        let i = i?;
        if fields[i].0.is_empty() {
            // an earlier mutation already emptied this name
            return None;
        }
        g(&mut fields[i].0);
        Some(1)
    };
    match m {
        // ---- invalidating: names
        0 => name_mut(fields, reg, &|n| n[0] = n[0].to_ascii_uppercase()),
        1 => name_mut(fields, reg, &|n| {
            let l = n.len() - 1;
            n[l] = n[l].to_ascii_uppercase();
            if !n[l].is_ascii_uppercase() {
                n.push(b'Z');
            }
        }),
        2 => name_mut(fields, reg, &|n| n.clear()),
        3 => name_mut(fields, reg, &|n| n.push(b' ')),
        4 => name_mut(fields, reg, &|n| n.insert(1.min(n.len()), 0x01)),
        5 => name_mut(fields, reg, &|n| n.push(b':')),
        6 => name_mut(fields, reg, &|n| n.push(b'(')),
        7 => name_mut(fields, reg, &|n| n.push(0xc3)),
        8 => name_mut(fields, reg, &|n| n.push(b'\n')),
        9 => {
            fields.insert(pos % (fields.len() + 1), (b":x".to_vec(), b"1".to_vec()));
            Some(1)
        }
        10 => {
            fields.insert(0, (b":unknown-pseudo".to_vec(), b"".to_vec()));
            Some(1)
        }
        // ---- invalidating: values
        11 | 12 | 13 => {
            let i = any?;
            let b = [b'\r', b'\n', 0u8][m - 11];
            let at = pos % (fields[i].1.len() + 1);
            fields[i].1.insert(at, b);
            Some(1)
        }
        // ---- invalidating: request line
        14 if kind == MsgKind::Request => remove(fields, b":method").then_some(1),
        15 if kind == MsgKind::Request => set(fields, b":method", b"GE T").then_some(1),
        16 if kind == MsgKind::Request => set(fields, b":method", b"").then_some(1),
        17 if kind == MsgKind::Request => {
            let a = remove(fields, b":authority");
            let h = remove(fields, b"host");
            (a || h).then_some(1)
        }
        18 if kind == MsgKind::Request => {
            let a = set(fields, b":authority", b"");
            remove(fields, b"host");
            a.then_some(1)
        }
        19 if kind == MsgKind::Request => {
            remove(fields, b":authority");
            remove(fields, b"host");
            fields.push((b"host".to_vec(), b"".to_vec()));
            Some(1)
        }
        20 if kind == MsgKind::Request => {
            if !fields.iter().any(|(n, _)| n == b":authority") {
                return None;
            }
            remove(fields, b"host");
            fields.push((b"host".to_vec(), b"other.example".to_vec()));
            Some(1)
        }
        21 if kind == MsgKind::Request => set(fields, b":scheme", b"ht tp").then_some(1),
        22 if kind == MsgKind::Request => set(fields, b":scheme", b"1http").then_some(1),
        23 if kind == MsgKind::Request => set(fields, b":path", b"/a b").then_some(1),
        24 if kind == MsgKind::Request => set(fields, b":authority", b"exa mple.com").then_some(1),
        25 if kind == MsgKind::Request => set(fields, b":protocol", b"web transport").then_some(1),
        // ---- invalidating: status
        26 if kind == MsgKind::Response => remove(fields, b":status").then_some(1),
        27 if kind == MsgKind::Response => set(fields, b":status", b"20").then_some(1),
        28 if kind == MsgKind::Response => set(fields, b":status", b"2000").then_some(1),
        29 if kind == MsgKind::Response => set(fields, b":status", b"2x0").then_some(1),
        30 if kind == MsgKind::Response => set(fields, b":status", b"").then_some(1),
        // ---- preserving
        31 => {
            fields.push((b"x-extra".to_vec(), b"value".to_vec()));
            Some(2)
        }
        32 => {
            let i = reg?;
            let d = fields[i].clone();
            fields.push(d);
            Some(2)
        }
        33 => {
            if regular.len() < 2 {
                return None;
            }
            let a = regular[pos % regular.len()];
            let b = regular[(pos + 1) % regular.len()];
            if fields[a].0 == b"host" || fields[b].0 == b"host" {
                return None;
            }
            fields.swap(a, b);
            Some(2)
        }
        34 => {
            let i = reg?;
            if fields[i].0 == b"host" {
                return None;
            }
            fields[i].1 = b"tab\there".to_vec();
            Some(2)
        }
        35 => {
            let i = reg?;
            if fields[i].0 == b"host" {
                return None;
            }
            fields[i].1 = vec![b'o', 0xe9, 0x80, 0xff];
            Some(2)
        }
        36 if kind == MsgKind::Request => {
            // Host only
            let a = fields.iter().find(|(n, _)| n == b":authority").map(|(_, v)| v.clone())?;
            remove(fields, b":authority");
            remove(fields, b"host");
            fields.push((b"host".to_vec(), a));
            Some(0)
        }
        37 if kind == MsgKind::Request => {
            // both equal
            let a = fields.iter().find(|(n, _)| n == b":authority").map(|(_, v)| v.clone())?;
            remove(fields, b"host");
            fields.push((b"host".to_vec(), a));
            Some(2)
        }
        38 => {
            let i = reg?;
            if fields[i].0 == b"host" {
                return None;
            }
            fields[i].1 = Vec::new();
            Some(2)
        }
        // ---- unspecified territory (either behaviour passes, but no panic and no connection error)
        39 => {
            let i = any?;
            fields[i].1.push(0x7f);
            Some(0)
        }
        40 => {
            let i = any?;
            fields[i].1.insert(0, 0x1f);
            Some(0)
        }
        41 => {
            // pseudo after regular
            if fields.is_empty() || fields[0].0.first() != Some(&b':') {
                return None;
            }
            let p = fields.remove(0);
            fields.push(p);
            Some(0)
        }
        42 => {
            // duplicate pseudo
            if fields.is_empty() || fields[0].0.first() != Some(&b':') {
                return None;
            }
            let p = fields[0].clone();
            fields.insert(1, p);
            Some(0)
        }
        43 => {
            fields.insert(0, (b":status".to_vec(), b"200".to_vec()));
            Some(0)
        }
        // ---- invalidating: Host and :authority differ in ways a lenient comparison would miss
        44 if kind == MsgKind::Request => {
            // only in ASCII case
            let a = fields.iter().find(|(n, _)| n == b":authority").map(|(_, v)| v.clone())?;
            let i = a.iter().position(|b| b.is_ascii_lowercase())?;
            let mut h = a.clone();
            h[(i + pos) % a.len()] = h[(i + pos) % a.len()].to_ascii_uppercase();
            if h == a {
                h[i] = h[i].to_ascii_uppercase();
            }
            remove(fields, b"host");
            fields.push((b"host".to_vec(), h));
            Some(1)
        }
        45 if kind == MsgKind::Request => {
            // only in the port
            let a = fields.iter().find(|(n, _)| n == b":authority").map(|(_, v)| v.clone())?;
            let mut h = a.clone();
            if let Some(c) = h.iter().rposition(|b| *b == b':') {
                h.truncate(c);
            } else {
                h.extend_from_slice(b":443");
            }
            remove(fields, b"host");
            fields.push((b"host".to_vec(), h));
            Some(1)
        }
        46 if kind == MsgKind::Request => {
            // trailing dot / userinfo
            let a = fields.iter().find(|(n, _)| n == b":authority").map(|(_, v)| v.clone())?;
            let mut h = a.clone();
            if pos % 2 == 0 {
                h.push(b'.');
            } else {
                let mut u = b"u@".to_vec();
                u.extend_from_slice(&h);
                h = u;
            }
            remove(fields, b"host");
            fields.push((b"host".to_vec(), h));
            Some(1)
        }
        47 if kind == MsgKind::Request => {
            // Host only, but empty, next to a valid looking x-host
            let had = remove(fields, b":authority");
            remove(fields, b"host");
            fields.push((b"x-host".to_vec(), b"example.com".to_vec()));
            had.then_some(1)
        }
        // ---- invalidating: pseudo-header values that are one character away from a valid one (what a lenient parser -
        // an integer parser for :status, a trimming one for the others - lets through)
        48 if kind == MsgKind::Response => {
            const NEAR: [&[u8]; 12] = [b"0200", b"+200", b"00404", b"+0404", b"200 ", b" 200", b"2 00", b"-200", b"20\t0", b"200\0", b"2e2", b"0x64"];
            set(fields, b":status", NEAR[pos % NEAR.len()]).then_some(1)
        }
        49 if kind == MsgKind::Request => {
            const NEAR: [&[u8]; 6] = [b"GET ", b" GET", b"GET\t", b"G\0ET", b"GET,POST", b"GET/1"];
            set(fields, b":method", NEAR[pos % NEAR.len()]).then_some(1)
        }
        50 if kind == MsgKind::Request => {
            const NEAR: [&[u8]; 5] = [b"https:", b"https ", b" https", b"ht/tp", b"https://"];
            set(fields, b":scheme", NEAR[pos % NEAR.len()]).then_some(1)
        }
        51 if kind == MsgKind::Request => {
            const NEAR: [&[u8]; 4] = [b"/a\tb", b"/ ", b" /", b"/a\0"];
            set(fields, b":path", NEAR[pos % NEAR.len()]).then_some(1)
        }
        52 if kind == MsgKind::Request => {
            // illegal bytes behind a '#': a URI parser that drops the fragment never looks at them (D25)
            const NEAR: [&[u8]; 6] = [b"/a#\0", b"/a#\r\n", b"/#\n", b"/a?b#c d", b"/a#\x7f", b"#\0\xc2\x80"];
            set(fields, b":path", NEAR[pos % NEAR.len()]).then_some(1)
        }
        _ => None,
    }
}

fn exhaustive(ctx: &mut Ctx, shard: usize, nshards: usize) -> Verdict {
    let mut idx = 0usize;
    let mut n = 0u64;
    for (bi, (kind, base)) in bases().into_iter().enumerate() {
        if bi % nshards == shard {
            check_unit(kind, &base, 0, ctx)?;
            for server in [true, false] {
                if (kind == MsgKind::Request) == server || kind == MsgKind::Trailers {
                    check_api(kind, server, &base, bi, ctx)?;
                }
            }
        }
        for m in 0..NMUT {
            for pos in 0..base.len().max(1) + 1 {
                idx += 1;
                if idx % nshards != shard {
                    continue;
                }
                let mut fl = base.clone();
                let Some(label) = mutate(kind, &mut fl, m, pos) else { continue };
                n += 1;
                // the label is what the catalogue intends; the reference validator is the judge
                let j = rfl::judge(kind, &fl);
                let lab = match (label, j) {
                    (1, Judgement::MustReject(_)) => 1,
                    (2, Judgement::MustAccept) => 2,
                    _ => 0,
                };
                check_unit(kind, &fl, lab, ctx)?;
                for server in [true, false] {
                    if (kind == MsgKind::Request) == server || kind == MsgKind::Trailers {
                        check_api(kind, server, &fl, m + pos, ctx)?;
                    }
                }
            }
        }
    }
    // every byte value inside a regular field name and inside a value (found by the fz_fields libFuzzer target: the
    // generator's name alphabets had no double quote)
    for b in 0..=255u8 {
        if (b as usize) % nshards != shard {
            continue;
        }
        for (kind, base) in [(MsgKind::Request, bases()[0].1.clone()), (MsgKind::Response, bases()[4].1.clone()), (MsgKind::Trailers, bases()[6].1.clone())] {
            for pos in 0..3 {
                let mut fl = base.clone();
                let mut name = b"xab".to_vec();
                name.insert(pos.min(name.len()), b);
                fl.push((name, b"v".to_vec()));
                let lab = if matches!(rfl::judge(kind, &fl), Judgement::MustReject(_)) { 1 } else { 0 };
                check_unit(kind, &fl, lab, ctx)?;
                let mut fl = base.clone();
                let mut val = b"val".to_vec();
                val.insert(pos, b);
                fl.push((b"x-v".to_vec(), val));
                check_unit(kind, &fl, 0, ctx)?;
            }
        }
    }
    let _ = n;
    if shard == 0 {
        ctx.subspace("every byte value at three positions of a regular field name and of a value, in a request, a response and trailers", 256 * 18);
        ctx.subspace("every single catalogue mutation x every field position of the 8 base messages, unit level and API level (both roles for trailers)", idx as u64);
    }
    Ok(())
}

fn gen_random_field(t: &mut Tape, kind: MsgKind) -> Field {
    let names: [&[u8]; 20] = [b":method", b":scheme", b":authority", b":path", b":status", b":protocol", b"host", b"accept", b"x", b"", b":x", b"X-Up", b"a b", b"content-length", b"te", b":Method", b"cookie", b"na\xc3me", b"x-ok", b"x_y.z~"];
    let n = match t.pick(4) {
        0 => t.bytes(6),
        _ => names[t.pick(names.len())].to_vec(),
    };
    let vals: [&[u8]; 20] = [b"GET", b"https", b"example.com", b"/", b"200", b"webtransport", b"", b"a b", b"a\rb", b"a\nb", b"a\0b", b"CONNECT", b"http", b"/x?y", b"99", b"1000", b"tab\t", b"\xff\xfe", b"exa mple", b"example.com:443"];
    let v = match t.pick(4) {
        0 => t.bytes(8),
        _ => vals[t.pick(vals.len())].to_vec(),
    };
    let _ = kind;
    (n, v)
}

fn run_tape(tape: &[u16], ctx: &mut Ctx) -> Verdict {
    let mut t = Tape::new(tape);
    match t.pick(10) {
        0 => check_send(&tape[t.position().min(tape.len())..], ctx),
        1 | 2 | 3 => {
            // random list
            let kind = [MsgKind::Request, MsgKind::Response, MsgKind::Trailers][t.pick(3)];
            let n = t.int(0, 8) as usize;
            let fl: Vec<Field> = (0..n).map(|_| gen_random_field(&mut t, kind)).collect();
            check_unit(kind, &fl, 0, ctx)
        }
        _ => {
            let b = bases();
            let (kind, base) = b[t.pick(b.len())].clone();
            let mut fl = base;
            let k = t.int(0, 3) as usize;
            let mut labels = Vec::new();
            for _ in 0..k {
                let m = t.pick(NMUT);
                let pos = t.pick(12);
                if let Some(l) = mutate(kind, &mut fl, m, pos) {
                    labels.push(l);
                }
            }
            let j = rfl::judge(kind, &fl);
            let inval = labels.iter().filter(|l| **l == 1).count();
            let pres = labels.iter().filter(|l| **l == 2).count();
            let lab = if inval == 1 && matches!(j, Judgement::MustReject(_)) {
                1
            } else if inval == 0 && pres >= 1 && j == Judgement::MustAccept {
                2
            } else {
                0
            };
            check_unit(kind, &fl, lab, ctx)?;
            if t.chance(1, 8) {
                let server = if kind == MsgKind::Trailers { t.bool() } else { kind == MsgKind::Request };
                check_api(kind, server, &fl, t.pick(6), ctx)?;
            }
            Ok(())
        }
    }
}

fn parse_fields(v: &Value) -> Vec<Field> {
    v.as_array().map(|a| a.iter().map(|p| (unhex(p[0].as_str().unwrap_or("")), unhex(p[1].as_str().unwrap_or("")))).collect()).unwrap_or_default()
}

fn run_direct(d: &Value, ctx: &mut Ctx) -> Verdict {
    let kind = match d["msg"].as_str() {
        Some("request") => MsgKind::Request,
        Some("response") => MsgKind::Response,
        _ => MsgKind::Trailers,
    };
    let fl = parse_fields(&d["fields"]);
    match d["kind"].as_str() {
        Some("unit") => check_unit(kind, &fl, 0, ctx),
        Some("api") => check_api(kind, d["server"].as_bool().unwrap_or(true), &fl, d["spell"].as_u64().unwrap_or(0) as usize, ctx),
        _ => Err(Failure::fault("unknown direct case")),
    }
}

/// libFuzzer entry: first byte = message kind, then fields as (name length, name, value length, value)
pub fn fuzz_bytes(data: &[u8], ctx: &mut Ctx) -> Verdict {
    let Some((sel, mut b)) = data.split_first() else { return Ok(()) };
    let kind = [MsgKind::Request, MsgKind::Response, MsgKind::Trailers][(*sel % 3) as usize];
    let mut fields: Vec<Field> = Vec::new();
    while let Some((nl, rest)) = b.split_first() {
        let nl = (*nl as usize % 24).min(rest.len());
        let (n, rest) = rest.split_at(nl);
        let Some((vl, rest)) = rest.split_first() else { break };
        let vl = (*vl as usize % 32).min(rest.len());
        let (v, rest) = rest.split_at(vl);
        fields.push((n.to_vec(), v.to_vec()));
        b = rest;
        if fields.len() >= 12 {
            break;
        }
    }
    check_unit(kind, &fields, 0, ctx)
}
