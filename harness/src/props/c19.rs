//! C19 - WebTransport streams stay attached to their session, bytes intact.

use std::rc::Rc;

use bytes::{Buf, Bytes};
use h3::quic::{RecvStream as _, SendStream as _, SendStreamUnframed as _, StreamId};
use h3::webtransport::SessionId;
use h3_webtransport::server::{AcceptedBi, WebTransportSession};
use serde_json::{json, Value};

use crate::reference::varint as rv;
use crate::runner::{hex, Ctx, Failure, PropDef, Verdict};
use crate::simnet::app::*;
use crate::simnet::exec::{shared, Exec, RunEnd, Shared, Spawner, Style};
use crate::simnet::peer::{self, PeerOp, RawPeer};
use crate::simnet::{Net, Side, SimConn, UNLIMITED};
use crate::tape::{prf_bytes, Tape};

pub static PROP: PropDef = PropDef {
    id: "C19",
    rule: "case = server with WebTransport enabled or not x the CONNECT request is the (j+1)-th request of the connection, j in {0,1,2,15,16,17} (session ids 0..68, crossing the 1->2 byte varint boundary; earlier requests are real, completed requests) x \
           peer-opened WebTransport bidi (0x41, session id, payload) and uni (0x54 in each varint form, session id, payload) streams whose bytes arrive in two steps cut at EVERY offset (so the header/payload boundary falls at every position, including header and payload in one chunk), with and without FIN, \
           x server-opened bidi and uni streams with payloads, written under unlimited / zero / small send credit (the header is then taken a few bytes at a time) x a datagram each way x read API (poll_data or AsyncRead with small buffers). oracle: session_id() == the CONNECT stream id; every server-opened stream starts with the type varint followed by that id (reference varints) and then exactly the payload; \
           the SessionId attached to each accepted stream == the id on the wire; bytes read == bytes the peer wrote after the header, complete and in order; a stream whose header is complete is surfaced without needing further bytes; \
           with WebTransport disabled no WebTransport uni stream is surfaced; never a connection error. non-trivial = CONNECT stream id != 0 or header and payload sharing a chunk; distinct by (scenario, cuts)",
    assumptions: &["the client side is a scripted raw peer (h3-webtransport has no client)", "simulated transport, see C01"],
    tape_len: 200,
    random_cases: |t| t.pick(80_000, 3_000_000),
    run_tape,
    exhaustive: Some(exhaustive),
    run_direct: Some(run_direct),
    min_classes: &[("nonzero_session", 2000), ("header_and_payload_one_chunk", 500), ("cut_inside_header", 1000), ("uni_surfaced", 2000), ("bidi_surfaced", 2000), ("wt_disabled_uni_hidden", 300), ("server_opened_checked", 2000), ("server_header_taken_in_pieces", 500), ("datagram_roundtrip", 1000)],
    extra: None,
};

#[derive(Debug, Clone, PartialEq, Eq, Hash)]
pub struct PeerWt {
    pub bidi: bool,
    pub type_form: usize,
    pub session: u64,
    pub payload: Vec<u8>,
    /// the first `cut` bytes of header+payload arrive first, the rest after everything settled
    pub cut: usize,
    pub fin: bool,
}

#[derive(Debug, Clone)]
pub struct Scn {
    pub j: usize,
    pub wt_enabled: bool,
    pub peer_streams: Vec<PeerWt>,
    pub server_opens: Vec<(bool, Vec<u8>)>,
    pub async_read: Option<usize>,
    pub style: Style,
    pub datagrams: bool,
    /// send credit every stream of the server starts with (more is granted by scheduler moves, a few bytes at a time under
    /// the Tiny style): the WebTransport stream headers the server writes are then taken in pieces
    pub credit: u64,
}

type Session = WebTransportSession<SimConn, Bytes>;

#[derive(Default, Debug, Clone)]
struct Obs {
    session_id: Option<u64>,
    accept_error: Option<String>,
    /// (quic stream id, attached session id, bytes, saw end)
    accepted: Vec<(u64, u64, Vec<u8>, bool)>,
    errors: Vec<String>,
    opened: Vec<(bool, u64)>,
    datagram_in: Option<(u64, Vec<u8>)>,
    requests_served: u32,
}

fn sid(s: SessionId) -> u64 {
    StreamId::from(s).into_inner()
}

async fn read_all<R: h3::quic::RecvStream + futures_util::io::AsyncRead + Unpin>(mut r: R, o: Shared<Obs>, idx: usize, async_read: Option<usize>) {
    loop {
        let chunk: Result<Option<Vec<u8>>, String> = match async_read {
            None => std::future::poll_fn(|cx| r.poll_data(cx)).await.map(|b| {
                b.map(|mut b| {
                    let mut v = Vec::new();
                    while b.has_remaining() {
                        let c = b.chunk().to_vec();
                        b.advance(c.len());
                        v.extend(c);
                    }
                    v
                })
            }).map_err(|e| format!("{e}")),
            Some(n) => {
                let mut buf = vec![0u8; n.max(1)];
                match std::future::poll_fn(|cx| std::pin::Pin::new(&mut r).poll_read(cx, &mut buf)).await {
                    Ok(0) => Ok(None),
                    Ok(k) => Ok(Some(buf[..k].to_vec())),
                    Err(e) => Err(format!("{e}")),
                }
            }
        };
        match chunk {
            Ok(Some(c)) => o.borrow_mut().accepted[idx].2.extend(c),
            Ok(None) => {
                o.borrow_mut().accepted[idx].3 = true;
                break;
            }
            Err(e) => {
                o.borrow_mut().errors.push(format!("read: {e}"));
                break;
            }
        }
    }
    std::future::pending::<()>().await;
    drop(r);
}

async fn server_app(net: Net, s: Scn, o: Shared<Obs>, sp: Spawner) {
    let mut b = h3::server::builder();
    b.send_grease(false).enable_webtransport(s.wt_enabled).enable_extended_connect(true).enable_datagram(true).max_webtransport_sessions(1);
    let mut conn: ServerConn = match b.build(net.conn(Side::Server)).await {
        Ok(c) => c,
        Err(e) => {
            o.borrow_mut().accept_error = Some(format!("{e}"));
            return;
        }
    };
    let session = loop {
        match conn.accept().await {
            Ok(Some(r)) => {
                let (req, mut stream) = match r.resolve_request().await {
                    Ok(x) => x,
                    Err(e) => {
                        o.borrow_mut().errors.push(format!("resolve: {e}"));
                        continue;
                    }
                };
                let is_wt = req.method() == http::Method::CONNECT && req.extensions().get::<h3::ext::Protocol>() == Some(&h3::ext::Protocol::WEB_TRANSPORT);
                if is_wt {
                    match Session::accept(req, stream, conn).await {
                        Ok(s) => break s,
                        Err(e) => {
                            o.borrow_mut().accept_error = Some(format!("{e}"));
                            return;
                        }
                    }
                } else {
                    let _ = stream.send_response(http::Response::builder().status(200).body(()).unwrap()).await;
                    let _ = stream.finish().await;
                    o.borrow_mut().requests_served += 1;
                }
            }
            Ok(None) => return,
            Err(e) => {
                o.borrow_mut().accept_error = Some(format!("{e}"));
                return;
            }
        }
    };
    o.borrow_mut().session_id = Some(sid(session.session_id()));
    let session = Rc::new(session);
    // the documented pattern (examples/webtransport_server.rs): ONE task selects over accept_bi, accept_uni and
    // read_datagram. The futures are kept across iterations (pinned, not re-created on every turn), which is the
    // cancel-safe form of that select!.
    {
        let (se, o2, sp2, ar, dgrams) = (session.clone(), o.clone(), sp.clone(), s.async_read, s.datagrams);
        sp.spawn("session-loop", async move {
            use std::future::Future;
            use std::task::Poll;
            if dgrams {
                let mut tx = se.datagram_sender();
                if let Err(e) = tx.send_datagram(Bytes::from_static(b"server datagram")) {
                    o2.borrow_mut().errors.push(format!("send_datagram: {e}"));
                }
            }
            let mut rx = se.datagram_reader();
            let mut dg = if dgrams { Some(Box::pin(rx.read_datagram())) } else { None };
            let mut bi = Some(Box::pin(se.accept_bi()));
            let mut uni = Some(Box::pin(se.accept_uni()));
            enum Ev<A, B, C> {
                Bi(A),
                Uni(B),
                Dg(C),
            }
            loop {
                let ev = std::future::poll_fn(|cx| {
                    if let Some(f) = dg.as_mut() {
                        if let Poll::Ready(x) = f.as_mut().poll(cx) {
                            return Poll::Ready(Ev::Dg(x));
                        }
                    }
                    if let Some(f) = uni.as_mut() {
                        if let Poll::Ready(x) = f.as_mut().poll(cx) {
                            return Poll::Ready(Ev::Uni(x));
                        }
                    }
                    if let Some(f) = bi.as_mut() {
                        if let Poll::Ready(x) = f.as_mut().poll(cx) {
                            return Poll::Ready(Ev::Bi(x));
                        }
                    }
                    Poll::Pending
                })
                .await;
                match ev {
                    Ev::Dg(x) => {
                        dg = None;
                        match x {
                            Ok(d) => o2.borrow_mut().datagram_in = Some((d.stream_id().into_inner(), d.payload().to_vec())),
                            Err(e) => o2.borrow_mut().errors.push(format!("read_datagram: {e}")),
                        }
                    }
                    Ev::Uni(x) => {
                        uni = None;
                        match x {
                            Ok(Some((id, stream))) => {
                                let idx = {
                                    let mut g = o2.borrow_mut();
                                    g.accepted.push((stream.recv_id().into_inner(), sid(id), Vec::new(), false));
                                    g.accepted.len() - 1
                                };
                                sp2.spawn("read-uni", read_all(stream, o2.clone(), idx, ar));
                                uni = Some(Box::pin(se.accept_uni()));
                            }
                            Ok(None) => {}
                            Err(e) => o2.borrow_mut().errors.push(format!("accept_uni: {e}")),
                        }
                    }
                    Ev::Bi(x) => {
                        bi = None;
                        match x {
                            Ok(Some(AcceptedBi::BidiStream(id, stream))) => {
                                let idx = {
                                    let mut g = o2.borrow_mut();
                                    g.accepted.push((stream.recv_id().into_inner(), sid(id), Vec::new(), false));
                                    g.accepted.len() - 1
                                };
                                if (stream.recv_id().into_inner() / 4) % 2 == 1 {
                                    // the way examples/webtransport_server.rs does it: split first, read on the receive half
                                    let (tx, rx) = h3::quic::BidiStream::<Bytes>::split(stream);
                                    let o3 = o2.clone();
                                    sp2.spawn("read-bi-half", async move {
                                        read_all(rx, o3, idx, ar).await;
                                        std::future::pending::<()>().await;
                                        drop(tx);
                                    });
                                } else {
                                    sp2.spawn("read-bi", read_all(stream, o2.clone(), idx, ar));
                                }
                                bi = Some(Box::pin(se.accept_bi()));
                            }
                            Ok(Some(AcceptedBi::Request(_req, mut st))) => {
                                let _ = st.send_response(http::Response::builder().status(200).body(()).unwrap()).await;
                                let _ = st.finish().await;
                                o2.borrow_mut().requests_served += 1;
                                bi = Some(Box::pin(se.accept_bi()));
                            }
                            Ok(None) => {}
                            Err(e) => o2.borrow_mut().errors.push(format!("accept_bi: {e}")),
                        }
                    }
                }
                if dg.is_none() && uni.is_none() && bi.is_none() {
                    break;
                }
            }
            std::future::pending::<()>().await;
        });
    }
    // open streams
    let id = session.session_id();
    // opened streams are kept (not dropped, not leaked) until the case ends
    let mut keep_bi = Vec::new();
    let mut keep_uni = Vec::new();
    for (bidi, payload) in s.server_opens.clone() {
        if bidi {
            match session.open_bi(id).await {
                Ok(mut st) => {
                    o.borrow_mut().opened.push((true, st.send_id().into_inner()));
                    let mut buf = Bytes::from(payload);
                    while buf.has_remaining() {
                        if let Err(e) = std::future::poll_fn(|cx| st.poll_send(cx, &mut buf)).await {
                            o.borrow_mut().errors.push(format!("poll_send: {e}"));
                            break;
                        }
                    }
                    let _ = std::future::poll_fn(|cx| st.poll_finish(cx)).await;
                    keep_bi.push(st);
                }
                Err(e) => o.borrow_mut().errors.push(format!("open_bi: {e}")),
            }
        } else {
            match session.open_uni(id).await {
                Ok(mut st) => {
                    o.borrow_mut().opened.push((false, st.send_id().into_inner()));
                    let mut buf = Bytes::from(payload);
                    while buf.has_remaining() {
                        if let Err(e) = std::future::poll_fn(|cx| st.poll_send(cx, &mut buf)).await {
                            o.borrow_mut().errors.push(format!("poll_send: {e}"));
                            break;
                        }
                    }
                    let _ = std::future::poll_fn(|cx| st.poll_finish(cx)).await;
                    keep_uni.push(st);
                }
                Err(e) => o.borrow_mut().errors.push(format!("open_uni: {e}")),
            }
        }
    }
    std::future::pending::<()>().await;
    drop((session, keep_bi, keep_uni));
}

fn wt_header(p: &PeerWt) -> Vec<u8> {
    let mut h = if p.bidi { rv::encode_len(0x41, p.type_form.max(2)).unwrap() } else { rv::encode_len(0x54, p.type_form.max(2)).unwrap() };
    h.extend(rv::encode(p.session).unwrap());
    h
}

fn scn_json(s: &Scn) -> Value {
    json!({"j": s.j, "wt_enabled": s.wt_enabled, "async_read": s.async_read, "style": format!("{:?}", s.style), "datagrams": s.datagrams, "credit": if s.credit == UNLIMITED { -1 } else { s.credit as i64 },
        "peer_streams": s.peer_streams.iter().map(|p| json!({"bidi": p.bidi, "type_form": p.type_form, "session": p.session, "payload": hex(&p.payload), "cut": p.cut, "fin": p.fin})).collect::<Vec<_>>(),
        "server_opens": s.server_opens.iter().map(|(b, p)| json!([b, hex(p)])).collect::<Vec<_>>()})
}

pub fn run_scn(s: &Scn, sched: &[u16], ctx: &mut Ctx) -> Verdict {
    ctx.eval();
    fastrand::seed(31);
    let net = Net::new();
    net.set_raw(Side::Client);
    net.lock().default_credit[Side::Server.idx()] = s.credit;
    let o: Shared<Obs> = shared(Obs::default());
    let mut ex = Exec::new();
    let sp = ex.spawner.clone();
    ex.spawn("server", server_app(net.clone(), s.clone(), o.clone(), sp.clone()));
    let connect_id = 4 * s.j as u64;
    let mut ops = vec![PeerOp::OpenUni(0), PeerOp::Write(0, peer::control_preamble(&[(0x2b60_3742, 1), (0x33, 1), (0x8, 1), (0x2b60_3743, 1)])), PeerOp::Barrier];
    for k in 0..s.j {
        ops.extend([PeerOp::OpenBidi(100 + k), PeerOp::Write(100 + k, peer::simple_request_headers()), PeerOp::Fin(100 + k)]);
    }
    ops.push(PeerOp::OpenBidi(1));
    ops.push(PeerOp::Write(1, peer::headers_frame(&[(":method", "CONNECT"), (":protocol", "webtransport"), (":scheme", "https"), (":authority", "example.com"), (":path", "/wt")])));
    ops.push(PeerOp::Barrier);
    // first parts
    for (i, p) in s.peer_streams.iter().enumerate() {
        let key = 10 + i;
        let mut all = wt_header(p);
        all.extend_from_slice(&p.payload);
        ops.push(if p.bidi { PeerOp::OpenBidi(key) } else { PeerOp::OpenUni(key) });
        let cut = p.cut.min(all.len());
        if cut > 0 {
            ops.push(PeerOp::Write(key, all[..cut].to_vec()));
        }
    }
    if s.datagrams {
        let mut d = rv::encode(s.j as u64).unwrap();
        d.extend_from_slice(b"client datagram");
        ops.push(PeerOp::Datagram(d));
    }
    // hook 7: snapshot what has been surfaced while only the first parts are there
    ops.extend([PeerOp::Barrier, PeerOp::Hook(7)]);
    for (i, p) in s.peer_streams.iter().enumerate() {
        let key = 10 + i;
        let mut all = wt_header(p);
        all.extend_from_slice(&p.payload);
        let cut = p.cut.min(all.len());
        if cut < all.len() {
            ops.push(PeerOp::Write(key, all[cut..].to_vec()));
        }
        if p.fin {
            ops.push(PeerOp::Fin(key));
        }
    }
    let mut peer = Snap { peer: RawPeer::new(Side::Client, ops), o: o.clone(), snapshot: None };
    let mut t = Tape::new(sched);
    let end = ex.run(&net, &mut peer, &mut t, s.style, 400_000);
    let obs = o.borrow().clone();
    let closes = net.close_calls(Side::Server);
    let case = || json!({"scenario": scn_json(s), "sched": sched, "session_id": obs.session_id, "accept_error": obs.accept_error, "errors": obs.errors, "closes": format!("{closes:?}"),
        "accepted": obs.accepted.iter().map(|(q, sid, b, e)| format!("stream {q} session {sid} bytes {} end {e}", hex(b))).collect::<Vec<_>>(), "surfaced_before_rest": peer.snapshot});
    if end == RunEnd::StepBound {
        return Err(Failure::fault("step bound"));
    }
    if let Some((task, p)) = ex.panics().first() {
        return Err(Failure::direct(format!("panic in task {task}: {p}"), case()));
    }
    let fail = |m: String| Err(Failure::direct(m, case()));
    if !closes.is_empty() {
        return fail(format!("connection closed with {:#x}", closes[0].code));
    }
    if let Some(e) = &obs.accept_error {
        return fail(format!("session was not accepted: {e}"));
    }
    if !obs.errors.is_empty() {
        return fail(format!("errors: {:?}", obs.errors));
    }
    if obs.requests_served as usize != s.j {
        return fail(format!("{} of the {} earlier requests were served", obs.requests_served, s.j));
    }
    if obs.session_id != Some(connect_id) {
        return fail(format!("session_id() is {:?}, the CONNECT request is on stream {connect_id}", obs.session_id));
    }
    // server-opened streams
    for (bidi, qid) in &obs.opened {
        let w = net.written(*qid, Side::Server);
        let k = obs.opened.iter().position(|x| x.1 == *qid).unwrap();
        let payload = &s.server_opens[k].1;
        let mut want = rv::encode(if *bidi { 0x41 } else { 0x54 }).unwrap();
        want.extend(rv::encode(connect_id).unwrap());
        want.extend_from_slice(payload);
        if w != want {
            return fail(format!("server-opened {} stream {qid} carries {} ; expected type, session id {connect_id}, payload: {}", if *bidi { "bidi" } else { "uni" }, hex(&w[..w.len().min(24)]), hex(&want[..want.len().min(24)])));
        }
        ctx.class("server_opened_checked");
        let hdr = want.len() - payload.len();
        let first = net.lock().pipes.get(&(*qid, Side::Server)).and_then(|p| p.accept_sizes.first().copied()).unwrap_or(0) as usize;
        if first < hdr {
            ctx.class("server_header_taken_in_pieces");
        }
    }
    if obs.opened.len() != s.server_opens.len() {
        return fail(format!("{} of {} streams were opened", obs.opened.len(), s.server_opens.len()));
    }
    // peer streams
    let snap = peer.snapshot.clone().unwrap_or_default();
    for (i, p) in s.peer_streams.iter().enumerate() {
        let qid = net.lock().events.iter().filter_map(|(_, e)| if let crate::simnet::NetEvent::Open { side: Side::Client, stream } = e { Some(*stream) } else { None }).filter(|st| (st & 2 == 0) == p.bidi).nth(if p.bidi { s.j + 1 + s.peer_streams[..i].iter().filter(|x| x.bidi).count() } else { 1 + s.peer_streams[..i].iter().filter(|x| !x.bidi).count() });
        let Some(qid) = qid else { return Err(Failure::fault("cannot find the peer stream")) };
        let hdr = wt_header(p);
        let total = hdr.len() + p.payload.len();
        let got = obs.accepted.iter().find(|a| a.0 == qid);
        let hidden = !p.bidi && !s.wt_enabled;
        if hidden {
            if got.is_some() {
                return fail(format!("WebTransport uni stream {qid} was surfaced although the extension is disabled"));
            }
            ctx.class("wt_disabled_uni_hidden");
            continue;
        }
        let cut = p.cut.min(total);
        // surfaced as soon as the header is complete
        // (accept_bi takes streams one at a time in id order and waits for the first frame of each: an earlier stream
        // whose header is still incomplete legitimately delays later ones - not part of the statement)
        let earlier_complete = s.peer_streams[..i].iter().filter(|x| x.bidi == p.bidi).all(|x| x.cut >= wt_header(x).len());
        if cut >= hdr.len() && earlier_complete && !snap.contains(&qid) {
            return fail(format!("stream {qid}: the complete header (and {} payload bytes) had arrived, nothing else was in flight, but the stream was not surfaced until more bytes came", cut - hdr.len()));
        }
        let Some((_, attached, bytes, ended)) = got else {
            return fail(format!("stream {qid} with a complete WebTransport header was never surfaced"));
        };
        if *attached != p.session {
            return fail(format!("stream {qid}: attached session id {attached}, id on the wire {}", p.session));
        }
        if *bytes != p.payload {
            return fail(format!("stream {qid}: read {} ; the peer wrote {} after the header", hex(bytes), hex(&p.payload)));
        }
        if p.fin != *ended {
            return fail(format!("stream {qid}: end of stream seen: {ended}, FIN sent: {}", p.fin));
        }
        ctx.class(if p.bidi { "bidi_surfaced" } else { "uni_surfaced" });
        if cut > 0 && cut < hdr.len() {
            ctx.class("cut_inside_header");
        }
        if cut > hdr.len() || (cut == total && !p.payload.is_empty()) {
            ctx.class("header_and_payload_one_chunk");
        }
    }
    if s.datagrams {
        match &obs.datagram_in {
            Some((st, p)) if *st == connect_id && p == b"client datagram" => {}
            other => return fail(format!("datagram for the session: {other:?}")),
        }
        let sent = net.lock().ends[Side::Server.idx()].datagrams_sent.clone();
        let mut want = rv::encode(s.j as u64).unwrap();
        want.extend_from_slice(b"server datagram");
        if sent != vec![want.clone()] {
            return fail(format!("datagram sent by the session: {:?}, expected {}", sent.iter().map(|d| hex(d)).collect::<Vec<_>>(), hex(&want)));
        }
        ctx.class("datagram_roundtrip");
    }
    if s.j > 0 {
        ctx.class("nonzero_session");
    }
    let shared_chunk = s.peer_streams.iter().any(|p| p.cut > wt_header(p).len());
    if s.j > 0 || shared_chunk {
        ctx.nontrivial(&(format!("{:?}", scn_json(s)), sched.to_vec()));
    }
    ctx.sample(|| case());
    Ok(())
}

struct Snap {
    peer: RawPeer,
    o: Shared<Obs>,
    snapshot: Option<Vec<u64>>,
}
impl crate::simnet::exec::Actor for Snap {
    fn ready(&mut self, quiet: bool) -> bool {
        self.peer.ready(quiet)
    }
    fn step(&mut self, net: &Net, sp: &Spawner) {
        self.peer.step(net, sp);
        if self.snapshot.is_none() && self.peer.hooks_run.contains(&7) {
            self.snapshot = Some(self.o.borrow().accepted.iter().map(|a| a.0).collect());
        }
    }
}

const JS: [usize; 6] = [0, 1, 2, 15, 16, 17];

fn exhaustive(ctx: &mut Ctx, shard: usize, nshards: usize) -> Verdict {
    let mut idx = 0usize;
    for j in JS {
        for wt_enabled in [true, false] {
            for bidi in [true, false] {
                for form in [2usize, 4, 8].into_iter().chain(if bidi { vec![] } else { vec![1] }) {
                    for plen in [0usize, 1, 5, 16] {
                        let p0 = PeerWt { bidi, type_form: form, session: 4 * j as u64, payload: prf_bytes(plen as u64 + 3, plen), cut: 0, fin: true };
                        let total = wt_header(&p0).len() + plen;
                        for cut in 0..=total {
                            for fin in [true, false] {
                                idx += 1;
                                if idx % nshards != shard {
                                    continue;
                                }
                                // keep the quick tier moderate: long forms only for a few sessions
                                if ctx.tier == crate::runner::Tier::Quick && form == 8 && j != 16 {
                                    continue;
                                }
                                let mut p = p0.clone();
                                p.cut = cut;
                                p.fin = fin;
                                let s = Scn { j, wt_enabled, peer_streams: vec![p], server_opens: vec![(bidi, b"srv".to_vec())], async_read: if cut % 2 == 0 { None } else { Some(3) }, style: if cut % 3 == 0 { Style::Tiny } else { Style::Eager }, datagrams: cut == 0, credit: if cut % 3 == 0 && fin { 0 } else { UNLIMITED } };
                                run_scn(&s, &[], ctx)?;
                            }
                        }
                    }
                }
            }
        }
    }
    if shard == 0 {
        ctx.subspace("j in {0,1,2,15,16,17} x enabled/disabled x bidi/uni x type varint forms x payload 0/1/5/16 x every cut offset x FIN or not", idx as u64);
    }
    Ok(())
}

fn run_tape(tape: &[u16], ctx: &mut Ctx) -> Verdict {
    let mut t = Tape::new(tape);
    let j = if t.chance(3, 4) { *t.choose(&JS) } else { t.int(0, 40) as usize };
    let n = t.int(0, 4) as usize;
    let peer_streams: Vec<PeerWt> = (0..n)
        .map(|_| {
            let bidi = t.bool();
            let plen = match t.pick(3) {
                0 => t.int(0, 4) as usize,
                1 => t.int(0, 64) as usize,
                _ => t.int(0, 3000) as usize,
            };
            let payload = t.bulk(plen);
            let type_form = *t.choose(&[1usize, 2, 2, 4, 8]);
            // mostly the session of this connection; sometimes another (well formed) session id: it must be attached as is
            let session = if t.chance(5, 6) { 4 * j as u64 } else { 4 * t.int(0, 5000) };
            let hdr = 2 + rv::min_len(session).unwrap();
            let cut = match t.pick(4) {
                0 => t.pick(hdr + 1),
                1 => hdr + t.pick(plen + 1),
                2 => hdr + plen + 8,
                _ => t.pick(hdr + plen + 1),
            };
            PeerWt { bidi, type_form, session, payload, cut, fin: t.bool() }
        })
        .collect();
    let m = t.int(0, 3) as usize;
    let server_opens = (0..m)
        .map(|_| {
            let n = t.int(0, 200) as usize;
            (t.bool(), t.bulk(n))
        })
        .collect();
    let s = Scn { j, wt_enabled: t.chance(4, 5), peer_streams, server_opens, async_read: if t.bool() { None } else { Some(*t.choose(&[1usize, 2, 7, 64, 4096])) }, style: [Style::Eager, Style::Tiny, Style::Random][t.pick(3)], datagrams: t.bool(), credit: match t.pick(6) { 0 | 1 | 2 => UNLIMITED, 3 => 0, 4 => t.int(1, 12), _ => t.int(1, 2000) } };
    let sched: Vec<u16> = tape[t.position().min(tape.len())..].to_vec();
    run_scn(&s, &sched, ctx)
}

fn run_direct(d: &Value, ctx: &mut Ctx) -> Verdict {
    let sc = &d["scenario"];
    let peer_streams: Vec<PeerWt> = sc["peer_streams"]
        .as_array()
        .map(|a| a.iter().map(|p| PeerWt { bidi: p["bidi"].as_bool().unwrap_or(false), type_form: p["type_form"].as_u64().unwrap_or(2) as usize, session: p["session"].as_u64().unwrap_or(0), payload: crate::runner::unhex(p["payload"].as_str().unwrap_or("")), cut: p["cut"].as_u64().unwrap_or(0) as usize, fin: p["fin"].as_bool().unwrap_or(false) }).collect())
        .unwrap_or_default();
    let server_opens: Vec<(bool, Vec<u8>)> = sc["server_opens"].as_array().map(|a| a.iter().map(|x| (x[0].as_bool().unwrap_or(false), crate::runner::unhex(x[1].as_str().unwrap_or("")))).collect()).unwrap_or_default();
    let style = match sc["style"].as_str() {
        Some("Eager") => Style::Eager,
        Some("Tiny") => Style::Tiny,
        _ => Style::Random,
    };
    let sched: Vec<u16> = d["sched"].as_array().map(|a| a.iter().map(|x| x.as_u64().unwrap_or(0) as u16).collect()).unwrap_or_default();
    let s = Scn { j: sc["j"].as_u64().unwrap_or(0) as usize, wt_enabled: sc["wt_enabled"].as_bool().unwrap_or(true), peer_streams, server_opens, async_read: sc["async_read"].as_u64().map(|x| x as usize), style, datagrams: sc["datagrams"].as_bool().unwrap_or(false), credit: sc["credit"].as_i64().map(|c| if c < 0 { UNLIMITED } else { c as u64 }).unwrap_or(UNLIMITED) };
    run_scn(&s, &sched, ctx)
}
