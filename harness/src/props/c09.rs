//! C09 - Shutdown drains: accept() ends exactly when all accepted requests have.

use std::cell::Cell;
use std::rc::Rc;

use serde_json::{json, Value};

use crate::reference::frames as rf;
use crate::reference::qpack as rq;
use crate::runner::{Ctx, Failure, PropDef, Verdict};
use crate::simnet::app::*;
use crate::simnet::exec::{shared, Exec, RunEnd, Shared, Signal, Spawner, Style};
use crate::simnet::peer::{self, PeerOp, RawPeer};
use crate::simnet::{Net, Side, UNLIMITED};
use crate::tape::{prf_cells, Tape};

pub static PROP: PropDef = PropDef {
    id: "C09",
    rule: "case = history of 0..4 requests, each ending in one of {normal finish, resolver dropped before resolution, FIN before HEADERS, peer RESET before HEADERS, peer RESET after HEADERS, malformed headers, \
           split into halves dropped at different moments, never ending (handler parked on an open stream)}, ending immediately or on a later signal, with the peer's GOAWAY at any position, under tape-chosen interleavings. \
           ground truth: a request has ended when every handle derived from its resolver is dropped or consumed by a failed resolve_request (each handler bumps a counter in the same poll, right after dropping its last handle). \
           oracle at quiescence: GOAWAY processed and all handed-out requests ended => the accept loop has observed Ok(None); some request not ended, or no GOAWAY => it has not; and at the instant accept() returns Ok(None) no handed-out request is alive. \
           exhaustive: all histories of <= 3 requests x 8 endings x immediate/late x GOAWAY position. non-trivial = >= 1 request ended in a non-normal way and the GOAWAY arrived while >= 1 request was alive; distinct by (history, schedule)",
    assumptions: &["quiescence of the closed system decides 'forever' (DESIGN.md 2.5)", "the application stops calling accept() after Ok(None)"],
    tape_len: 200,
    random_cases: |t| t.pick(160_000, 15_000_000),
    run_tape,
    exhaustive: Some(exhaustive),
    run_direct: Some(run_direct),
    min_classes: &[("drained_none", 3000), ("still_running_pending", 3000), ("nonnormal_end_with_goaway_while_alive", 2000), ("ending_dropped_resolver", 1000), ("ending_fin_before_headers", 1000), ("ending_split_halves", 1000)],
    extra: None,
};

#[derive(Debug, Clone, Copy, PartialEq, Eq, Hash)]
pub enum Ending {
    Normal,
    DropResolver,
    FinBeforeHeaders,
    ResetBeforeHeaders,
    ResetAfterHeaders,
    Malformed,
    Split,
    Never,
}

const ENDINGS: [Ending; 8] = [Ending::Normal, Ending::DropResolver, Ending::FinBeforeHeaders, Ending::ResetBeforeHeaders, Ending::ResetAfterHeaders, Ending::Malformed, Ending::Split, Ending::Never];

#[derive(Debug, Clone, Copy, PartialEq, Eq, Hash)]
pub struct Req {
    pub ending: Ending,
    /// the application-side part of the ending waits for a signal that comes at the end of the history
    pub late: bool,
}

#[derive(Debug, Clone, PartialEq, Eq, Hash)]
pub struct History {
    pub reqs: Vec<Req>,
    /// GOAWAY is sent before request index `goaway_at` (== reqs.len(): after all); None: never
    pub goaway_at: Option<usize>,
    /// the server application itself calls shutdown(n) once it has been handed `at` requests: (at, n)
    pub own_shutdown: Option<(usize, usize)>,
    /// the server sends grease (the builder's default) and the peer grants exactly the three unidirectional streams
    /// RFC 9114 6.2 asks for, never more: the server's fourth (grease) stream stays waiting for credit for ever
    pub grease_starved: bool,
}

#[derive(Default, Debug, Clone)]
struct Obs {
    accepted: u32,
    /// alive count at the instant accept() returned Ok(None)
    none_with_alive: Option<i64>,
    accept_end: Option<Result<(), ConnInfo>>,
}

async fn handler(r: Resolver, req: Req, sig: Signal, sig2: Signal, ended: Rc<Cell<i64>>, sp: Spawner) {
    let wait = |s: Signal| async move {
        s.wait(0).await;
    };
    match req.ending {
        Ending::DropResolver => {
            if req.late {
                wait(sig).await;
            }
            drop(r);
            ended.set(ended.get() + 1);
        }
        Ending::FinBeforeHeaders | Ending::ResetBeforeHeaders | Ending::Malformed => {
            // resolve_request consumes the resolver; on failure nothing is left
            match r.resolve_request().await {
                Err(_) => ended.set(ended.get() + 1),
                Ok((_q, s)) => {
                    // (does not happen for these endings; if it does the request ends when the stream is dropped)
                    drop(s);
                    ended.set(ended.get() + 1);
                }
            }
        }
        Ending::Normal => match r.resolve_request().await {
            Err(_) => ended.set(ended.get() + 1),
            Ok((_q, mut s)) => {
                if req.late {
                    wait(sig).await;
                }
                let _ = s.send_response(http::Response::builder().status(200).body(()).unwrap()).await;
                let _ = s.finish().await;
                drop(s);
                ended.set(ended.get() + 1);
            }
        },
        Ending::ResetAfterHeaders => match r.resolve_request().await {
            Err(_) => ended.set(ended.get() + 1),
            Ok((_q, mut s)) => {
                loop {
                    match s.recv_data().await {
                        Ok(Some(_)) => {}
                        Ok(None) => break,
                        Err(_) => break,
                    }
                }
                if req.late {
                    wait(sig).await;
                }
                drop(s);
                ended.set(ended.get() + 1);
            }
        },
        Ending::Split => match r.resolve_request().await {
            Err(_) => ended.set(ended.get() + 1),
            Ok((_q, s)) => {
                let (tx, rx) = s.split();
                let remaining = Rc::new(Cell::new(2));
                let rem2 = remaining.clone();
                let ended2 = ended.clone();
                let late = req.late;
                sp.spawn("split-recv-half", async move {
                    if late {
                        sig2.wait(0).await;
                    }
                    drop(rx);
                    rem2.set(rem2.get() - 1);
                    if rem2.get() == 0 {
                        ended2.set(ended2.get() + 1);
                    }
                });
                if req.late {
                    wait(sig).await;
                }
                drop(tx);
                remaining.set(remaining.get() - 1);
                if remaining.get() == 0 {
                    ended.set(ended.get() + 1);
                }
            }
        },
        Ending::Never => match r.resolve_request().await {
            Err(_) => ended.set(ended.get() + 1),
            Ok((_q, s)) => {
                std::future::pending::<()>().await;
                drop(s);
            }
        },
    }
}

async fn server_app(net: Net, h: History, o: Shared<Obs>, sigs: Vec<Signal>, ended: Rc<Cell<i64>>, sp: Spawner) {
    let mut conn: ServerConn = match h3::server::builder().send_grease(h.grease_starved).build(net.conn(Side::Server)).await {
        Ok(c) => c,
        Err(e) => {
            o.borrow_mut().accept_end = Some(Err(conn_info(&e)));
            return;
        }
    };
    let mut shut = false;
    loop {
        if let Some((at, n)) = h.own_shutdown {
            if !shut && o.borrow().accepted as usize >= at {
                shut = true;
                if let Err(e) = conn.shutdown(n).await {
                    o.borrow_mut().accept_end = Some(Err(conn_info(&e)));
                    break;
                }
            }
        }
        match conn.accept().await {
            Ok(Some(r)) => {
                let id = r.frame_stream.id().into_inner();
                let k = (id / 4) as usize;
                o.borrow_mut().accepted += 1;
                let req = h.reqs.get(k).copied().unwrap_or(Req { ending: Ending::Normal, late: false });
                sp.spawn(format!("handler-{k}"), handler(r, req, sigs[2 * k].clone(), sigs[2 * k + 1].clone(), ended.clone(), sp.clone()));
            }
            Ok(None) => {
                let alive = o.borrow().accepted as i64 - ended.get();
                let mut g = o.borrow_mut();
                g.none_with_alive = Some(alive);
                g.accept_end = Some(Ok(()));
                break;
            }
            Err(e) => {
                o.borrow_mut().accept_end = Some(Err(conn_info(&e)));
                break;
            }
        }
    }
    std::future::pending::<()>().await;
    drop(conn);
}

fn hist_json(h: &History) -> Value {
    json!({"reqs": h.reqs.iter().map(|r| format!("{:?}{}", r.ending, if r.late { "+late" } else { "" })).collect::<Vec<_>>(), "goaway_at": h.goaway_at, "own_shutdown": h.own_shutdown.map(|(a, n)| vec![a, n]), "grease_starved": h.grease_starved})
}

pub fn run_history(h: &History, style: Style, sched: &[u16], credit: u64, ctx: &mut Ctx) -> Verdict {
    ctx.eval();
    fastrand::seed(19);
    let net = Net::new();
    net.set_raw(Side::Client);
    net.lock().default_credit[Side::Server.idx()] = credit;
    if h.grease_starved {
        let mut g = net.lock();
        g.ends[Side::Server.idx()].stream_credit[1] = 3;
        g.ends[Side::Server.idx()].grants_frozen = true;
    }
    let o: Shared<Obs> = shared(Obs::default());
    let ended = Rc::new(Cell::new(0i64));
    let sigs: Vec<Signal> = (0..2 * h.reqs.len().max(1)).map(|_| Signal::new()).collect();
    let mut ex = Exec::new();
    let sp = ex.spawner.clone();
    ex.spawn("server", server_app(net.clone(), h.clone(), o.clone(), sigs.clone(), ended.clone(), sp.clone()));
    let mut ops = vec![PeerOp::OpenUni(0), PeerOp::Write(0, peer::control_preamble(&[]))];
    let malformed = rf::frame(rf::T_HEADERS, &rq::encode_section_literal(&[(b":method".to_vec(), b"GET".to_vec()), (b":scheme".to_vec(), b"https".to_vec()), (b":authority".to_vec(), b"a".to_vec()), (b":path".to_vec(), b"/".to_vec()), (b"Upper".to_vec(), b"x".to_vec())], false));
    // a client's GOAWAY carries a push id: any integer is legal (RFC 9114 5.2; 2^62-1 is the customary "shutdown notice")
    let goaway_id = [0u64, 1, 3, (1 << 62) - 1, 5, 4, 2][(h.reqs.len() + h.goaway_at.unwrap_or(0) * 3 + h.own_shutdown.map(|(a, n)| a + n).unwrap_or(0)) % 7];
    for (k, r) in h.reqs.iter().enumerate() {
        if h.goaway_at == Some(k) {
            ops.push(PeerOp::Write(0, peer::goaway_frame(goaway_id)));
        }
        let key = k + 1;
        ops.push(PeerOp::OpenBidi(key));
        match r.ending {
            Ending::Normal | Ending::DropResolver | Ending::Split => ops.extend([PeerOp::Write(key, peer::simple_request_headers()), PeerOp::Fin(key)]),
            Ending::Never => ops.push(PeerOp::Write(key, peer::simple_request_headers())),
            Ending::FinBeforeHeaders => ops.push(PeerOp::Fin(key)),
            Ending::ResetBeforeHeaders => ops.push(PeerOp::Reset(key, if k % 2 == 0 { 0x10c } else { 0x100 })),
            Ending::ResetAfterHeaders => ops.extend([PeerOp::Write(key, peer::post_request_headers()), PeerOp::Write(key, peer::data_frame(b"partial")), PeerOp::Barrier, PeerOp::Reset(key, if k % 2 == 0 { 0x100 } else { 0x10c })]),
            Ending::Malformed => ops.extend([PeerOp::Write(key, malformed.clone()), PeerOp::Fin(key)]),
        }
    }
    if h.goaway_at == Some(h.reqs.len()) {
        ops.push(PeerOp::Write(0, peer::goaway_frame(goaway_id)));
    }
    // late application-side endings: released one by one at the end, after everything else settled
    ops.push(PeerOp::Barrier);
    for (k, r) in h.reqs.iter().enumerate() {
        if r.late {
            ops.push(PeerOp::Signal(2 * k));
            ops.push(PeerOp::Barrier);
            ops.push(PeerOp::Signal(2 * k + 1));
            ops.push(PeerOp::Barrier);
        }
    }
    let mut peer = RawPeer::new(Side::Client, ops);
    peer.signals = sigs.clone();
    let mut t = Tape::new(sched);
    let end = ex.run(&net, &mut peer, &mut t, style, 200_000);
    let obs = o.borrow().clone();
    let closes = net.close_calls(Side::Server);
    let case = || json!({"history": hist_json(h), "style": format!("{style:?}"), "sched": sched, "credit": if credit == UNLIMITED { -1 } else { credit as i64 }, "goaway_id": goaway_id.to_string(), "observed": format!("{obs:?}"), "ended": ended.get(), "closes": format!("{closes:?}"), "pending": ex.pending_tasks()});
    if end == RunEnd::StepBound {
        return Err(Failure::fault("step bound"));
    }
    if let Some((task, p)) = ex.panics().first() {
        return Err(Failure::direct(format!("panic in task {task}: {p}"), case()));
    }
    let fail = |m: String| Err(Failure::direct(m, case()));
    if !closes.is_empty() || matches!(obs.accept_end, Some(Err(_))) {
        return fail("stream-scoped endings must not produce a connection error".into());
    }
    if let Some(alive) = obs.none_with_alive {
        if alive != 0 {
            return fail(format!("accept() reported 'no more requests' while {alive} handed-out request(s) were still in progress"));
        }
    }
    // streams the peer opened but that never became visible (nothing was ever sent on them) do not exist for the server
    let all_accepted = obs.accepted as usize == h.reqs.len();
    let all_ended = ended.get() == obs.accepted as i64;
    let never = h.reqs.iter().any(|r| r.ending == Ending::Never);
    let got_none = matches!(obs.accept_end, Some(Ok(())));
    match (h.goaway_at.is_some(), all_ended && !never) {
        (true, true) => {
            if !got_none {
                return fail(format!("the peer signalled shutdown and all {} handed-out requests have ended, but accept() is still pending: it waits forever", obs.accepted));
            }
            ctx.class("drained_none");
        }
        (true, false) => {
            if got_none && obs.none_with_alive == Some(0) && !all_accepted {
                // None was reported at a moment when everything handed out so far had ended; later streams were not taken any more
                ctx.class("none_before_later_streams");
            } else if got_none {
                return fail("accept() reported 'no more requests' although a request is still running".into());
            } else {
                ctx.class("still_running_pending");
            }
        }
        (false, _) => {
            if got_none && h.own_shutdown.is_none() {
                return fail("accept() returned None although nobody signalled shutdown".into());
            }
            ctx.class("no_goaway_pending");
        }
    }
    // ---- classification
    for r in &h.reqs {
        match r.ending {
            Ending::DropResolver => ctx.class("ending_dropped_resolver"),
            Ending::FinBeforeHeaders => ctx.class("ending_fin_before_headers"),
            Ending::ResetBeforeHeaders => ctx.class("ending_reset_before_headers"),
            Ending::ResetAfterHeaders => ctx.class("ending_reset_after_headers"),
            Ending::Malformed => ctx.class("ending_malformed"),
            Ending::Split => ctx.class("ending_split_halves"),
            Ending::Never => ctx.class("ending_never"),
            Ending::Normal => ctx.class("ending_normal"),
        }
    }
    if h.goaway_at.is_some() && goaway_id % 4 != 0 {
        ctx.class("peer_goaway_with_a_push_id_that_is_no_stream_id");
    }
    if h.grease_starved {
        ctx.class("grease_stream_starved_of_credit");
    }
    if let Some((at, n)) = h.own_shutdown {
        ctx.class("own_shutdown");
        if n >= 1 && obs.accepted as usize > at {
            ctx.class("request_handed_out_inside_the_grace_interval");
        }
    }
    let nonnormal = h.reqs.iter().any(|r| !matches!(r.ending, Ending::Normal | Ending::Never));
    // GOAWAY arrived while a request was alive: some request before the GOAWAY position ends late or never
    let alive_at_goaway = h.goaway_at.map(|g| h.reqs.iter().take(g).any(|r| r.late || r.ending == Ending::Never) || style != Style::Eager && g > 0).unwrap_or(false);
    if nonnormal && alive_at_goaway {
        ctx.class("nonnormal_end_with_goaway_while_alive");
        ctx.nontrivial(&(h.clone(), format!("{style:?}"), sched.to_vec()));
    }
    ctx.sample(|| case());
    Ok(())
}

fn exhaustive(ctx: &mut Ctx, shard: usize, nshards: usize) -> Verdict {
    let mut idx = 0usize;
    let opts: Vec<Req> = ENDINGS.iter().flat_map(|e| [Req { ending: *e, late: false }, Req { ending: *e, late: true }]).filter(|r| !(r.late && matches!(r.ending, Ending::FinBeforeHeaders | Ending::ResetBeforeHeaders | Ending::Malformed | Ending::Never))).collect();
    let maxn = 3;
    for n in 0..=maxn {
        let total = opts.len().pow(n as u32);
        for code in 0..total {
            let mut reqs = Vec::new();
            let mut c = code;
            for _ in 0..n {
                reqs.push(opts[c % opts.len()]);
                c /= opts.len();
            }
            for g in (0..=n).map(Some).chain([None]) {
                idx += 1;
                if idx % nshards != shard {
                    continue;
                }
                let h = History { reqs: reqs.clone(), goaway_at: g, own_shutdown: None, grease_starved: false };
                run_history(&h, Style::Eager, &[], UNLIMITED, ctx)?;
                let cells = prf_cells(idx as u64, 120);
                run_history(&h, Style::Random, &cells, UNLIMITED, ctx)?;
                run_history(&h, Style::Random, &cells, 2, ctx)?;
                // the same history against a server that sends grease and never gets credit for its grease stream
                run_history(&History { grease_starved: true, ..h.clone() }, if idx % 2 == 0 { Style::Eager } else { Style::Random }, &cells, UNLIMITED, ctx)?;
                // the server's own graceful shutdown in the same history: after 0..n requests, allowing 0..2 more
                for at in 0..=n {
                    for more in 0..=2usize {
                        let h = History { reqs: reqs.clone(), goaway_at: g, own_shutdown: Some((at, more)), grease_starved: (at + more + idx) % 5 == 0 };
                        run_history(&h, if (at + more) % 2 == 0 { Style::Eager } else { Style::Random }, &cells, UNLIMITED, ctx)?;
                    }
                }
            }
        }
    }
    if shard == 0 {
        ctx.subspace("all histories of <= 3 requests x 12 (ending, immediate/late) options x GOAWAY position (incl. none) x (2 schedules, the random one also with 2 bytes of send credit; a server that sends grease while the peer grants exactly three unidirectional streams; the server's own shutdown(0..2) after 0..n requests)", idx as u64 * 4);
    }
    Ok(())
}

fn run_tape(tape: &[u16], ctx: &mut Ctx) -> Verdict {
    let mut t = Tape::new(tape);
    let n = t.int(0, 4) as usize;
    let reqs: Vec<Req> = (0..n)
        .map(|_| {
            let ending = ENDINGS[t.pick(8)];
            let late = t.bool() && !matches!(ending, Ending::FinBeforeHeaders | Ending::ResetBeforeHeaders | Ending::Malformed | Ending::Never);
            Req { ending, late }
        })
        .collect();
    let goaway_at = if t.chance(1, 6) { None } else { Some(t.pick(n + 1)) };
    let style = [Style::Eager, Style::Tiny, Style::Random][t.pick(3)];
    let credit = match t.pick(6) {
        0 | 1 | 2 => UNLIMITED,
        3 => 0,
        4 => t.int(1, 12),
        _ => t.int(1, 300),
    };
    let sched: Vec<u16> = tape[t.position().min(tape.len())..].to_vec();
    let own_shutdown = if t.chance(1, 3) { Some((t.pick(n + 1), t.pick(4))) } else { None };
    let grease_starved = t.chance(1, 4);
    run_history(&History { reqs, goaway_at, own_shutdown, grease_starved }, style, &sched, credit, ctx)
}

fn run_direct(d: &Value, ctx: &mut Ctx) -> Verdict {
    let h = &d["history"];
    let reqs: Vec<Req> = h["reqs"]
        .as_array()
        .map(|a| {
            a.iter()
                .filter_map(|x| {
                    let s = x.as_str()?;
                    let late = s.ends_with("+late");
                    let name = s.trim_end_matches("+late");
                    ENDINGS.iter().copied().find(|e| format!("{e:?}") == name).map(|ending| Req { ending, late })
                })
                .collect()
        })
        .unwrap_or_default();
    let goaway_at = h["goaway_at"].as_u64().map(|x| x as usize);
    let style = match d["style"].as_str() {
        Some("Eager") => Style::Eager,
        Some("Tiny") => Style::Tiny,
        _ => Style::Random,
    };
    let sched: Vec<u16> = d["sched"].as_array().map(|a| a.iter().map(|x| x.as_u64().unwrap_or(0) as u16).collect()).unwrap_or_default();
    let own_shutdown = h["own_shutdown"].as_array().map(|a| (a[0].as_u64().unwrap_or(0) as usize, a[1].as_u64().unwrap_or(0) as usize));
    let grease_starved = h["grease_starved"].as_bool().unwrap_or(false);
    run_history(&History { reqs, goaway_at, own_shutdown, grease_starved }, style, &sched, d["credit"].as_i64().map(|c| if c < 0 { UNLIMITED } else { c as u64 }).unwrap_or(UNLIMITED), ctx)
}
