//! C08 - GOAWAY identifiers never grow and draw the accept/reject line exactly.

use std::collections::VecDeque;
use std::future::Future;
use std::task::Poll;

use serde_json::{json, Value};

use crate::reference::frames::{self as rf, Ev};
use crate::runner::{Ctx, Failure, PropDef, Verdict};
use crate::simnet::app::*;
use crate::simnet::exec::{shared, Exec, RunEnd, Shared, Signal, Spawner, Style};
use crate::simnet::peer::{self, PeerOp, RawPeer};
use crate::simnet::{Net, NetEvent, Side, UNLIMITED};
use crate::tape::{prf_cells, Odometer, Tape};

pub static PROP: PropDef = PropDef {
    id: "C08",
    rule: "server histories: sequences over {request arrives (headers at once or late), shutdown(n) n in 0..3, a request completes} with tape-chosen interleaving of tasks and deliveries. oracle over the history: \
           GOAWAY ids on the server's control stream (reference parser) never increase and are client-initiated bidirectional ids; for EVERY GOAWAY id g no stream with id >= g is ever returned by accept() (before or after); \
           every stream h3 takes from the transport is either returned by accept() or STOP_SENDING'd and RESET with H3_REQUEST_REJECTED (never both, never neither), and while the application keeps accepting every arriving stream below the last id is served. \
           client histories: sequences of <= 4 received GOAWAY ids over {0,4,8,12,400, non-request ids 1,2,3,5, 2^62-4} each followed by a send_request attempt: after a processed GOAWAY send_request fails with RemoteClosing and opens no stream; \
           a larger-than-before or non-request id => driver error and close H3_ID_ERROR; otherwise no error. exhaustive: all server histories of <= 5 ops (K <= 3), all client histories of <= 3 ids (<= 4 thorough). \
           non-trivial = history with a shutdown and at least one stream on each side of the announced id (or exactly at it); distinct by (history, schedule)",
    assumptions: &[
        "streams are announced in id order (QUIC implicit opening); 'out of order' is realised as HEADERS of a later stream arriving first and as rejected streams arriving before acceptable ones",
        "streams are only judged while the application keeps calling accept()",
    ],
    tape_len: 200,
    random_cases: |t| t.pick(160_000, 15_000_000),
    run_tape,
    exhaustive: Some(exhaustive),
    run_direct: Some(run_direct),
    min_classes: &[("server_shutdown_with_both_sides", 2000), ("server_rejected_stream", 2000), ("server_boundary_stream", 500), ("client_id_error", 200), ("client_remote_closing", 200), ("repeated_shutdown", 1000)],
    extra: None,
};

#[derive(Debug, Clone, Copy, PartialEq, Eq, Hash)]
pub enum SOp {
    /// a new request stream: headers delivered immediately
    Arrive,
    /// a new request stream whose HEADERS are written only at the end of the history
    ArriveLate,
    Shutdown(usize),
    /// the oldest still running request completes
    Complete,
    /// let everything settle
    Settle,
    /// the client announces its own shutdown (GOAWAY with a push id on its control stream): once everything handed out has
    /// ended, accept() reports 'no more requests' - the one way to get there without a request beyond the line
    PeerGoaway,
}

#[derive(Default, Debug, Clone)]
struct SObs {
    accepted: Vec<u64>,
    accept_end: Option<Result<(), ConnInfo>>,
    shutdown_errors: Vec<ConnInfo>,
    resolved: Vec<u64>,
    shutdowns_done: usize,
    /// request streams waiting in the transport's accept queue at the moment accept() reported "no more requests"
    left_in_queue: Vec<u64>,
}

async fn server_app(net: Net, o: Shared<SObs>, cmds: Shared<VecDeque<usize>>, cmd_sig: Signal, done_sigs: Vec<Signal>, sp: Spawner) {
    let mut conn: ServerConn = match h3::server::builder().send_grease(false).build(net.conn(Side::Server)).await {
        Ok(c) => c,
        Err(e) => {
            o.borrow_mut().accept_end = Some(Err(conn_info(&e)));
            return;
        }
    };
    let mut seen = 0u64;
    enum Out {
        Cmd(u64),
        Acc(Result<Option<Resolver>, h3::error::ConnectionError>),
    }
    loop {
        let out = {
            let mut acc = Box::pin(conn.accept());
            std::future::poll_fn(|cx| {
                if let Poll::Ready(c) = cmd_sig.poll_changed(seen, cx) {
                    return Poll::Ready(Out::Cmd(c));
                }
                match acc.as_mut().poll(cx) {
                    Poll::Ready(r) => Poll::Ready(Out::Acc(r)),
                    Poll::Pending => Poll::Pending,
                }
            })
            .await
        };
        match out {
            Out::Cmd(c) => {
                seen = c;
                loop {
                    let n = cmds.borrow_mut().pop_front();
                    let Some(n) = n else { break };
                    if let Err(e) = conn.shutdown(n).await {
                        o.borrow_mut().shutdown_errors.push(conn_info(&e));
                    }
                    o.borrow_mut().shutdowns_done += 1;
                }
            }
            Out::Acc(Ok(Some(r))) => {
                let id = r.frame_stream.id().into_inner();
                let k = o.borrow().accepted.len();
                o.borrow_mut().accepted.push(id);
                let o2 = o.clone();
                let done = done_sigs.get(k).cloned();
                sp.spawn(format!("handler-{id}"), async move {
                    let Ok((_req, mut s)) = r.resolve_request().await else { return };
                    o2.borrow_mut().resolved.push(id);
                    if let Some(d) = done {
                        d.wait(0).await;
                    } else {
                        std::future::pending::<()>().await;
                    }
                    let _ = s.send_response(http::Response::builder().status(200).body(()).unwrap()).await;
                    let _ = s.finish().await;
                });
            }
            Out::Acc(Ok(None)) => {
                let waiting: Vec<u64> = net.lock().ends[Side::Server.idx()].accept_q[crate::simnet::Dir::Bidi as usize].iter().copied().collect();
                let mut g = o.borrow_mut();
                g.accept_end = Some(Ok(()));
                g.left_in_queue = waiting;
                break;
            }
            Out::Acc(Err(e)) => {
                o.borrow_mut().accept_end = Some(Err(conn_info(&e)));
                break;
            }
        }
    }
    std::future::pending::<()>().await;
    drop(conn);
}

/// peer that also feeds the server's command queue
struct ServerHistory {
    peer: RawPeer,
    cmds: Shared<VecDeque<usize>>,
    cmd_sig: Signal,
    /// Hook(k) with k >= 1000: push shutdown(k-1000)
    seen_hooks: usize,
}

impl crate::simnet::exec::Actor for ServerHistory {
    fn ready(&mut self, quiet: bool) -> bool {
        self.peer.ready(quiet)
    }
    fn step(&mut self, net: &Net, sp: &Spawner) {
        self.peer.step(net, sp);
        while self.seen_hooks < self.peer.hooks_run.len() {
            let h = self.peer.hooks_run[self.seen_hooks];
            self.seen_hooks += 1;
            if h >= 1000 {
                let n = h - 1000;
                self.cmds.borrow_mut().push_back(if n >= 500 { BIGN[n - 500] } else { n });
                self.cmd_sig.raise();
            }
        }
    }
}

/// "no limit" ways of calling shutdown(n): the identifier computation saturates
const BIGN: [usize; 5] = [1 << 30, 1 << 60, (1 << 60) + 1, usize::MAX / 2, usize::MAX];

fn ops_json(ops: &[SOp]) -> Value {
    json!(ops.iter().map(|o| format!("{o:?}")).collect::<Vec<_>>())
}

/// `credit`: send credit every stream of the server starts with (GOAWAY and responses are then written in pieces, as
/// grants arrive)
pub fn run_server(ops: &[SOp], style: Style, sched: &[u16], credit: u64, newest_first: bool, ctx: &mut Ctx) -> Verdict {
    ctx.eval();
    fastrand::seed(17);
    let net = Net::new();
    net.set_raw(Side::Client);
    net.lock().default_credit[Side::Server.idx()] = credit;
    net.lock().ends[Side::Server.idx()].accept_newest_first = newest_first;
    let o: Shared<SObs> = shared(SObs::default());
    let cmds: Shared<VecDeque<usize>> = shared(VecDeque::new());
    let cmd_sig = Signal::new();
    let nreq = ops.iter().filter(|o| matches!(o, SOp::Arrive | SOp::ArriveLate)).count();
    let done_sigs: Vec<Signal> = (0..nreq).map(|_| Signal::new()).collect();
    let mut ex = Exec::new();
    let sp = ex.spawner.clone();
    ex.spawn("server", server_app(net.clone(), o.clone(), cmds.clone(), cmd_sig.clone(), done_sigs.clone(), sp.clone()));
    let mut pops = vec![PeerOp::OpenUni(0), PeerOp::Write(0, peer::control_preamble(&[])), PeerOp::Barrier];
    let mut next_stream = 1usize;
    let mut late: Vec<usize> = Vec::new();
    let mut completed = 0usize;
    for op in ops {
        match op {
            SOp::Arrive => {
                pops.extend([PeerOp::OpenBidi(next_stream), PeerOp::Write(next_stream, peer::simple_request_headers()), PeerOp::Fin(next_stream)]);
                next_stream += 1;
            }
            SOp::ArriveLate => {
                // the stream becomes known through its first byte only; the rest follows at the end
                let h = peer::simple_request_headers();
                pops.extend([PeerOp::OpenBidi(next_stream), PeerOp::Write(next_stream, h[..1].to_vec())]);
                late.push(next_stream);
                next_stream += 1;
            }
            SOp::Shutdown(n) => pops.push(PeerOp::Hook(1000 + BIGN.iter().position(|b| b == n).map(|i| 500 + i).unwrap_or(*n))),
            SOp::Complete => {
                // completes the k-th ACCEPTED request (if there is one by then); signals are indexed by accept order
                pops.push(PeerOp::Signal(completed));
                completed += 1;
            }
            SOp::Settle => pops.push(PeerOp::Barrier),
            SOp::PeerGoaway => pops.push(PeerOp::Write(0, rf::varint_frame(rf::T_GOAWAY, 0))),
        }
    }
    for k in late {
        let h = peer::simple_request_headers();
        pops.extend([PeerOp::Write(k, h[1..].to_vec()), PeerOp::Fin(k)]);
    }
    let mut peer = RawPeer::new(Side::Client, pops);
    peer.signals = done_sigs.clone();
    let mut hist = ServerHistory { peer, cmds: cmds.clone(), cmd_sig: cmd_sig.clone(), seen_hooks: 0 };
    let mut t = Tape::new(sched);
    let end = ex.run(&net, &mut hist, &mut t, style, 200_000);
    let obs = o.borrow().clone();
    // GOAWAY ids from the wire
    let ctl: Vec<u8> = {
        let g = net.lock();
        g.pipes.iter().find(|((s, w), p)| *w == Side::Server && s & 2 != 0 && p.written.first() == Some(&0)).map(|(_, p)| p.written.clone()).unwrap_or_default()
    };
    let seg = rf::segment(ctl.get(1..).unwrap_or(&[]));
    let goaways: Vec<u64> = seg.events.iter().filter_map(|e| if let Ev::Goaway(g) = e { Some(*g) } else { None }).collect();
    let events = net.lock().events.clone();
    let taken: Vec<u64> = events.iter().filter_map(|(_, e)| if let NetEvent::Accept { side: Side::Server, stream } = e { Some(*stream) } else { None }).filter(|s| s & 3 == 0).collect();
    let rejected_stop: Vec<u64> = events.iter().filter_map(|(_, e)| if let NetEvent::Stop { side: Side::Server, stream, code } = e { (*code == code::REQUEST_REJECTED).then_some(*stream) } else { None }).collect();
    let rejected_reset: Vec<u64> = events.iter().filter_map(|(_, e)| if let NetEvent::Reset { side: Side::Server, stream, code } = e { (*code == code::REQUEST_REJECTED).then_some(*stream) } else { None }).collect();
    let closes = net.close_calls(Side::Server);
    let case = || {
        json!({"kind": "server", "ops": ops_json(ops), "style": format!("{style:?}"), "sched": sched, "credit": if credit == UNLIMITED { -1 } else { credit as i64 }, "newest_first": newest_first, "goaways": goaways, "accepted": obs.accepted, "taken": taken,
               "rejected_stop": rejected_stop, "rejected_reset": rejected_reset, "accept_end": format!("{:?}", obs.accept_end), "closes": format!("{closes:?}")})
    };
    if end == RunEnd::StepBound {
        return Err(Failure::fault("step bound"));
    }
    if let Some((task, p)) = ex.panics().first() {
        return Err(Failure::direct(format!("panic in task {task}: {p}"), case()));
    }
    let fail = |m: String| Err(Failure::direct(m, case()));
    if !closes.is_empty() || matches!(obs.accept_end, Some(Err(_))) || !obs.shutdown_errors.is_empty() {
        return fail("a legal history caused a connection error".into());
    }
    if !matches!(seg.end, rf::End::Boundary) {
        // the harness drops a pending accept() whenever a shutdown command arrives; when that accept() was in the middle of
        // writing its final GOAWAY (limited send credit), the rest of the frame stays in the transport's buffer and is never
        // flushed because nothing writes on the control stream again. Cancelling accept() is not one of the documented call
        // patterns and the statement says nothing about it: only complete GOAWAY frames are judged here (wire validity
        // under the documented patterns is C14's).
        ctx.class("accept_cancelled_inside_its_final_goaway");
    }
    for w in goaways.windows(2) {
        if w[1] > w[0] {
            return fail(format!("GOAWAY identifiers increased: {} then {}", w[0], w[1]));
        }
    }
    for g in &goaways {
        if g % 4 != 0 {
            return fail(format!("GOAWAY({g}) is not a client-initiated bidirectional stream id"));
        }
        if let Some(a) = obs.accepted.iter().find(|a| **a >= *g) {
            return fail(format!("GOAWAY({g}) was sent but stream {a} (>= {g}) was handed to the application by accept(): ids >= the identifier must be rejected"));
        }
    }
    for s in &taken {
        let acc = obs.accepted.contains(s);
        let rej = rejected_stop.contains(s) && rejected_reset.contains(s);
        let half = rejected_stop.contains(s) != rejected_reset.contains(s);
        if half {
            return fail(format!("stream {s}: only one of STOP_SENDING / RESET_STREAM with H3_REQUEST_REJECTED was issued"));
        }
        if acc && rej {
            return fail(format!("stream {s} was both handed to the application and rejected"));
        }
        if !acc && !rej {
            return fail(format!("stream {s} was taken from the transport but neither handed to the application nor rejected with H3_REQUEST_REJECTED"));
        }
    }
    // while the application keeps accepting: every arrived stream was taken, and everything below the last id is served
    let still_accepting = obs.accept_end.is_none();
    let announced: Vec<u64> = (0..(next_stream as u64 - 1)).map(|k| k * 4).collect();
    if still_accepting {
        for s in &announced {
            if !taken.contains(s) {
                return fail(format!("stream {s} arrived but was never taken from the transport although accept() is being awaited"));
            }
        }
        if let Some(last) = goaways.last() {
            for s in &announced {
                if s < last && !obs.accepted.contains(s) {
                    return fail(format!("stream {s} is below the last GOAWAY id {last} but was not served"));
                }
            }
        } else {
            for s in &announced {
                if !obs.accepted.contains(s) {
                    return fail(format!("no GOAWAY was sent but stream {s} was not served"));
                }
            }
        }
    }
    // accept() has returned 'no more requests': nothing will be served any more, so the last identifier the client was told
    // must not promise more than what was handed to the application ("every request below it is still served")
    // (judged with unlimited send credit only: there accept() writes its final GOAWAY within the poll that decides to end, so the
    // harness - which drops a pending accept() whenever a shutdown command arrives - cannot have cancelled it half-way)
    if matches!(obs.accept_end, Some(Ok(()))) && matches!(seg.end, rf::End::Boundary) && credit == UNLIMITED {
        if let Some(last) = goaways.last() {
            let line = obs.accepted.iter().max().map(|m| m + 4).unwrap_or(0);
            if *last > line {
                return fail(format!("accept() ended, the last GOAWAY identifier sent is {last}, but only the requests below {line} were ever handed to the application: the ids in between are neither served nor refused"));
            }
            ctx.class("final_goaway_checked_after_accept_ended");
        }
    }
    // "no more requests" ends the application's accept loop: a request stream that had already arrived then is never looked
    // at again - it is neither served nor refused with H3_REQUEST_REJECTED (its client learns nothing until the connection
    // goes away)
    // (judged with unlimited send credit only: there the final GOAWAY of accept() is written within the poll that decides to
    // end, so nothing can arrive between the decision and the return; a stream that arrives while that write waits for credit
    // is in the same position as one that arrives after accept() has returned - nobody polls the connection for it)
    if !obs.left_in_queue.is_empty() && credit == UNLIMITED {
        return fail(format!("accept() reported 'no more requests' while the request stream(s) {:?} were waiting in the transport's accept queue: they are neither served nor rejected with H3_REQUEST_REJECTED (last GOAWAY id sent: {:?})", obs.left_in_queue, goaways.last()));
    }
    let nshut = ops.iter().filter(|o| matches!(o, SOp::Shutdown(_))).count();
    // (after a GOAWAY of the peer accept() writes a GOAWAY of its own; the harness drops a pending accept() when a shutdown
    // command arrives, and under limited credit that may cancel this write after the id was recorded - section 6.3)
    let implicit_goaway_may_be_cancelled = credit != UNLIMITED && ops.iter().any(|o| matches!(o, SOp::PeerGoaway));
    if nshut > 0 && obs.shutdowns_done == nshut && goaways.is_empty() && !implicit_goaway_may_be_cancelled {
        return fail("shutdown() returned but no GOAWAY frame is on the control stream".into());
    }
    // ---- classification
    if nshut >= 2 {
        ctx.class("repeated_shutdown");
    }
    if credit != UNLIMITED && !goaways.is_empty() {
        ctx.class("goaway_written_under_back_pressure");
    }
    if !rejected_reset.is_empty() {
        ctx.class("server_rejected_stream");
    }
    if let Some(last) = goaways.last() {
        let below = announced.iter().any(|s| s < last);
        let above = announced.iter().any(|s| s >= last);
        if announced.contains(last) {
            ctx.class("server_boundary_stream");
        }
        if below && above {
            ctx.class("server_shutdown_with_both_sides");
            ctx.nontrivial(&(ops.to_vec(), format!("{style:?}"), sched.to_vec()));
        }
    }
    ctx.sample(|| case());
    Ok(())
}

// ------------------------------------------------------------------------------------------------
// client histories

#[derive(Default, Debug, Clone)]
struct CObs {
    driver: Option<ConnInfo>,
    probes: Vec<Result<u64, ErrInfo>>,
}

async fn client_app(net: Net, o: Shared<CObs>, probes: Vec<Signal>, sp: Spawner) {
    let Ok((conn, mut sr)): Result<(ClientConn, SendReq), _> = h3::client::builder().send_grease(false).build(net.conn(Side::Client)).await else { return };
    let o2 = o.clone();
    sp.spawn("client-driver", async move {
        let mut conn = conn;
        let e = std::future::poll_fn(|cx| conn.poll_close(cx)).await;
        o2.borrow_mut().driver = Some(conn_info(&e));
        std::future::pending::<()>().await;
        drop(conn);
    });
    let mut keep = Vec::new();
    for p in probes {
        p.wait(0).await;
        let req = http::Request::builder().method("GET").uri("https://example.com/").body(()).unwrap();
        match sr.send_request(req).await {
            Ok(s) => {
                o.borrow_mut().probes.push(Ok(s.id().into_inner()));
                keep.push(s);
            }
            Err(e) => o.borrow_mut().probes.push(Err(err_info(&e))),
        }
    }
    std::future::pending::<()>().await;
    drop(sr);
    drop(keep);
}

const CIDS: [u64; 10] = [0, 4, 8, 12, 400, 1, 2, 3, 5, (1 << 62) - 4];

/// `open_wait`: the peer allows no further request stream; every send_request after the first parks waiting for one, the GOAWAY
/// is processed during that wait, then the peer grants the stream (MAX_STREAMS). The call was made before the GOAWAY, the
/// request would start after it.
pub fn run_client(ids: &[u64], probe_first: bool, style: Style, sched: &[u16], open_wait: bool, ctx: &mut Ctx) -> Verdict {
    ctx.eval();
    fastrand::seed(17);
    let net = Net::new();
    net.set_raw(Side::Server);
    if open_wait {
        let mut g = net.lock();
        g.ends[Side::Client.idx()].stream_credit[0] = probe_first as u64;
        g.ends[Side::Client.idx()].grants_frozen = true;
    }
    let o: Shared<CObs> = shared(CObs::default());
    let nprobes = ids.len() + probe_first as usize;
    let probes: Vec<Signal> = (0..nprobes).map(|_| Signal::new()).collect();
    let mut ex = Exec::new();
    let sp = ex.spawner.clone();
    ex.spawn("client", client_app(net.clone(), o.clone(), probes.clone(), sp.clone()));
    let mut pops = vec![PeerOp::OpenUni(0), PeerOp::Write(0, peer::control_preamble(&[])), PeerOp::Barrier];
    let mut pk = 0;
    if probe_first {
        pops.extend([PeerOp::Signal(pk), PeerOp::Barrier]);
        pk += 1;
    }
    for id in ids {
        if open_wait {
            pops.extend([PeerOp::Signal(pk), PeerOp::Barrier, PeerOp::Write(0, peer::goaway_frame(*id)), PeerOp::Barrier, PeerOp::GrantBidi(1), PeerOp::Barrier]);
        } else {
            pops.extend([PeerOp::Write(0, peer::goaway_frame(*id)), PeerOp::Barrier, PeerOp::Signal(pk), PeerOp::Barrier]);
        }
        pk += 1;
    }
    let mut peer = RawPeer::new(Side::Server, pops);
    peer.signals = probes.clone();
    let mut t = Tape::new(sched);
    let end = ex.run(&net, &mut peer, &mut t, style, 200_000);
    let obs = o.borrow().clone();
    let closes = net.close_calls(Side::Client);
    let opened: Vec<u64> = net.lock().events.iter().filter_map(|(_, e)| if let NetEvent::Open { side: Side::Client, stream } = e { (stream & 3 == 0).then_some(*stream) } else { None }).collect();
    let case = || json!({"kind": "client", "ids": ids.iter().map(|i| i.to_string()).collect::<Vec<_>>(), "probe_first": probe_first, "open_wait": open_wait, "style": format!("{style:?}"), "sched": sched, "observed": format!("{obs:?}"), "closes": format!("{closes:?}"), "opened": opened});
    if end == RunEnd::StepBound {
        return Err(Failure::fault("step bound"));
    }
    if let Some((task, p)) = ex.panics().first() {
        return Err(Failure::direct(format!("panic in task {task}: {p}"), case()));
    }
    let fail = |m: String| Err(Failure::direct(m, case()));
    // model
    let mut prev: Option<u64> = None;
    let mut error_at: Option<usize> = None;
    for (i, id) in ids.iter().enumerate() {
        if id % 4 != 0 || prev.map(|p| *id > p).unwrap_or(false) {
            error_at = Some(i);
            break;
        }
        prev = Some(*id);
    }
    let mut expect_open = 0usize;
    for k in 0..nprobes {
        let goaways_before = if probe_first { k } else { k + 1 };
        let got = obs.probes.get(k);
        if goaways_before == 0 {
            match got {
                Some(Ok(_)) => expect_open += 1,
                other => return fail(format!("request before any GOAWAY: {other:?}")),
            }
            continue;
        }
        let errored = error_at.map(|e| e < goaways_before).unwrap_or(false);
        match (got, errored) {
            (Some(Err(ErrInfo::RemoteClosing)), _) => {
                ctx.class("client_remote_closing");
                if open_wait {
                    ctx.class("client_goaway_processed_while_waiting_for_a_stream");
                }
            }
            (Some(Err(ErrInfo::Conn(ConnInfo::Local { code }))), true) if *code == code::ID_ERROR => {}
            (other, _) => return fail(format!("send_request #{k} after {goaways_before} GOAWAY frame(s): {other:?} (a client that has processed a GOAWAY starts no new request)")),
        }
    }
    if opened.len() != expect_open {
        return fail(format!("{} request streams were opened, expected {expect_open}", opened.len()));
    }
    match error_at {
        Some(_) => {
            match closes.first() {
                Some(c) if c.code == code::ID_ERROR => {}
                other => return fail(format!("an increasing or non-request GOAWAY id must close with H3_ID_ERROR, transport saw {other:?}")),
            }
            match &obs.driver {
                Some(ConnInfo::Local { code }) if *code == code::ID_ERROR => {}
                other => return fail(format!("driver reported {other:?}, expected H3_ID_ERROR")),
            }
            ctx.class("client_id_error");
            ctx.nontrivial(&(ids.to_vec(), probe_first));
        }
        None => {
            if !closes.is_empty() || obs.driver.is_some() {
                return fail("legal GOAWAY sequence caused a connection error".into());
            }
            if ids.len() >= 2 {
                ctx.nontrivial(&(ids.to_vec(), probe_first));
            }
        }
    }
    ctx.sample(|| case());
    Ok(())
}

fn gen_server_ops(t: &mut Tape, maxlen: usize, uniform: bool) -> Vec<SOp> {
    let n = t.pick(maxlen + 1);
    (0..n)
        .map(|_| {
            let k = if uniform { t.pick(10) } else { t.weighted(&[4, 1, 1, 1, 1, 1, 2, 2, 1, 1]) };
            match k {
                0 => SOp::Arrive,
                1 => SOp::ArriveLate,
                2 => SOp::Shutdown(0),
                3 => SOp::Shutdown(1),
                4 => SOp::Shutdown(2),
                5 => SOp::Shutdown(3),
                6 => SOp::Complete,
                8 => SOp::Shutdown(if uniform { usize::MAX } else { *t.choose(&BIGN) }),
                9 => SOp::PeerGoaway,
                _ => SOp::Settle,
            }
        })
        .collect()
}

fn exhaustive(ctx: &mut Ctx, shard: usize, nshards: usize) -> Verdict {
    let mut o = Odometer::new();
    let mut i = 0usize;
    loop {
        i += 1;
        let mine = i % nshards == shard;
        let r = o.step(|t| {
            let ops = gen_server_ops(t, 5, true);
            if !mine {
                return Ok(());
            }
            run_server(&ops, Style::Eager, &[], UNLIMITED, false, ctx)?;
            let cells = prf_cells(i as u64, 100);
            run_server(&ops, Style::Random, &cells, UNLIMITED, false, ctx)?;
            run_server(&ops, Style::Random, &cells, 3, false, ctx)?;
            run_server(&ops, Style::Eager, &[], UNLIMITED, true, ctx)
        });
        match r {
            None => break,
            Some(Err(e)) => return Err(e),
            Some(Ok(())) => {}
        }
    }
    if shard == 0 {
        ctx.subspace("all server histories of <= 5 ops over {arrive, arrive-late, shutdown(0..3), complete, settle} x 2 schedules", o.count * 2);
    }
    // client histories
    let maxn = ctx.tier.pick(3, 4);
    let mut idx = 0usize;
    for n in 0..=maxn {
        let total = CIDS.len().pow(n as u32);
        for code in 0..total {
            idx += 1;
            if idx % nshards != shard {
                continue;
            }
            let mut ids = Vec::new();
            let mut c = code;
            for _ in 0..n {
                ids.push(CIDS[c % CIDS.len()]);
                c /= CIDS.len();
            }
            for pf in [false, true] {
                run_client(&ids, pf, if code % 2 == 0 { Style::Eager } else { Style::Tiny }, &[], false, ctx)?;
                run_client(&ids, pf, Style::Eager, &[], true, ctx)?;
            }
        }
    }
    if shard == 0 {
        ctx.subspace("all client histories of received GOAWAY ids up to the length bound over 10 ids x probe before", idx as u64 * 2);
    }
    Ok(())
}

fn run_tape(tape: &[u16], ctx: &mut Ctx) -> Verdict {
    let mut t = Tape::new(tape);
    if t.chance(1, 5) {
        let n = t.int(0, 6) as usize;
        let ids: Vec<u64> = (0..n).map(|_| if t.chance(3, 4) { *t.choose(&CIDS) } else { (t.u64() >> 2 >> t.pick(60)) & !3 | if t.chance(1, 4) { t.pick(4) as u64 } else { 0 } }).collect();
        let pf = t.bool();
        let style = [Style::Eager, Style::Tiny, Style::Random][t.pick(3)];
        let sched: Vec<u16> = tape[t.position().min(tape.len())..].to_vec();
        let open_wait = t.chance(1, 3);
        let sched: Vec<u16> = tape[t.position().min(tape.len())..].to_vec();
        return run_client(&ids, pf, style, &sched, open_wait, ctx);
    }
    let ops = gen_server_ops(&mut t, 20, false);
    let style = [Style::Eager, Style::Tiny, Style::Random][t.pick(3)];
    let credit = match t.pick(6) {
        0 | 1 | 2 => UNLIMITED,
        3 => 0,
        4 => t.int(1, 12),
        _ => t.int(1, 300),
    };
    let sched: Vec<u16> = tape[t.position().min(tape.len())..].to_vec();
    let newest_first = t.chance(1, 4);
    let sched: Vec<u16> = tape[t.position().min(tape.len())..].to_vec();
    run_server(&ops, style, &sched, credit, newest_first, ctx)
}

fn run_direct(d: &Value, ctx: &mut Ctx) -> Verdict {
    let style = match d["style"].as_str() {
        Some("Eager") => Style::Eager,
        Some("Tiny") => Style::Tiny,
        _ => Style::Random,
    };
    let sched: Vec<u16> = d["sched"].as_array().map(|a| a.iter().map(|x| x.as_u64().unwrap_or(0) as u16).collect()).unwrap_or_default();
    match d["kind"].as_str() {
        Some("server") => {
            let ops: Vec<SOp> = d["ops"]
                .as_array()
                .map(|a| {
                    a.iter()
                        .filter_map(|x| match x.as_str()? {
                            "Arrive" => Some(SOp::Arrive),
                            "ArriveLate" => Some(SOp::ArriveLate),
                            "Complete" => Some(SOp::Complete),
                            "Settle" => Some(SOp::Settle),
                            "PeerGoaway" => Some(SOp::PeerGoaway),
                            s if s.starts_with("Shutdown(") => s[9..s.len() - 1].parse().ok().map(SOp::Shutdown),
                            _ => None,
                        })
                        .collect()
                })
                .unwrap_or_default();
            run_server(&ops, style, &sched, d["credit"].as_i64().map(|c| if c < 0 { UNLIMITED } else { c as u64 }).unwrap_or(UNLIMITED), d["newest_first"].as_bool().unwrap_or(false), ctx)
        }
        Some("client") => {
            let ids: Vec<u64> = d["ids"].as_array().map(|a| a.iter().filter_map(|x| x.as_str().and_then(|s| s.parse().ok())).collect()).unwrap_or_default();
            run_client(&ids, d["probe_first"].as_bool().unwrap_or(false), style, &sched, d["open_wait"].as_bool().unwrap_or(false), ctx)
        }
        _ => Err(Failure::fault("unknown direct case")),
    }
}
