//! C15 - Huffman strings and prefixed integers: round trip and strict decoding.

use bytes::Buf;
use h3::qpack::verif::{prefix_int_decode, prefix_int_encode, prefix_string_decode, prefix_string_encode, HpackStringDecode};
use serde_json::{json, Value};

use crate::reference::huffman::{self as rh, HuffErr};
use crate::reference::qpack as rq;
use crate::runner::{catch, hex, unhex, Ctx, Failure, PropDef, Tier, Verdict};
use crate::tape::Tape;

pub static PROP: PropDef = PropDef {
    id: "C15",
    rule: "every integer / string literal decode is repeated from a buffer of several chunks (same cut sets as C11) and must agree with the one-slice result in value, flags and bytes consumed; cases: int round trip (prefix size 1..8, flags, value), int decode (prefix size, bytes), string round trip (size 2..8, flags, bytes), Huffman decode (payload) \
           and the same payload through the string codec and through decode_stateless as a literal field line. exhaustive: all Huffman payloads of 0..2 bytes (0..3 thorough), \
           all strings of 0..2 bytes x sizes 2..8, ints at all power-of-two / prefix boundaries x sizes 1..8, all continuation patterns over {00,01,7f,80,ff}^k (k<=7 quick, k<=10 thorough) x sizes; \
           random: valid encodings with every padding length 0..15 x random padding bits, EOS spliced at symbol boundaries, random strings <= 1 KiB, random 64-bit ints. \
           non-trivial = Huffman payload whose last symbol ends off a byte boundary or that is rejected; integer needing >= 1 continuation byte; distinct by (kind, input)",
    assumptions: &[
        "reference Huffman codec built from the RFC 7541 code table vendored from octets 0.3.7 and cross-checked against octets' own decoder on all payloads <= 2 bytes and RFC 7541 appendix C",
        "integers: RFC 9204 4.1.1 mandates 62 bits; for 2^62 <= v <= u64::MAX and for encodings with more than 9 continuation bytes either Ok(exact value) or an error passes, a wrapped value never does",
        "codecs reached through the cfg-guarded re-export h3::qpack::verif (hook)",
    ],
    tape_len: 96,
    random_cases: |t| t.pick(2_400_000, 60_000_000),
    run_tape,
    exhaustive: Some(exhaustive),
    run_direct: Some(run_direct),
    min_classes: &[("huff_accept_offbyte", 1000), ("huff_reject_badpad", 1000), ("int_multibyte", 10000), ("int_truncated", 1000), ("str_roundtrip", 10000)],
    extra: None,
};

pub const KNOWN_D9B: &str = "D9b-huffman-long-ones-padding";

fn h3_huff_decode(payload: &[u8]) -> Result<Result<Vec<u8>, String>, String> {
    let v = payload.to_vec();
    catch(move || {
        let mut out = Vec::new();
        for b in v.hpack_decode() {
            match b {
                Ok(x) => out.push(x),
                Err(e) => return Err(format!("{e:?}")),
            }
        }
        Ok(out)
    })
}

/// Huffman decode differential. Returns Ok(true) when h3 accepted.
pub fn check_huff(payload: &[u8], ctx: &mut Ctx) -> Verdict {
    ctx.eval();
    let case = || json!({"kind": "huff", "payload": hex(payload)});
    let d = rh::decode_detail(payload);
    let got = h3_huff_decode(payload).map_err(|p| Failure::direct(format!("panic in Huffman decoder: {p}"), case()))?;
    match (&d.result, &got) {
        (Ok(want), Ok(have)) => {
            if want != have {
                return Err(Failure::direct(format!("decoded {} expected {}", hex(have), hex(want)), case()));
            }
            if d.tail_bits > 0 {
                ctx.class("huff_accept_offbyte");
                ctx.nontrivial(&(0u8, payload.to_vec()));
            } else {
                ctx.class("huff_accept_aligned");
            }
            ctx.sample(|| json!({"huffman": hex(payload), "decoded": hex(want), "pad_bits": d.tail_bits}));
        }
        (Err(_), Err(_)) => {
            match d.result {
                Err(HuffErr::BadPadding) => ctx.class("huff_reject_badpad"),
                Err(HuffErr::LongPadding) => ctx.class("huff_reject_longpad"),
                _ => ctx.class("huff_reject_eos"),
            }
            ctx.nontrivial(&(1u8, payload.to_vec()));
        }
        (Ok(want), Err(e)) => {
            return Err(Failure::direct(format!("valid Huffman string (decodes to {}) rejected: {e}", hex(want)), case()));
        }
        (Err(why), Ok(have)) => {
            // known family D9b: everything after the last complete symbol is 1-bits and there are >= 8 of them
            if d.tail_all_ones && d.tail_bits >= 8 && have == &d.prefix && ctx.known(KNOWN_D9B) {
                return Ok(());
            }
            return Err(Failure::direct(
                format!("invalid Huffman string accepted as {} (reference: {why:?}, {} trailing bits, all ones: {})", hex(have), d.tail_bits, d.tail_all_ones),
                case(),
            ));
        }
    }
    Ok(())
}

/// the same payload as an H=1 string literal through prefix_string::decode (8 bit prefix) and as a
/// literal field line through decode_stateless
fn check_huff_paths(payload: &[u8], ctx: &mut Ctx) -> Verdict {
    ctx.eval();
    let case = || json!({"kind": "huff_paths", "payload": hex(payload)});
    let d = rh::decode_detail(payload);
    let mut lit = Vec::new();
    rq::put_int(&mut lit, 7, 1, payload.len() as u64, 0);
    lit.extend_from_slice(payload);
    let l2 = lit.clone();
    let got = catch(move || {
        let mut b: &[u8] = &l2;
        let r = prefix_string_decode(8, &mut b);
        (r.map_err(|e| format!("{e:?}")), b.remaining())
    })
    .map_err(|p| Failure::direct(format!("panic in prefix_string::decode: {p}"), case()))?;
    let accepted = match (&d.result, &got.0) {
        (Ok(w), Ok(h)) if w == h && got.1 == 0 => true,
        (Err(_), Err(_)) => false,
        (Err(_), Ok(h)) if d.tail_all_ones && d.tail_bits >= 8 && h == &d.prefix && ctx.known(KNOWN_D9B) => return Ok(()),
        (w, h) => return Err(Failure::direct(format!("string literal: reference {w:?}, h3 {h:?} ({} bytes left)", got.1), case())),
    };
    // the same literal in a buffer of several chunks
    for cuts in crate::tape::cut_sets(&lit) {
        ctx.eval();
        let case = || json!({"kind": "huff_paths", "payload": hex(payload), "cuts": cuts});
        let mut segs = crate::tape::Segs::new(&lit, &cuts);
        let g = catch(move || {
            let r = prefix_string_decode(8, &mut segs);
            (r.ok(), segs.remaining())
        })
        .map_err(|p| Failure::direct(format!("panic in prefix_string::decode over a segmented buffer: {p}"), case()))?;
        if g.0 != got.0.as_ref().ok().cloned() || (g.0.is_some() && g.1 != got.1) {
            return Err(Failure::direct(format!("string literal from chunks cut at {cuts:?}: {:?} ({} left); from one slice: {:?} ({} left)", g.0.map(|x| hex(&x)), g.1, got.0.as_ref().ok().map(|x| hex(x)), got.1), case()));
        }
        ctx.class("string_segmented_agrees");
    }
    // field line: 00 00 | 0x27+name... use literal name "x" non huffman: 0x21 'x' then value
    let mut sec = vec![0u8, 0, 0x21, b'x'];
    sec.extend_from_slice(&lit);
    let s2 = sec.clone();
    let got = catch(move || {
        let mut b: &[u8] = &s2;
        h3::qpack::decode_stateless(&mut b, u64::MAX).map(|d| d.fields).map_err(|e| format!("{e:?}"))
    })
    .map_err(|p| Failure::direct(format!("panic in decode_stateless: {p}"), case()))?;
    match (accepted, got) {
        (true, Ok(f)) => {
            if f.len() != 1 || f[0].name.as_ref() != b"x" || f[0].value.as_ref() != d.result.as_ref().unwrap().as_slice() {
                return Err(Failure::direct("decode_stateless disagrees with the string codec", case()));
            }
        }
        (false, Err(_)) => {}
        (a, g) => return Err(Failure::direct(format!("decode_stateless {:?} but string codec accepted={a}", g.map(|f| f.len())), case())),
    }
    Ok(())
}

fn check_str_roundtrip(size: u8, flags: u8, s: &[u8], ctx: &mut Ctx) -> Verdict {
    ctx.eval();
    let case = || json!({"kind": "str", "size": size, "flags": flags, "s": hex(s)});
    let s2 = s.to_vec();
    let r = catch(move || {
        let mut out = Vec::new();
        prefix_string_encode(size, flags, &s2, &mut out).map_err(|e| format!("{e:?}"))?;
        let enc = out.clone();
        let mut b: &[u8] = &out;
        let d = prefix_string_decode(size, &mut b).map_err(|e| format!("decode: {e:?}"))?;
        Ok::<_, String>((enc, d, b.remaining()))
    })
    .map_err(|p| Failure::direct(format!("panic in string codec: {p}"), case()))?;
    match r {
        Ok((enc, d, left)) => {
            if d != s || left != 0 {
                return Err(Failure::direct(format!("round trip gives {} ({} bytes left), wire {}", hex(&d), left, hex(&enc)), case()));
            }
            // the wire form is a valid RFC 7541 string literal with the flags in place: reference decodes it
            match rq::get_string(&enc, size - 1) {
                Ok((upper, rs, used)) if rs == s && used == enc.len() && upper == (flags & (0xffu16 >> size) as u8) => {}
                other => return Err(Failure::direct(format!("reference decoding of h3's wire form {}: {other:?}", hex(&enc)), case())),
            }
            ctx.class("str_roundtrip");
            if rh::encoded_bits(s) % 8 != 0 {
                ctx.nontrivial(&(2u8, size, flags, s.to_vec()));
            }
            ctx.sample(|| json!({"string": hex(&s[..s.len().min(16)]), "len": s.len(), "size": size, "wire_prefix": hex(&enc[..enc.len().min(12)])}));
            Ok(())
        }
        Err(e) => Err(Failure::direct(format!("string codec failed on a legal string: {e}"), case())),
    }
}

fn flag_mask(size: u8) -> u8 {
    if size >= 8 {
        0
    } else {
        (0xffu16 >> size) as u8
    }
}

fn check_int_roundtrip(size: u8, flags: u8, v: u64, ctx: &mut Ctx) -> Verdict {
    ctx.eval();
    let flags = flags & flag_mask(size);
    let case = || json!({"kind": "int", "size": size, "flags": flags, "value": v});
    let r = catch(move || {
        let mut out = Vec::new();
        prefix_int_encode(size, flags, v, &mut out);
        let enc = out.clone();
        let mut b: &[u8] = &out;
        let d = prefix_int_decode(size, &mut b).map_err(|e| format!("{e:?}"));
        (enc, d, b.remaining())
    })
    .map_err(|p| Failure::direct(format!("panic in integer codec: {p}"), case()))?;
    let (enc, d, left) = r;
    // wire form is the RFC 7541 5.1 encoding
    let mut want = Vec::new();
    rq::put_int(&mut want, size, flags, v, 0);
    if enc != want {
        return Err(Failure::direct(format!("encode gives {} expected {}", hex(&enc), hex(&want)), case()));
    }
    match d {
        Ok((f, x)) => {
            if x != v || f != flags || left != 0 {
                return Err(Failure::direct(format!("round trip gives flags {f} value {x} ({left} bytes left)"), case()));
            }
        }
        Err(e) => {
            if v < (1 << 62) {
                return Err(Failure::direct(format!("value below 2^62 does not round trip: {e}"), case()));
            }
            ctx.class("int_roundtrip_refused_above_2^62");
        }
    }
    if enc.len() > 1 {
        ctx.class("int_multibyte");
        ctx.nontrivial(&(3u8, size, flags, v));
    }
    ctx.sample(|| json!({"int": v, "size": size, "flags": flags, "wire": hex(&enc)}));
    Ok(())
}

fn check_int_decode(size: u8, b: &[u8], ctx: &mut Ctx) -> Verdict {
    ctx.eval();
    let case = || json!({"kind": "int_decode", "size": size, "bytes": hex(b)});
    let b2 = b.to_vec();
    let got = catch(move || {
        let mut buf: &[u8] = &b2;
        let r = prefix_int_decode(size, &mut buf).map_err(|e| format!("{e:?}"));
        (r, b2.len() - buf.remaining())
    })
    .map_err(|p| Failure::direct(format!("panic in prefix_int::decode: {p}"), case()))?;
    let contiguous = (got.0.as_ref().ok().copied(), got.1);
    match rq::get_int(b, size) {
        None => {
            if let Ok(x) = got.0 {
                return Err(Failure::direct(format!("truncated integer accepted as {x:?}"), case()));
            }
            ctx.class("int_truncated");
            ctx.nontrivial(&(4u8, size, b.to_vec()));
        }
        Some(d) => {
            match got.0 {
                Ok((f, x)) => {
                    if x as u128 != d.value || f != d.flags || got.1 != d.used {
                        return Err(Failure::direct(
                            format!("decoded flags {f} value {x} using {} bytes; exact value is {} (flags {}, {} bytes)", got.1, d.value, d.flags, d.used),
                            case(),
                        ));
                    }
                }
                Err(e) => {
                    if d.value < (1u128 << 62) && d.cont <= 9 {
                        return Err(Failure::direct(format!("in-range integer {} ({} continuation bytes) rejected: {e}", d.value, d.cont), case()));
                    }
                    if d.value > u64::MAX as u128 {
                        ctx.class("int_overflow_rejected");
                    } else {
                        ctx.class("int_large_rejected");
                    }
                }
            }
            if d.cont >= 1 {
                ctx.class("int_decode_multibyte");
                ctx.nontrivial(&(5u8, size, b[..d.used].to_vec()));
            }
        }
    }
    // the same bytes in a buffer of several chunks: same flags, value, bytes consumed, same refusal
    for cuts in crate::tape::cut_sets(b) {
        ctx.eval();
        let case = || json!({"kind": "int_decode", "size": size, "bytes": hex(b), "cuts": cuts});
        let mut segs = crate::tape::Segs::new(b, &cuts);
        let total = b.len();
        let g = catch(move || {
            let r = prefix_int_decode(size, &mut segs).ok();
            (r, total - segs.remaining())
        })
        .map_err(|p| Failure::direct(format!("panic in prefix_int::decode over a segmented buffer: {p}"), case()))?;
        if g.0 != contiguous.0 || (g.0.is_some() && g.1 != contiguous.1) {
            return Err(Failure::direct(format!("from chunks cut at {cuts:?}: {:?} using {} bytes; from one slice: {:?} using {}", g.0, g.1, contiguous.0, contiguous.1), case()));
        }
        ctx.class("int_segmented_agrees");
    }
    Ok(())
}

fn int_boundary_values() -> Vec<u64> {
    let mut v = vec![0u64, 1, 2, u64::MAX, u64::MAX - 1];
    for k in 0..64 {
        let p = 1u64 << k;
        v.extend_from_slice(&[p - 1, p, p + 1]);
    }
    for n in 1..=8u32 {
        let m = (1u64 << n) - 1;
        v.extend_from_slice(&[m.saturating_sub(1), m, m + 1, m + 127, m + 128, m + 129, m + 16383, m + 16384]);
    }
    v.sort();
    v.dedup();
    v
}


/// A Huffman-coded literal whose number of *bits* does not fit the 32 bit integers a decoder might count them in: 2^29
/// bytes and one more. Whatever the answer (the decoded string, or a refusal for its size), computing it must not overflow.
fn check_huge_huffman(len: usize, ctx: &mut Ctx) -> Verdict {
    ctx.eval();
    let case = || json!({"kind": "huge_huffman", "len": len});
    let got = catch(move || {
        let mut lit = Vec::with_capacity(len + 16);
        rq::put_int(&mut lit, 7, 1, len as u64, 0);
        // 00000 is the code of '0'; eight of them make five bytes of zeros
        lit.resize(lit.len() + len, 0u8);
        let mut b: &[u8] = &lit;
        prefix_string_decode(8, &mut b).map(|v| v.len()).map_err(|e| format!("{e:?}"))
    })
    .map_err(|p| Failure::direct(format!("panic in prefix_string::decode on a Huffman-coded literal of {len} bytes: {p}"), case()))?;
    match got {
        // 8 * len bits, 5 per symbol, the rest (all zero bits) is not padding
        Ok(n) if len * 8 % 5 == 0 && n == len * 8 / 5 => ctx.class("huge_huffman_literal_decoded"),
        Ok(n) => return Err(Failure::direct(format!("a literal of {len} zero bytes decoded to {n} symbols"), case())),
        Err(_) => ctx.class("huge_huffman_literal_refused"),
    }
    ctx.nontrivial(&("huge_huffman", len));
    Ok(())
}

fn exhaustive(ctx: &mut Ctx, shard: usize, nshards: usize) -> Verdict {
    if shard == 1 % nshards {
        if ctx.tier == crate::runner::Tier::Thorough {
            // (just below the limit the whole literal is decoded: several seconds)
            check_huge_huffman((1 << 29) - 5, ctx)?;
        }
        check_huge_huffman(1 << 29, ctx)?;
        check_huge_huffman((1 << 29) + 5, ctx)?;
    }
    // Huffman payloads
    if shard == 0 {
        check_huff(&[], ctx)?;
        check_huff_paths(&[], ctx)?;
        for a in 0..=255u8 {
            check_huff(&[a], ctx)?;
            check_huff_paths(&[a], ctx)?;
        }
    }
    for a in 0..=255u8 {
        if (a as usize) % nshards != shard {
            continue;
        }
        for b in 0..=255u8 {
            check_huff(&[a, b], ctx)?;
            if b % 8 == a % 8 {
                check_huff_paths(&[a, b], ctx)?;
            }
            if ctx.tier == Tier::Thorough {
                for c in 0..=255u8 {
                    check_huff(&[a, b, c], ctx)?;
                }
            }
        }
    }
    ctx.subspace("all Huffman payloads of 0..2 bytes (0..3 in thorough)", ctx.tier.pick(65793, 16843009));
    // strings 0..2 bytes x sizes
    for a in 0..=255u16 {
        if (a as usize) % nshards != shard {
            continue;
        }
        for size in 2..=8u8 {
            let fl = (a as u8) & flag_mask(size);
            if a == 0 {
                check_str_roundtrip(size, fl, &[], ctx)?;
            }
            check_str_roundtrip(size, fl, &[a as u8], ctx)?;
        }
        for b in 0..=255u16 {
            // all 65536 two byte strings, size rotating (every size sees every first byte)
            let size = 2 + ((a + b) % 7) as u8;
            check_str_roundtrip(size, (b as u8) & flag_mask(size), &[a as u8, b as u8], ctx)?;
        }
    }
    ctx.subspace("all strings of 0..2 bytes through the string codec (1-byte strings x all sizes 2..8)", 65536 + 256 * 7 + 7);
    // integers
    if shard == 1 % nshards {
        let vals = int_boundary_values();
        for size in 1..=8u8 {
            for v in &vals {
                for fl in [0u8, 0xff] {
                    check_int_roundtrip(size, fl, *v, ctx)?;
                }
            }
        }
        ctx.subspace("prefix sizes 1..8 x all 2^k-1, 2^k, 2^k+1 and prefix boundaries x flags {0, all}", vals.len() as u64 * 16);
    }
    // continuation patterns
    let alphabet = [0x00u8, 0x01, 0x7f, 0x80, 0xff];
    let maxk: u32 = ctx.tier.pick(7, 10);
    let mut idx: u64 = 0;
    for k in 0..=maxk {
        let n = 5u64.pow(k);
        for code in 0..n {
            idx += 1;
            if (idx as usize) % nshards != shard {
                continue;
            }
            let mut tail = Vec::with_capacity(k as usize);
            let mut c = code;
            for _ in 0..k {
                tail.push(alphabet[(c % 5) as usize]);
                c /= 5;
            }
            for size in 1..=8u8 {
                let mask = if size == 8 { 0xff } else { (1u8 << size) - 1 };
                let mut b = Vec::with_capacity(k as usize + 1);
                b.push(mask);
                b.extend_from_slice(&tail);
                check_int_decode(size, &b, ctx)?;
                if k <= 3 {
                    // also first bytes that are not the all-ones prefix, with flags
                    b[0] = mask.wrapping_sub(1) | !mask;
                    check_int_decode(size, &b, ctx)?;
                }
            }
        }
    }
    ctx.subspace("continuation bytes over {00,01,7f,80,ff}^k for k <= bound x prefix sizes 1..8", (0..=maxk).map(|k| 5u64.pow(k)).sum::<u64>() * 8);
    Ok(())
}

fn gen_string(t: &mut Tape, max: usize) -> Vec<u8> {
    let n = match t.pick(4) {
        0 => t.int(0, 4) as usize,
        1 => t.int(0, 40) as usize,
        2 => t.int(0, 300) as usize,
        _ => t.int(0, max as u64) as usize,
    };
    match t.pick(4) {
        0 => (0..n.min(24)).map(|_| t.u8()).collect(),
        1 => {
            let cs = b"abcdefghijklmnopqrstuvwxyz0123456789-_ /:.=%";
            t.bulk(n).into_iter().map(|b| cs[b as usize % cs.len()]).collect()
        },
        2 => t.bulk(n).into_iter().map(|b| [0u8, 1, 9, 10, 13, 22, 127, 200, 249, 255][b as usize % 10]).collect(),
        _ => t.bulk(n),
    }
}

fn run_tape(tape: &[u16], ctx: &mut Ctx) -> Verdict {
    let mut t = Tape::new(tape);
    match t.pick(6) {
        0 => {
            let s = gen_string(&mut t, 1024);
            let size = t.int(2, 8) as u8;
            let fl = t.u8() & flag_mask(size);
            check_str_roundtrip(size, fl, &s, ctx)
        }
        1 | 2 => {
            // valid encoding with every padding length 0..15 and random padding bits
            let s = gen_string(&mut t, 64);
            let min_pad = t.int(0, 15) as usize;
            let pat = match t.pick(3) {
                0 => u32::MAX,
                1 => (t.pick(65536) as u32) << 16 | 0xffff,
                _ => (t.pick(65536) as u32) << 16 | t.pick(65536) as u32,
            };
            let enc = rh::encode_with_padding(&s, min_pad, pat);
            check_huff(&enc, ctx)?;
            if t.bool() {
                check_huff_paths(&enc, ctx)?;
            }
            Ok(())
        }
        3 => {
            // EOS spliced in at a symbol boundary
            let s = gen_string(&mut t, 24);
            let at = t.pick(s.len() + 1);
            let mut syms: Vec<u16> = s.iter().map(|b| *b as u16).collect();
            syms.insert(at, 256);
            let mut bits = rh::symbol_bits(&syms);
            while bits.len() % 8 != 0 {
                bits.push(true);
            }
            let enc = rh::pack(&bits);
            check_huff(&enc, ctx)?;
            check_huff_paths(&enc, ctx)
        }
        4 => {
            let size = t.int(1, 8) as u8;
            let v = match t.pick(4) {
                0 => t.u64(),
                1 => t.u64() >> t.pick(64),
                2 => ((1u64 << size) - 1).wrapping_add(t.int(0, 300)).wrapping_sub(2),
                _ => (1u64 << t.pick(64)).wrapping_add(t.int(0, 4)).wrapping_sub(2),
            };
            check_int_roundtrip(size, t.u8(), v, ctx)
        }
        _ => {
            let size = t.int(1, 8) as u8;
            let mask = if size == 8 { 0xff } else { (1u8 << size) - 1 };
            let mut b = vec![if t.chance(3, 4) { mask | (t.u8() & !mask) } else { t.u8() }];
            let k = t.int(0, 12) as usize;
            for i in 0..k {
                let x = match t.pick(4) {
                    0 => t.u8(),
                    1 => 0x80 | t.u8(),
                    2 => *t.choose(&[0x80u8, 0xff, 0x00, 0x7f, 0x01, 0x81]),
                    _ => {
                        if i + 1 == k {
                            t.u8() & 0x7f
                        } else {
                            t.u8() | 0x80
                        }
                    }
                };
                b.push(x);
            }
            check_int_decode(size, &b, ctx)
        }
    }
}

fn run_direct(d: &Value, ctx: &mut Ctx) -> Verdict {
    let size = d.get("size").and_then(|x| x.as_u64()).unwrap_or(8) as u8;
    let flags = d.get("flags").and_then(|x| x.as_u64()).unwrap_or(0) as u8;
    match d.get("kind").and_then(|k| k.as_str()) {
        Some("huge_huffman") => check_huge_huffman(d["len"].as_u64().unwrap_or(1 << 29) as usize, ctx),
        Some("huff") => check_huff(&unhex(d["payload"].as_str().unwrap_or("")), ctx),
        Some("huff_paths") => check_huff_paths(&unhex(d["payload"].as_str().unwrap_or("")), ctx),
        Some("str") => check_str_roundtrip(size, flags, &unhex(d["s"].as_str().unwrap_or("")), ctx),
        Some("int") => check_int_roundtrip(size, flags, d["value"].as_u64().unwrap_or(0), ctx),
        Some("int_decode") => check_int_decode(size, &unhex(d["bytes"].as_str().unwrap_or("")), ctx),
        _ => Err(Failure::fault("unknown direct case")),
    }
}

/// libFuzzer entry: first byte selects the codec (and prefix size), the rest is the input
pub fn fuzz_bytes(data: &[u8], ctx: &mut Ctx) -> Verdict {
    let Some((sel, b)) = data.split_first() else { return Ok(()) };
    match sel % 4 {
        0 => check_huff(b, ctx),
        1 => check_huff_paths(b, ctx),
        2 => check_int_decode(1 + (sel >> 2) % 8, b, ctx),
        _ => check_str_roundtrip(2 + (sel >> 2) % 7, sel >> 5, b, ctx),
    }
}
