//! E3: baton scheduler over OS threads. Each job runs on its own thread; at every hook point inside
//! h3 (`h3::verif::yield_point`) the thread parks and hands the baton back; the scheduler decides
//! which parked thread performs its next shared-state operation. Exactly one thread runs at a time,
//! so the order of the hooked operations is chosen by the harness.

use std::panic::{catch_unwind, AssertUnwindSafe};
use std::sync::{Arc, Condvar, Mutex};

struct St {
    turn: Option<usize>,
    parked: Vec<Option<&'static str>>,
    done: Vec<bool>,
}

pub struct Baton {
    m: Mutex<St>,
    cv: Condvar,
}

impl Baton {
    fn new(n: usize) -> Arc<Self> {
        Arc::new(Baton { m: Mutex::new(St { turn: None, parked: vec![None; n], done: vec![false; n] }), cv: Condvar::new() })
    }

    fn yield_at(&self, i: usize, name: &'static str) {
        let mut g = self.m.lock().unwrap();
        g.parked[i] = Some(name);
        g.turn = None;
        self.cv.notify_all();
        while g.turn != Some(i) {
            g = self.cv.wait(g).unwrap();
        }
        g.parked[i] = None;
    }

    fn finish(&self, i: usize) {
        let mut g = self.m.lock().unwrap();
        g.done[i] = true;
        g.parked[i] = None;
        g.turn = None;
        self.cv.notify_all();
    }
}

/// wrapper asserting Send for values that are only touched by one thread at a time (baton discipline)
pub struct AssertSend<T>(pub T);
unsafe impl<T> Send for AssertSend<T> {}

type AnyBox = Box<dyn std::any::Any>;
type Work = (AssertSend<Box<dyn FnOnce() -> AnyBox>>, Arc<Baton>, usize);

struct Worker {
    tx: std::sync::mpsc::Sender<Work>,
    rx: std::sync::mpsc::Receiver<AssertSend<Result<AnyBox, String>>>,
}

thread_local! {
    /// persistent worker threads of the calling (shard) thread: spawning threads per schedule is what costs
    static POOL: std::cell::RefCell<Vec<Worker>> = const { std::cell::RefCell::new(Vec::new()) };
}

fn spawn_worker() -> Worker {
    let (tx, wrx) = std::sync::mpsc::channel::<Work>();
    let (wtx, rx) = std::sync::mpsc::channel::<AssertSend<Result<AnyBox, String>>>();
    std::thread::Builder::new()
        .stack_size(1 << 20)
        .spawn(move || {
            crate::runner::set_quiet_panics(true);
            while let Ok((job, b, i)) = wrx.recv() {
                let b2 = b.clone();
                h3::verif::set_hook(Some(Box::new(move |name| b2.yield_at(i, name))));
                b.yield_at(i, "start");
                let r = catch_unwind(AssertUnwindSafe(move || (job.0)()));
                h3::verif::set_hook(None);
                let r = r.map_err(|_| crate::runner::take_last_panic().unwrap_or_else(|| "panic".into()));
                // hand the result over BEFORE giving the baton back, so the scheduler finds it when it sees `done`
                let _ = wtx.send(AssertSend(r));
                b.finish(i);
            }
        })
        .expect("spawn worker");
    Worker { tx, rx }
}

/// Runs the jobs under a schedule. `pick` is given the parked threads (index, hook point) and returns
/// the position of the one to run next. Returns the job results (Err = panic message) and the log of
/// granted steps (thread, the hook point it was parked at).
pub fn race<R: 'static>(jobs: Vec<Box<dyn FnOnce() -> R>>, pick: &mut dyn FnMut(&[(usize, &'static str)]) -> usize) -> (Vec<Result<R, String>>, Vec<(usize, &'static str)>) {
    let n = jobs.len();
    let baton = Baton::new(n);
    POOL.with(|p| {
        let mut p = p.borrow_mut();
        while p.len() < n {
            p.push(spawn_worker());
        }
        for (i, job) in jobs.into_iter().enumerate() {
            let wrapped: Box<dyn FnOnce() -> AnyBox> = Box::new(move || Box::new(job()) as AnyBox);
            p[i].tx.send((AssertSend(wrapped), baton.clone(), i)).expect("worker alive");
        }
    });
    let mut log = Vec::new();
    loop {
        let mut g = baton.m.lock().unwrap();
        loop {
            let settled = g.turn.is_none() && (0..n).all(|i| g.done[i] || g.parked[i].is_some());
            if settled {
                break;
            }
            g = baton.cv.wait(g).unwrap();
        }
        let enabled: Vec<(usize, &'static str)> = (0..n).filter(|i| !g.done[*i]).map(|i| (i, g.parked[i].unwrap())).collect();
        if enabled.is_empty() {
            break;
        }
        let k = pick(&enabled).min(enabled.len() - 1);
        log.push(enabled[k]);
        g.turn = Some(enabled[k].0);
        baton.cv.notify_all();
    }
    let results = POOL.with(|p| {
        let p = p.borrow();
        (0..n)
            .map(|i| match p[i].rx.recv() {
                Ok(r) => r.0.map(|b| *b.downcast::<R>().expect("result type")),
                Err(_) => Err("worker died".to_string()),
            })
            .collect()
    });
    (results, log)
}
