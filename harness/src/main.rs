use std::path::Path;

use h3verif::props;
use h3verif::runner::{self, Tier};

fn usage() -> ! {
    eprintln!("usage: h3verif <Cxx> <quick|thorough> | h3verif <Cxx> --replay <file> | h3verif selftest");
    std::process::exit(2);
}

fn main() {
    runner::install_panic_hook();
    let args: Vec<String> = std::env::args().collect();
    if args.len() < 2 {
        usage();
    }
    if args[1] == "selftest" {
        std::process::exit(h3verif::reference::selftest());
    }
    let Some(prop) = props::find(&args[1]) else {
        eprintln!("unknown property {}", args[1]);
        std::process::exit(2);
    };
    if args.len() >= 4 && args[2] == "--replay" {
        std::process::exit(runner::run_replay(prop, Path::new(&args[3])));
    }
    let tier = match args.get(2).map(|s| s.as_str()).or(std::env::var("VERIF_TIER").ok().as_deref()) {
        Some("quick") | None => Tier::Quick,
        Some("thorough") => Tier::Thorough,
        Some(_) => usage(),
    };
    let seed: u64 = std::env::var("VERIF_SEED").ok().and_then(|s| s.trim().parse::<i128>().ok()).map(|x| x as u64).unwrap_or(1);
    // self test of the reference implementations first: an oracle bug must not show up as a violation
    let st = h3verif::reference::selftest();
    if st != 0 {
        println!("INCONCLUSIVE property={} reference self-test failed", prop.id);
        std::process::exit(2);
    }
    std::process::exit(runner::run_check(prop, tier, seed));
}
