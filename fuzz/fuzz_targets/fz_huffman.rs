#![no_main]
use libfuzzer_sys::fuzz_target;

fuzz_target!(|data: &[u8]| {
    h3verif::runner::fuzz_with(|ctx| h3verif::props::c15::fuzz_bytes(data, ctx));
});
