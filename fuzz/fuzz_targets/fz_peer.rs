#![no_main]
use libfuzzer_sys::fuzz_target;

fuzz_target!(|data: &[u8]| {
    h3verif::runner::fuzz_tape(&h3verif::props::c06::PROP, data);
});
